"""Source-free failpoints (C04): sys.monitoring LINE callbacks restricted to the code objects of
pyplate/pyplate.py and pyplate/slicer.py raise InjectedFault at the k-th executed line of a call, for
every k of that call in turn."""
from __future__ import annotations

import sys

from .monitors import InjectedFault

_state = {'on': False, 'count': 0, 'fire_at': None, 'site': None, 'files': None, 'registered': False,
          'sites': None}


def _on_line(code, line):
    st = _state
    if code.co_filename not in st['files']:
        return sys.monitoring.DISABLE
    if not st['on']:
        return None
    st['count'] += 1
    if st['sites'] is not None:
        st['sites'].add((code.co_name, line))
    if st['fire_at'] is not None and st['count'] == st['fire_at']:
        st['site'] = (code.co_name, line)
        st['on'] = False      # one fault per run; cleanup code that runs afterwards is not re-faulted
        raise InjectedFault(f'failpoint #{st["count"]} at {code.co_name}:{line}')
    return None


def setup():
    if _state['registered']:
        return
    import pyplate.pyplate as pp
    import pyplate.slicer as ps
    _state['files'] = {pp.__file__, ps.__file__}
    mon = sys.monitoring
    mon.use_tool_id(mon.DEBUGGER_ID, 'pv-failpoints')
    mon.register_callback(mon.DEBUGGER_ID, mon.events.LINE, _on_line)
    mon.set_events(mon.DEBUGGER_ID, mon.events.LINE)
    _state['registered'] = True


def count_lines(fn):
    """Run fn once without faults; -> (number of line events inside pyplate, distinct sites, exception)."""
    setup()
    sys.monitoring.restart_events()
    _state.update(on=True, count=0, fire_at=None, site=None, sites=set())
    exc = None
    try:
        fn()
    except InjectedFault:
        raise
    except Exception as e:   # noqa
        exc = e
    finally:
        _state['on'] = False
    sites = _state['sites']
    _state['sites'] = None
    return _state['count'], sites, exc


def run_with_fault(fn, k):
    """Run fn raising InjectedFault at the k-th pyplate line.  -> site or None if not reached."""
    setup()
    sys.monitoring.restart_events()
    _state.update(on=True, count=0, fire_at=k, site=None, sites=None)
    try:
        fn()
    except InjectedFault:
        pass
    except Exception:   # a natural failure after/besides the injected one is fine
        pass
    finally:
        _state['on'] = False
        _state['fire_at'] = None
    return _state['site']
