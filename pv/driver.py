"""Driver: shards the cases of one property over <=16 short-lived worker subprocesses, merges what the
monitors observed, classifies violations against known_findings.json, writes evidence/<id>.json and
returns the exit code.  Never imports pyplate itself."""
from __future__ import annotations

import collections
import concurrent.futures
import importlib
import json
import os
import shutil
import subprocess
import sys
import tempfile
import time

from . import known
from . import linecov

VERIF = os.path.dirname(os.path.dirname(os.path.abspath(__file__)))
REPO = os.environ.get('VERIF_REPO', '/repo')
PY = os.environ.get('VERIF_PYTHON', '/venv/bin/python')
NPROC = int(os.environ.get('VERIF_NPROC', '16'))


def write_config(scratch, overrides, tag):
    """A PYPLATE_CONFIG directory holding a copy of the repository's yaml (taken now) with overrides."""
    import re
    d = os.path.join(scratch, 'cfg-' + tag)
    os.makedirs(d, exist_ok=True)
    src = os.path.join(REPO, 'pyplate', 'pyplate.yaml')
    text = open(src).read()
    for k, v in (overrides or {}).items():
        if k == 'precisions':
            # replace the whole precisions block
            block = 'precisions:\n' + ''.join(f'  {pk}: {pv}\n' for pk, pv in v.items())
            text = re.sub(r'(?m)^precisions:\n(?:[ \t]+.*\n)+', block, text)
            continue
        pat = re.compile(r'(?m)^' + re.escape(k) + r':.*$')
        if not pat.search(text):
            raise RuntimeError(f'config key {k} not found in yaml')
        text = pat.sub(f'{k}: {v}', text)
    with open(os.path.join(d, 'pyplate.yaml'), 'w') as f:
        f.write(text)
    return d


def run_worker(job, scratch, cfgdir, n):
    jobfile = os.path.join(scratch, f'job{n}.json')
    outfile = os.path.join(scratch, f'out{n}.json')
    with open(jobfile, 'w') as f:
        json.dump(job, f)
    env = dict(os.environ)
    env.update({'PYTHONPATH': f'{REPO}:{VERIF}', 'PYTHONDONTWRITEBYTECODE': '1', 'PYTHONHASHSEED': '0',
                'PYPLATE_CONFIG': cfgdir, 'VERIF_REPO': REPO, 'MPLBACKEND': 'Agg'})
    timeout = job.get('timeout', 900)
    t0 = time.time()
    try:
        p = subprocess.run([PY, '-X', 'faulthandler', '-m', 'pv.worker', jobfile, outfile], env=env, cwd=scratch,
                           capture_output=True, text=True, timeout=timeout)
    except subprocess.TimeoutExpired:
        return {'job': job, 'ok': False, 'watchdog': True, 'wall_s': time.time() - t0}
    if not os.path.exists(outfile):
        return {'job': job, 'ok': False, 'error': f'worker died rc={p.returncode}\n{p.stderr[-3000:]}',
                'wall_s': time.time() - t0}
    with open(outfile) as f:
        out = json.load(f)
    out['stderr_tail'] = p.stderr[-500:] if p.returncode else ''
    return out


def merge(results, prop):
    m = {'counters': collections.Counter(), 'buckets': collections.Counter(), 'violations': [],
         'other_violations': collections.Counter(), 'nontrivial': collections.defaultdict(set),
         'samples': collections.defaultdict(list), 'max_ratio': {}, 'extras': [], 'errors': [], 'watchdog': 0,
         'bugs': [], 'missing': set(), 'config_not_applied': [], 'worker_wall': 0.0,
         'lines': collections.defaultdict(set)}
    for r in results:
        m['worker_wall'] += r.get('wall_s', 0.0)
        if r.get('watchdog'):
            m['watchdog'] += 1
            continue
        if not r.get('ok'):
            m['errors'].append(r.get('error', 'unknown worker failure'))
            continue
        if r.get('config_not_applied'):
            m['config_not_applied'].append(r['config_not_applied'])
        m['counters'].update(r['counters'])
        m['buckets'].update(r['buckets'])
        for v in r['violations']:
            if prop in v['props']:
                m['violations'].append(v)
            else:
                for p in v['props']:
                    m['other_violations'][p] += 1
        for k, v in r['nontrivial'].items():
            m['nontrivial'][k].update(v)
        for k, v in r['samples'].items():
            if len(m['samples'][k]) < 8:
                m['samples'][k].extend(v[:3])
        for k, v in r['max_ratio'].items():
            m['max_ratio'][k] = max(m['max_ratio'].get(k, 0.0), v)
        m['extras'].append(r.get('extra') or {})
        m['bugs'].extend(r.get('bugs') or [])
        m['missing'].update(r.get('missing') or [])
        for k, v in (r.get('lines') or {}).items():
            m['lines'][k].update(v)
    return m


def run(prop, tier='quick', seed=0, replay=None, verbose=True):
    t0 = time.time()
    mod = importlib.import_module('pv.props.' + prop.lower())
    scratch = tempfile.mkdtemp(prefix=f'pv-{prop}-')
    try:
        if replay:
            with open(replay) as f:
                rep = json.load(f)
            jobs = [rep['job']]
        else:
            jobs = mod.plan(tier, seed)
        for j in jobs:
            j.setdefault('prop', prop)
            j.setdefault('tier', tier)
            j.setdefault('seed', seed)
        cfgdirs = {}
        for j in jobs:
            key = json.dumps(j.get('config') or {}, sort_keys=True)
            if key not in cfgdirs:
                cfgdirs[key] = write_config(scratch, j.get('config'), str(len(cfgdirs)))
        results = []
        with concurrent.futures.ThreadPoolExecutor(max_workers=NPROC) as ex:
            futs = [ex.submit(run_worker, j, scratch, cfgdirs[json.dumps(j.get('config') or {}, sort_keys=True)], n)
                    for n, j in enumerate(jobs)]
            for fu in futs:
                results.append(fu.result())
        m = merge(results, prop)
        return conclude(prop, tier, seed, mod, m, jobs, t0, replay, verbose)
    finally:
        shutil.rmtree(scratch, ignore_errors=True)


def conclude(prop, tier, seed, mod, m, jobs, t0, replay, verbose):
    out = []
    say = out.append
    # offline, history-level part of the check (module specific)
    fin = {}
    if hasattr(mod, 'finalize'):
        fin = mod.finalize(m, tier) or {}
    for v in fin.get('violations', []):
        m['violations'].append(v)

    harness_error = bool(m['errors'] or m['bugs'])
    unlisted, listed, open_by_id = known.classify(prop, m['violations'])
    evaluations = int(sum(m['counters'].get(k, 0) for k in mod.DECIDING))
    nontrivial = len(m['nontrivial'].get(prop, ()))
    inconclusive = []
    if m['watchdog']:
        inconclusive.append(f'{m["watchdog"]} shard(s) hit the watchdog')
    if m['missing']:
        inconclusive.append('public names missing: ' + ','.join(sorted(m['missing'])))
    if m['config_not_applied']:
        inconclusive.append('configuration not applied')
    if not replay:
        minimum = mod.MIN_EVAL[tier] if isinstance(mod.MIN_EVAL, dict) else mod.MIN_EVAL
        if evaluations < minimum:
            inconclusive.append(f'deciding monitors evaluated {evaluations} < {minimum} events')
        for k, need in (getattr(mod, 'MIN_MONITOR', {}) or {}).items():
            if m['counters'].get(k, 0) < need:
                inconclusive.append(f'monitor {k} evaluated {m["counters"].get(k, 0)} < {need}')
        req = mod.required_buckets(tier) if hasattr(mod, 'required_buckets') else []
        empty = [b for b in req if not any(k.startswith(b) and c > 0 for k, c in m['buckets'].items())]
        if empty:
            inconclusive.append('required coverage buckets empty: ' + ', '.join(empty[:8]))
        if nontrivial < 2:
            inconclusive.append(f'only {nontrivial} distinct non-trivial cases')
    else:
        empty = []

    # ---- evidence
    replays = []
    os.makedirs(os.path.join(VERIF, 'replays'), exist_ok=True)
    for n, v in enumerate(unlisted[:20]):
        if replay:
            replays.append(replay)       # replaying: do not clobber witness files
            continue
        path = os.path.join(VERIF, 'replays', f'{prop}-{seed}-{n}.json')
        case = v.get('case') or {}
        job = {'prop': prop, 'tier': tier, 'seed': seed, 'kind': case.get('kind'), 'lo': case.get('idx'),
               'hi': (case.get('idx') or 0) + 1, 'params': case.get('params'), 'config': case.get('config'),
               'config_expect': case.get('config_expect')}
        with open(path, 'w') as f:
            json.dump({'property': prop, 'violation': v, 'job': job,
                       'how_to_replay': f'cd /verif && {PY} -m pv.check {prop} --replay {path}'}, f, indent=1, default=repr)
        replays.append(path)
    coverage = {
        'evaluations': evaluations,
        'distinct_nontrivial': nontrivial,
        'rule': mod.RULE,
        'samples': (m['samples'].get(prop) or [])[:8] + (fin.get('samples') or [])[:4],
        'monitor_evaluations': {k: v for k, v in sorted(m['counters'].items())
                                if not k.startswith('calls.') and not k.startswith('violations.')},
        'calls_observed': {k[6:]: v for k, v in sorted(m['counters'].items()) if k.startswith('calls.')},
        'nested_calls_observed': m['counters'].get('nested_calls', 0),
        'buckets': {k: v for k, v in sorted(m['buckets'].items()) if k.startswith(prop + '/')},
        'buckets_reached': len([k for k in m['buckets'] if k.startswith(prop + '/')]),
        'required_buckets_empty': empty,
        'max_obs_over_tol': {k: round(v, 4) for k, v in sorted(m['max_ratio'].items())},
        'known_findings_observed': {k: len(v) for k, v in listed.items()},
        'violations_of_other_properties_seen': dict(m['other_violations']),
        'inconclusive_shards': m['watchdog'],
        'jobs': len(jobs),
        'worker_cpu_s': round(m['worker_wall'], 1),
    }
    coverage.update(fin.get('coverage') or {})
    if m['lines']:
        # where the workload went inside the library (observed by a sys.monitoring LINE tool in every worker)
        coverage['library_lines'] = linecov.summarise(m['lines'], os.path.join(REPO, 'pyplate'))
    if len(json.dumps(coverage['buckets'])) > 60000:
        keys = sorted(coverage['buckets'])
        coverage['buckets'] = {k: coverage['buckets'][k] for k in keys[:400]}
        coverage['buckets_truncated'] = True
    ev = {
        'property_id': prop, 'tier': tier, 'seed': int(seed), 'level': mod.LEVEL,
        'coverage': coverage,
        'assumptions': mod.ASSUMPTIONS,
        'wall_s': round(time.time() - t0, 2),
        'violations': len(unlisted),
        'verdict': 'violated' if unlisted else 'inconclusive' if (inconclusive or harness_error) else 'held_on_observed',
        'inconclusive_reasons': inconclusive,
    }
    if not replay:
        os.makedirs(os.path.join(VERIF, 'evidence'), exist_ok=True)
        with open(os.path.join(VERIF, 'evidence', f'{prop}.json'), 'w') as f:
            json.dump(ev, f, indent=1, default=repr)

    # ---- verdict lines
    for fid, vs in sorted(listed.items()):
        f = open_by_id[fid]
        say(f'KNOWN-FINDING: property={prop} {fid} {f["description"]} (observed {len(vs)}x, e.g. mech={vs[0]["mech"]})')
    if harness_error:
        for e in (m['errors'] + m['bugs'])[:3]:
            say('HARNESS-ERROR ' + e[-2500:])
    for v, path in zip(unlisted, replays):
        say(f'VIOLATION property={prop} replay={path}')
        say(f'  monitor={v["monitor"]} mech={v["mech"]} detail={json.dumps(v["detail"], default=repr)[:600]}')
    if len(unlisted) > len(replays):
        say(f'  ... and {len(unlisted) - len(replays)} more violations (first {len(replays)} written)')
    mechs = collections.Counter(v['mech'] for v in unlisted)
    if mechs:
        say('  mechanisms: ' + ', '.join(f'{k} x{c}' for k, c in mechs.most_common(12)))
    say(f'{prop} tier={tier} seed={seed}: evaluations={evaluations} distinct_nontrivial={nontrivial} '
        f'buckets={coverage["buckets_reached"]} nested_calls={coverage["nested_calls_observed"]} '
        f'known_findings={sum(len(v) for v in listed.values())} violations={len(unlisted)} wall={ev["wall_s"]}s')
    if unlisted:
        code = 1
    elif harness_error:
        code = 3
    elif inconclusive:
        for r in inconclusive:
            say(f'INCONCLUSIVE property={prop} reason={r}')
        code = 2
    else:
        say(f'HELD property={prop} on what was observed')
        code = 0
    if verbose:
        print('\n'.join(out))
        sys.stdout.flush()
    return code
