"""Developer tool (not a check): confirm a seeded change made in a scratch worktree, store it under
/verif/seeded/<name>/ and record which checks catch it.

  python -m pv.seeded confirm <worktree> <name> <property>      # save patch + demo, confirm tests/demo
  python -m pv.seeded run <name> [--tier quick] [--props C01,C07] [--seeds 0,1]   # run checks against a scratch copy
"""
from __future__ import annotations

import argparse
import json
import os
import shutil
import subprocess
import sys
import tempfile
import time

VERIF = os.path.dirname(os.path.dirname(os.path.abspath(__file__)))
PY = '/venv/bin/python'
ALL = [f'C{i:02d}' for i in range(1, 20)]


def sh(cmd, cwd=None, env=None, timeout=1800):
    e = dict(os.environ)
    e.update(env or {})
    p = subprocess.run(cmd, shell=True, cwd=cwd, env=e, capture_output=True, text=True, timeout=timeout)
    return p.returncode, p.stdout + p.stderr


def confirm(wt, name, prop):
    d = os.path.join(VERIF, 'seeded', name)
    os.makedirs(d, exist_ok=True)
    rc, diff = sh('git diff -- pyplate', cwd=wt)
    if not diff.strip():
        print('no diff in', wt)
        return 1
    open(os.path.join(d, 'patch.diff'), 'w').write(diff)
    demo = os.path.join(wt, 'demo.py')
    if os.path.exists(demo):
        shutil.copy(demo, os.path.join(d, 'demo.py'))
    ran = []
    # with the change: tests pass, demo fails
    rc_t, out_t = sh(f'{PY} -m pytest -q -p no:cacheprovider 2>&1 | tail -1', cwd=wt)
    ran.append({'cmd': f'cd <worktree> && {PY} -m pytest -q -p no:cacheprovider', 'with_change': out_t.strip()})
    rc_d1, out_d1 = sh(f'PYTHONPATH={wt} {PY} demo.py', cwd=wt, timeout=300)
    ran.append({'cmd': 'PYTHONPATH=<worktree> python demo.py', 'with_change': {'exit': rc_d1, 'tail': out_d1.strip()[-400:]}})
    # without the change (reverse-apply the saved patch; git stash is shared between worktrees and must not be used)
    patch = os.path.join(d, 'patch.diff')
    rc_r, out_r = sh(f'git apply -R {patch}', cwd=wt)
    assert rc_r == 0, out_r
    sh('find . -name __pycache__ -prune -exec rm -rf {} +', cwd=wt)
    try:
        rc_d0, out_d0 = sh(f'PYTHONPATH={wt} PYTHONDONTWRITEBYTECODE=1 {PY} demo.py', cwd=wt, timeout=300)
    finally:
        rc_a, out_a = sh(f'git apply {patch}', cwd=wt)
        assert rc_a == 0, out_a
        sh('find . -name __pycache__ -prune -exec rm -rf {} +', cwd=wt)
    ran.append({'cmd': 'PYTHONPATH=<worktree> python demo.py', 'without_change': {'exit': rc_d0, 'tail': out_d0.strip()[-200:]}})
    ok = ('80 passed' in out_t) and rc_d1 != 0 and rc_d0 == 0
    meta_path = os.path.join(d, 'meta.json')
    meta = json.load(open(meta_path)) if os.path.exists(meta_path) else {}
    meta.update({'name': name, 'breaks_property': prop, 'confirmed': ok, 'confirmation': ran,
                 'base_commit': sh('git rev-parse --short HEAD', cwd=wt)[1].strip()})
    meta.setdefault('needs_to_manifest', '')
    json.dump(meta, open(meta_path, 'w'), indent=1)
    print(name, 'confirmed' if ok else 'NOT CONFIRMED', '| tests:', out_t.strip(), '| demo with:', rc_d1, '| demo without:', rc_d0)
    return 0 if ok else 1


def run(name, tier, props, seeds):
    d = os.path.join(VERIF, 'seeded', name)
    meta_path = os.path.join(d, 'meta.json')
    meta = json.load(open(meta_path))
    scratch = tempfile.mkdtemp(prefix='pv-seeded-')
    try:
        wt = os.path.join(scratch, 'repo')
        rc, out = sh(f'git -C /repo worktree add --detach {wt} main -q')
        rc, out = sh(f'git apply {os.path.join(d, "patch.diff")}', cwd=wt)
        if rc:
            print('patch does not apply:', out)
            return 1
        results = meta.setdefault('checks', {})
        backup = tempfile.mkdtemp(prefix='pv-evid-')
        shutil.copytree(os.path.join(VERIF, 'evidence'), os.path.join(backup, 'evidence'))
        for prop in props:
            for seed in seeds:
                t0 = time.time()
                rc, out = sh(f'{PY} -m pv.check {prop} --tier {tier} --seed {seed}', cwd=VERIF, env={'VERIF_REPO': wt}, timeout=3600)
                mech = [l.strip() for l in out.splitlines() if l.strip().startswith('mechanisms:')]
                verdict = {0: 'held', 1: 'VIOLATION', 2: 'inconclusive', 3: 'harness_error'}.get(rc, str(rc))
                results[f'{prop}/{tier}/seed{seed}'] = {'exit': rc, 'verdict': verdict, 'mechanisms': (mech[0][:400] if mech else ''),
                                                        'wall_s': round(time.time() - t0, 1)}
                print(name, prop, tier, seed, verdict, (mech[0][:200] if mech else ''))
        # evidence files were rewritten by these runs against the scratch copy: restore
        shutil.rmtree(os.path.join(VERIF, 'evidence'))
        shutil.copytree(os.path.join(backup, 'evidence'), os.path.join(VERIF, 'evidence'))
        shutil.rmtree(backup)
        target = meta.get('breaks_property')
        meta['caught_by'] = sorted({k.split('/')[0] for k, v in results.items() if v['exit'] == 1})
        meta['caught_by_own_property_check'] = any(k.startswith(target + '/') and v['exit'] == 1 for k, v in results.items())
        json.dump(meta, open(meta_path, 'w'), indent=1)
    finally:
        sh(f'git -C /repo worktree remove --force {os.path.join(scratch, "repo")}')
        shutil.rmtree(scratch, ignore_errors=True)
    return 0


def main():
    ap = argparse.ArgumentParser()
    ap.add_argument('cmd')
    ap.add_argument('a', nargs='*')
    ap.add_argument('--tier', default='quick')
    ap.add_argument('--props')
    ap.add_argument('--seeds', default='0')
    a = ap.parse_args()
    if a.cmd == 'confirm':
        sys.exit(confirm(a.a[0], a.a[1], a.a[2]))
    if a.cmd == 'all':
        # re-verify every stored seeded change against its own property's check (and print a table)
        rc = 0
        names = sorted(os.listdir(os.path.join(VERIF, 'seeded')))
        for name in names:
            mp = os.path.join(VERIF, 'seeded', name, 'meta.json')
            if not os.path.exists(mp):
                continue
            meta = json.load(open(mp))
            props = a.props.split(',') if a.props else [meta['breaks_property']]
            run(name, a.tier, props, [int(x) for x in a.seeds.split(',')])
            meta = json.load(open(mp))
            if not meta.get('caught_by_own_property_check'):
                rc = 1
                print('MISSED:', name)
        sys.exit(rc)
    if a.cmd == 'table':
        # markdown table for DESIGN.md section 16
        print('| seeded change | breaks | what it needs to manifest | caught by (quick tier, own-property check first) |')
        print('|---|---|---|---|')
        for name in sorted(os.listdir(os.path.join(VERIF, 'seeded'))):
            mp = os.path.join(VERIF, 'seeded', name, 'meta.json')
            if not os.path.exists(mp):
                continue
            meta = json.load(open(mp))
            own = meta['breaks_property']
            mechs = ''
            for k, v in sorted(meta.get('checks', {}).items()):
                if k.startswith(own + '/') and v['exit'] == 1 and v.get('mechanisms'):
                    mechs = v['mechanisms'].replace('mechanisms: ', '').split(',')[0].strip()
                    mechs = mechs.rsplit(' x', 1)[0]
                    break
            others = [c for c in meta.get('caught_by', []) if c != own]
            caught = (f'**{own}** `{mechs}`' if meta.get('caught_by_own_property_check') else f'{own}: MISSED') + \
                     (('; also ' + ', '.join(others)) if others else '')
            need = (meta.get('needs_to_manifest') or '').replace('|', '/').replace('\n', ' ')
            print(f'| {name} | {own} | {need} | {caught} |')
        return
    if a.cmd == 'run':
        name = a.a[0]
        meta = json.load(open(os.path.join(VERIF, 'seeded', name, 'meta.json')))
        props = a.props.split(',') if a.props else [meta['breaks_property']]
        if props == ['all']:
            props = ALL
        sys.exit(run(name, a.tier, props, [int(x) for x in a.seeds.split(',')]))


if __name__ == '__main__':
    main()
