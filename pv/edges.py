"""Directed edge workloads (round 9): input classes at the rim of several properties that the random generators reach rarely or
never - each with an explicit expectation, run under the monitors like everything else.  One job kind ('edges') shared by the
checks of C03, C05, C06, C08, C11, C12 and C14; violations carry the tags of every property they contradict, the driver keeps
those of the property being checked.

Families
  E1  dilute that fills the vessel exactly to its capacity (round numbers)                       must be accepted   C03 C11
  E2  the concentration of the pure solute as a dilution target (100 %, 1 mol/mol, M in g/mol)    ValueError         C03 C11
  E3  create_solution with the solute as its own solvent / already in the solvent container       ValueError, or every stated value met   C05 C03
  E4  a negative amount of >= 1e4 storage quanta that is tiny in base units ('-0.00004 uL')       ValueError         C03
  E5  an infinite amount (initial contents, fill_to target, total quantity)                       ValueError         C03 C05 C11
  E6  a recipe dilute step that needs no solvent (first member of a dilution series)              bake = eager       C08 C03 C11
  E7  a recipe fill_to exactly to capacity with a solvent of large molar volume                   bake = eager       C08 C03
  E8  an enzyme diluted to one concentration spelt in U, g or L per volume                        same result        C11 C14
  E9  create_solution_from at the stock's own concentration (no solvent needed)                   accepted           C12 C03
  E10 create_solution_from with an enzyme solute (U/mL, mg/mL met; a molar target refused)        FROM monitor       C12
  E11 two lots of one enzyme (same name, different specific activity) in one container / transfer  masses add up      C06 C02
Round 10 (second hunt):
  E12 extreme dilutions / tiny totals in create_solution_from ('1 pM' from 1 M; '0.15 pL')        delivered; '1.05 M' from 1 M refused   C12 C03
  E13 a source of enzymes only; an enzyme as the diluent (from, dilute, recipe forms)              accepted / ValueError   C12 C03 C11
  E14 create_solution: a solute listed twice, any iterable, U total with an enzyme in the buffer,
      a trace quantity in a huge total                                                            ValueError or every stated value met   C05 C03
  E15 one specific activity in several spellings; malformed units in convert_to_storage;
      a concentration over an infinite amount                                                     equal / ValueError      C14 C06
  E16 get_concentration: the default unit is the configured one, 'M' and 'nM' tell the same;
      two lots of one enzyme each have their row in the table                                     agree with contents     C10 C14 C19
  E17 a real net decrease on a large plate                                                        ValueError              C09
  E18 recipe steps keep what they were declared with (lists appended to afterwards, an empty
      list filled afterwards); an enzyme diluted by a recipe; a no-op dilute with a new name        bake = eager            C08 C04
  E19 what a call returns is the caller's own: the table, the set, the dict of results;
      a returned container is never the argument itself                                           unchanged answers       C04 C10 C09
  E20 requests that need nothing: top up a well to the volume just dispensed into it; the
      concentration a solution was made with (from / dilute)                                      accepted                C18 C03 C11 C12
Round 11 (third hunt):
  E21 one bottle dispensed into every well of a 384-well plate; nothing leaves bottle + plate       answer 0, not refused   C09
  E22 dilution factors beyond (stored amount / 1e-10); a total at the stock's own concentration;
      a trace solute stated by concentration in a total by mass; a stated zero                       delivered / refused     C12 C05 C03
  E23 the caller's table owns its labels; a substance named 'Total'; plate[:] and plate answer
      get_moles alike                                                                                unchanged / agree       C10 C04
  E24 '1 mg/N U' is N U/mg; a specific activity of zero; a prefix glued to the percent sign;
      a concentration that overflows once its prefixes are applied                                   equal / ValueError      C06 C14
  E25 a negative amount in a unit that does not measure the substance; activity units for a
      non-enzyme (dilute); Recipe.create_solution_from at the neat stock's concentration            ValueError / bake = eager   C04 C03 C08
  E26 the container bake returns under a new name answers the tracking queries; a plate of
      another geometry under a declared name                                                        same answers / ValueError   C15 C09 C16
  E27 (L / mol storage) an enzyme moved by mass: nanograms arrive as stated                          C02 C03
  E28 (zero-volume solids) a solid as the diluent of create_solution_from; fill_to / dilute with a
      solid state a mass; (any configuration) a recipe create_container step states its contents     ValueError / stated     C12 C19
Round 12 (fourth hunt):
  E29 a real loss after a long stage of single-well dispenses out of a carboy; (mol storage) a loss of
      100 nmol to waste after a 384-to-384 stamp; the stages add up to the whole recipe              ValueError / additive   C09
  E30 what "own concentration" means: a small real spike or dilution is carried out, an unreachable
      target refused (pure enzyme at 150 %w/w; 0.9 % above 10 fmol), the own concentration accepted
      whatever the diluent named, next to a heavy co-solute, as reported, from a diluent already at it  C12 C03 C11 C18
  E31 an enzyme stated in moles; '1 U/3 g' is '3 g/1 U'; '' and [] are refused with ValueError; a
      trace enzyme stated by mass in a total by mass                                                 ValueError / equal / met   C14 C06 C05 C03
  E32 a selection of no wells: transfer into it returns new objects, out of it bakes like the eager
      call; default names and None keywords of a recipe create_solution step; plate observers answer
      in their own dimension, by default in the configured unit, a substance listed twice once       C04 C08 C10
"""
from __future__ import annotations

import math

N_FAMILIES = 32


def edges(rng, case, idx):
    import pyplate.pyplate as pp
    from pv import refmodel as R
    from pv.monitors import M
    S, C = pp.Substance, pp.Container
    cf = R.cfg()
    water = S.liquid('H2O', 18.0153, 1)
    dmso = S.liquid('DMSO', 78.13, 1.1004)
    eth = S.liquid('EtOH', 46.07, 0.789)
    tween = S.liquid('tween20', 1227.54, 1.1)
    salt = S.solid('NaCl', 58.4428)
    kcl = S.solid('KCl', 74.5513)

    def viol(props, mech, detail):
        M.violate(props, 'EDGE', mech, detail)

    def attempt(fn):
        try:
            return fn(), None
        except Exception as e:   # noqa
            from pv.monitors import MonitorBug, InjectedFault
            if isinstance(e, (MonitorBug, InjectedFault)):
                raise
            return None, e

    only = (case.get('params') or {}).get('only')
    fam = only[idx % len(only)] if only else idx % N_FAMILIES
    M.count('EDGE')
    # the families that bake large plates or long recipes run only in the checks whose property they are about
    if case['prop'] not in {16: ('C09',), 20: ('C09', 'C18', 'C17'), 28: ('C09', 'C18', 'C17')}.get(fam, (case['prop'],)):
        M.count('EDGE.skipped_expensive_family_of_another_property')
        return
    with M.active(case):
        if fam == 0:
            # ---- E1
            for k_ in range(12):
                v = rng.choice([4, 10, 25, 50, 100, 200, 400, 500, 1000, 2000, 5000, 14000])
                pct = rng.choice([50, 25, 10, 5, 20, 40])
                sub = rng.choice([dmso, eth])
                cap = f'{v * 100 // pct} uL' if (v * 100) % pct == 0 else f'{v * 100 / pct} uL'
                M.bucket(case['prop'] + '/edge/E1_dilute_exactly_to_capacity')
                c = C('v', cap, [(sub, f'{v} uL')])
                res, exc = attempt(lambda: c.dilute(sub, f'{pct} %v/v', water))
                if exc is not None:
                    viol(['C03', 'C11'], f'C03:dilute_exactly_to_capacity_refused:{type(exc).__name__}',
                         {'container': f'{v} uL of {sub.name} in a {cap} vessel', 'target': f'{pct} %v/v', 'exc': repr(exc)[:160]})
                else:
                    M.note_nontrivial(case['prop'], ('E1', v, pct, sub.name))
            # ... from a mixture: a five-fold dilution of 2 uL of 20 %v/v in a 10 uL tube
            for k_ in range(12):
                cap_ul = rng.choice([10, 20, 50, 100, 200, 500, 1000, 5000, 50000])
                factor = rng.choice([2, 4, 5, 8, 10, 20, 25])
                start_pct = rng.choice([20, 40, 50, 10, 80])
                v0 = cap_ul / factor
                M.bucket(case['prop'] + '/edge/E1_dilute_a_mixture_exactly_to_capacity')
                c = C('tube', f'{cap_ul} uL', [(dmso, f'{v0 * start_pct / 100:.10g} uL'), (water, f'{v0 * (100 - start_pct) / 100:.10g} uL')])
                res, exc = attempt(lambda: c.dilute(dmso, f'{start_pct / factor:.10g} %v/v', water))
                if exc is not None:
                    viol(['C03', 'C11'], f'C03:dilute_exactly_to_capacity_refused:mixture:{type(exc).__name__}', {'tube_uL': cap_ul, 'holds_uL': v0, 'from_pct': start_pct, 'factor': factor, 'exc': repr(exc)[:120]})
            # ... and fill_to the capacity of a small well that holds a protein
            igg_ = S.solid('IgG', 150000.0)
            for k_ in range(12):
                cap_ul = rng.choice([10, 20, 50, 100, 200, 1000, 2000])
                ug, buf = rng.choice([0.1, 0.5, 1, 2, 5, 10]), rng.choice([1, 2, 5])
                M.bucket(case['prop'] + '/edge/E1_fill_to_capacity_next_to_a_protein')
                wl, exc = attempt(lambda: C('well', f'{cap_ul} uL', [(igg_, f'{ug} ug'), (water, f'{buf} uL')]))
                if exc is not None:
                    continue
                res, exc = attempt(lambda: wl.fill_to(water, f'{cap_ul} uL'))
                if exc is not None:
                    viol(['C03', 'C11'], f'C03:fill_to_capacity_refused:next_to_a_protein:{type(exc).__name__}', {'well_uL': cap_ul, 'IgG_ug': ug, 'buffer_uL': buf, 'exc': repr(exc)[:120]})
                elif abs(res.get_volume('uL') - cap_ul) > 1e-6:
                    viol(['C11', 'C10'], 'C11:fill_total_ne_target:next_to_a_protein', {'well_uL': cap_ul, 'got_uL': res.get_volume('uL')})
        elif fam == 1:
            # ---- E2
            brine = C('b', '1 L', [(water, '100 mL'), (salt, '5 g')])
            mix = C('m', '1 L', [(water, '10 mL'), (eth, '10 mL')])
            for cont, sol, target in ((brine, salt, '100 %w/w'), (mix, eth, '100 %v/v'), (mix, eth, '1 mol/mol'), (brine, salt, '58.4428 g/mol'),
                                      (mix, eth, '0.789 g/mL'), (brine, salt, '100.0 %w/w')):
                M.bucket(case['prop'] + '/edge/E2_concentration_of_the_pure_solute')
                res, exc = attempt(lambda: cont.dilute(sol, target, water))
                if exc is None or not isinstance(exc, ValueError):
                    viol(['C03', 'C11'], 'C03:unreachable_concentration:dilute:' + ('accepted' if exc is None else type(exc).__name__),
                         {'target': target, 'solute': sol.name, 'exc': repr(exc)[:160]})
                r = pp.Recipe().uses(cont)
                _, exc = attempt(lambda: (r.dilute(cont, sol, target, water), r.bake()))
                if exc is None or not isinstance(exc, ValueError):
                    viol(['C03', 'C11', 'C08'], 'C03:unreachable_concentration:Recipe.dilute:' + ('accepted' if exc is None else type(exc).__name__),
                         {'target': target, 'solute': sol.name, 'exc': repr(exc)[:160]})
                r = pp.Recipe().uses(cont)
                _, exc = attempt(lambda: (r.create_solution_from(cont, sol, target, water, '1 mL'), r.bake()))
                if exc is None or not isinstance(exc, ValueError):
                    viol(['C03', 'C12', 'C08'], 'C03:unreachable_concentration:Recipe.create_solution_from:' + ('accepted' if exc is None else type(exc).__name__),
                         {'target': target, 'solute': sol.name, 'exc': repr(exc)[:160]})
                M.note_nontrivial(case['prop'], ('E2', target))
        elif fam == 2:
            # ---- E3 (the SOLN monitor judges an accepted call: every stated value, in the solution as a whole)
            M.bucket(case['prop'] + '/edge/E3_solute_in_its_own_solvent')
            for sol, target in ((dmso, '10 %v/v'), (water, '0.5 mol/mol'), (eth, '20 %w/w')):
                res, exc = attempt(lambda: C.create_solution(sol, sol, concentration=target, total_quantity='10 mL'))
                if exc is None:
                    got = R.concentration(res.contents, sol, *R.parse_concentration(target)[1:])
                    viol(['C05', 'C03'], 'C05:solute_as_its_own_solvent_accepted', {'solute': sol.name, 'stated': target, 'got_in_base_units': got})
                elif not isinstance(exc, ValueError):
                    viol(['C05', 'C03'], f'C05:refusal_not_ValueError:solute_as_its_own_solvent:{type(exc).__name__}', {'exc': repr(exc)[:160]})
            conc0 = rng.choice(['1 M', '0.5 M', '2 M'])
            brine = C.create_solution(salt, water, concentration=conc0, total_quantity='100 mL')
            for kw in ({'concentration': rng.choice(['2 M', '0.5 M', '1.5 M', '3 M']), 'total_quantity': '10 mL'},
                       {'quantity': '1 g', 'total_quantity': '10 mL'}, {'concentration': '1 M', 'quantity': '0.5 g'}):
                M.bucket(case['prop'] + '/edge/E3_solute_already_in_the_solvent_container')
                res, exc = attempt(lambda: C.create_solution(salt, brine, **kw))
                if exc is not None and not isinstance(exc, ValueError):
                    viol(['C05', 'C03'], f'C05:refusal_not_ValueError:solute_in_solvent_container:{type(exc).__name__}', {'kwargs': kw, 'exc': repr(exc)[:160]})
                if exc is None:
                    _, new = res
                    problems = []
                    if 'concentration' in kw:
                        cv, num, den = R.parse_concentration(kw['concentration'])
                        got = R.concentration(new.contents, salt, num, den)
                        if abs(got - cv) > 1e-4 * cv:
                            problems.append(('concentration', kw['concentration'], got))
                    if 'quantity' in kw:
                        qv, qb = R.parse_quantity(kw['quantity'])
                        got = R.canon(salt, new.contents.get(salt, 0.0)) * R.per(salt, qb)
                        if abs(got - qv) > 1e-4 * qv:
                            problems.append(('quantity', kw['quantity'], got))
                    if 'total_quantity' in kw:
                        tv, tb = R.parse_quantity(kw['total_quantity'])
                        got = R.measure(new.contents, tb)
                        if abs(got - tv) > 1e-4 * tv:
                            problems.append(('total', kw['total_quantity'], got))
                    if problems:
                        viol(['C05', 'C03'], 'C05:stated_value_not_met:solvent_container_already_holds_the_solute:' + problems[0][0],
                             {'solvent_container': conc0 + ' NaCl in water', 'kwargs': kw, 'problems': problems})
                M.note_nontrivial(case['prop'], ('E3', conc0, repr(kw)))
        elif fam == 3:
            # ---- E4
            for sub, q in ((water, '-0.00004 uL'), (water, '-0.00004 umol'), (salt, '-0.04 ng'), (salt, '-0.00003 umol'), (dmso, '-0.05 nL'),
                           (water, '-40 pL'), (salt, '-30 pmol')):
                M.bucket(case['prop'] + '/edge/E4_tiny_negative_amount')
                res, exc = attempt(lambda: C('v', '1 mL', [(sub, q)]))
                if exc is None:
                    viol(['C03'], 'C03:negative_quantity_accepted:tiny_in_base_units', {'quantity': q, 'stored': {s_.name: a_ for s_, a_ in res.contents.items()},
                                                                                        'volume': res.volume})
                r = pp.Recipe()
                _, exc = attempt(lambda: (r.create_container('v', '1 mL', [(sub, q)]), r.bake()))
                if exc is None:
                    viol(['C03', 'C08'], 'C03:negative_quantity_accepted:tiny_in_base_units:Recipe.create_container', {'quantity': q})
                M.note_nontrivial(case['prop'], ('E4', q))
        elif fam == 4:
            # ---- E5
            for label, fn in (('initial_contents', lambda: C('a', initial_contents=[(water, 'inf mL')])),
                              ('fill_to', lambda: C('a', initial_contents=[(water, '1 mL')]).fill_to(water, 'inf mL')),
                              ('fill_to_mass', lambda: C('a', initial_contents=[(water, '1 mL')]).fill_to(salt, 'inf g')),
                              ('total_quantity', lambda: C.create_solution(salt, water, concentration='1 M', total_quantity='inf L')),
                              ('solute_quantity', lambda: C.create_solution(salt, water, concentration='1 M', quantity='inf g')),
                              ('create_solution_from', lambda: C.create_solution_from(C('s', initial_contents=[(water, '1 L'), (salt, '1 mol')]), salt, '0.1 M', water, 'inf mL'))):
                M.bucket(case['prop'] + '/edge/E5_infinite_amount')
                res, exc = attempt(fn)
                if exc is None:
                    viol(['C03', 'C05', 'C11'], f'C03:infinite_amount_accepted:{label}', {'result': repr(res)[:160]})
                elif not isinstance(exc, ValueError):
                    viol(['C03'], f'C03:refusal_not_ValueError:infinite_amount:{label}:{type(exc).__name__}', {'exc': repr(exc)[:160]})
                M.note_nontrivial(case['prop'], ('E5', label))
        elif fam == 5:
            # ---- E6
            conc = rng.choice(['1 M', '0.25 M', '2 %w/w', '10 g/L'])
            other = rng.choice([dmso, eth])
            stock = C.create_solution(salt, water, 'stock', concentration=conc, total_quantity='10 mL')
            M.bucket(case['prop'] + '/edge/E6_recipe_dilute_that_needs_no_solvent')
            eager, exc_e = attempt(lambda: stock.dilute(salt, conc, other))
            r = pp.Recipe().uses(stock)
            baked, exc_b = attempt(lambda: (r.dilute(stock, salt, conc, other), r.bake())[1])
            if (exc_e is None) != (exc_b is None):
                viol(['C08', 'C03', 'C11', 'C15', 'C19'], 'C08:bake_and_eager_disagree:dilute_that_needs_no_solvent:' + type(exc_b or exc_e).__name__,
                     {'eager': repr(exc_e)[:120], 'bake': repr(exc_b)[:120], 'concentration': conc, 'solvent': other.name})
            elif exc_e is None and baked['stock'].contents != eager.contents:
                viol(['C08'], 'C08:bake_result_ne_eager:dilute_that_needs_no_solvent', {'concentration': conc})
            M.note_nontrivial(case['prop'], ('E6', conc, other.name))
        elif fam == 6:
            # ---- E7
            for k_ in range(6):
                v = f'{rng.uniform(0.05, 5):.4f} mL'
                c = C('c', '10 mL', [(water, v)])
                M.bucket(case['prop'] + '/edge/E7_recipe_fill_exactly_to_capacity')
                eager, exc_e = attempt(lambda: c.fill_to(tween, '10 mL'))
                r = pp.Recipe().uses(c)
                baked, exc_b = attempt(lambda: (r.fill_to(c, tween, '10 mL'), r.bake())[1])
                if (exc_e is None) != (exc_b is None):
                    viol(['C08', 'C03'], 'C08:bake_and_eager_disagree:fill_exactly_to_capacity:' + type(exc_b or exc_e).__name__,
                         {'eager': repr(exc_e)[:120], 'bake': repr(exc_b)[:120], 'held': v})
                elif exc_e is None and (baked['c'].contents != eager.contents or baked['c'].instructions != eager.instructions):
                    viol(['C08', 'C19'], 'C08:bake_result_ne_eager:fill_to:' + ('contents' if baked['c'].contents != eager.contents else 'instructions'),
                         {'held': v, 'eager_instructions': eager.instructions[-120:], 'baked_instructions': baked['c'].instructions[-120:]})
                M.note_nontrivial(case['prop'], ('E7', v))
        elif fam == 7:
            # ---- E8
            act = rng.choice([5, 10, 20, 50])
            lip = S.enzyme('lipase', f'{act} U/mg')
            units = rng.choice([0.3, 1.5, 6.0])
            c = C('flask', '1 L', [(water, '9.7 mL'), (lip, f'{units} U')])
            tgt_u = units / 9.7 / rng.choice([2, 5, 10])                  # U/mL (the enzyme's own volume is part of the total)
            spellings = [f'{tgt_u:.6g} U/mL', f'{tgt_u / act:.6g} mg/mL', f'{tgt_u / act * 1000:.6g} mg/L', f'{tgt_u / act / 10:.6g} %w/v']
            outs = []
            M.bucket(case['prop'] + '/edge/E8_enzyme_dilution_spelt_by_activity_mass_or_percent')
            for sp in spellings:
                res, exc = attempt(lambda: c.dilute(lip, sp, water))
                outs.append((sp, exc if exc is not None else res.contents.get(water)))
            vals = [o for _, o in outs if not isinstance(o, Exception)]
            if len(vals) != len(outs) or any(abs(v_ - vals[0]) > 2e-5 * abs(vals[0]) for v_ in vals):
                viol(['C11', 'C14'], 'C14:same_enzyme_concentration_spelt_differently_dilutes_differently',
                     {'calls': [(sp, repr(o)[:100]) for sp, o in outs], 'specific_activity': f'{act} U/mg'})
            M.note_nontrivial(case['prop'], ('E8', act, units))
        elif fam == 8:
            # ---- E9
            ref = 0
            tried = []
            for conc in rng.sample(['30 mM', '0.05 M', '0.1 M', '0.2 M', '0.4 M', '1.5 M', '3 M', '0.1 m', '1 m', '5 %w/w', '10 g/L', '0.25 M', '2 M', '0.7 M', '0.9 M'], 6):
                sub = rng.choice([salt, kcl])
                st = C.create_solution(sub, water, concentration=conc, total_quantity='100 mL')
                M.bucket(case['prop'] + '/edge/E9_solution_from_at_the_stocks_own_concentration')
                M.expect = {'op': 'Container.create_solution_from', 'must': 'accept', 'tag': 'own_concentration'}
                res, exc = attempt(lambda: C.create_solution_from(st, sub, conc, water, '10 mL'))
                M.expect = None
                tried.append((conc, sub.name, repr(exc)[:80] if exc is not None else 'ok'))
                M.note_nontrivial(case['prop'], ('E9', conc, sub.name))
        elif fam == 9:
            # ---- E10
            act = rng.choice([5, 10, 40])
            lip = S.enzyme('lipase', f'{act} U/mg')
            st = C('st', '1 L', [(water, '10 mL'), (lip, '5 U')])
            own = 5 / (10 + 5 / 1000 * R.per(lip, 'L') * 0)          # (about 0.5 U/mL; the exact value is the monitor's business)
            for target, must in ((f'{rng.choice([0.1, 0.05, 0.25])} U/mL', 'accept'), (f'{rng.choice([1, 2, 5]) / act / 100:.6g} mg/mL', 'accept'),
                                 ('1 uM', 'refuse'), ('0.5 mmol/L', 'refuse')):
                M.bucket(case['prop'] + '/edge/E10_solution_from_with_an_enzyme_solute/' + must)
                M.expect = {'op': 'Container.create_solution_from', 'must': must, 'tag': 'enzyme_solute'}
                res, exc = attempt(lambda: C.create_solution_from(st, lip, target, water, '10 mL'))
                M.expect = None
                if must == 'refuse' and exc is not None and not isinstance(exc, ValueError):
                    viol(['C12', 'C03'], f'C12:refusal_not_ValueError:enzyme_solute_in_moles:{type(exc).__name__}', {'target': target, 'exc': repr(exc)[:120]})
                M.note_nontrivial(case['prop'], ('E10', target, act))
        elif fam == 10:
            # ---- E11
            a1, a2 = rng.sample([5, 10, 20, 40, 100], 2)
            la, lb = S.enzyme('lipase', f'{a1} U/mg'), S.enzyme('lipase', f'{a2} U/mg')
            M.bucket(case['prop'] + '/edge/E11_two_lots_of_one_enzyme')
            both, exc = attempt(lambda: C('c', initial_contents=[(la, '1 mg'), (lb, '1 mg')]))
            if exc is None:
                mass = R.measure(both.contents, 'g') * 1000
                if abs(mass - 2.0) > 1e-6:
                    viol(['C06', 'C02', 'C10'], 'C06:two_lots_of_one_enzyme_share_one_entry', {'activities_U_per_mg': [a1, a2], 'mass_reported_mg': mass, 'expected_mg': 2.0,
                                                                                              'contents': [(s_.name, a_) for s_, a_ in both.contents.items()]})
            ca, cb = C('a', initial_contents=[(la, '10 mg')]), C('b', initial_contents=[(lb, '10 mg')])
            res, exc = attempt(lambda: C.transfer(ca, cb, '4 mg'))
            if exc is None:
                gained = R.measure(res[1].contents, 'g') * 1000 - 10.0
                if abs(gained - 4.0) > 1e-6:
                    viol(['C06', 'C02', 'C01'], 'C02:transfer_between_two_lots_of_one_enzyme_moves_another_mass', {'activities_U_per_mg': [a1, a2], 'requested_mg': 4.0, 'gained_mg': gained})
            M.note_nontrivial(case['prop'], ('E11', a1, a2))

        elif fam == 11:
            # ---- E12
            stock = C.create_solution(salt, water, concentration='1 M', total_quantity='100 mL')
            for target, q, must in (('1 pM', '10 mL', 'accept'), ('1 nM', '10 mL', 'accept'), ('0.1 pM', '100 mL', 'accept'), ('0.5 M', '0.15 pL', 'accept'),
                                    ('0.5 M', rng.choice(['1 pL', '20 pL', '3 nL']), 'accept'), ('1.05 M', '1 pL', 'refuse'), ('1.5 M', '0.1 pL', 'refuse')):
                M.bucket(case['prop'] + '/edge/E12_extreme_dilution_or_tiny_total/' + must)
                M.expect = {'op': 'Container.create_solution_from', 'must': must, 'tag': 'extreme_dilution'}
                res, exc = attempt(lambda: C.create_solution_from(stock, salt, target, water, q))
                M.expect = None
                if exc is None and must == 'accept':
                    new = res[1]
                    cv = R.parse_concentration(target)[0]
                    want = cv * R.parse_quantity(q)[0] / cf.mol_prefix            # storage units of NaCl
                    got = new.contents.get(salt, 0.0)
                    if abs(got - want) > max(2 * cf.q, 1e-6 * want):
                        viol(['C12', 'C03'], 'C12:solute_amount_not_delivered:extreme_dilution_or_tiny_total',
                             {'target': target, 'quantity': q, 'delivered_storage_units': got, 'expected': want})
                M.note_nontrivial(case['prop'], ('E12', target, q))
        elif fam == 12:
            # ---- E13
            amy = S.enzyme('amylase', f'{rng.choice([5, 10, 25])} U/mg')
            lip = S.enzyme('lipase', '40 U/mg')
            prep = C('prep', initial_contents=[(amy, '1000 U')] + ([(lip, '10 U')] if rng.random() < 0.5 else []))
            M.bucket(case['prop'] + '/edge/E13_enzyme_only_source')
            M.expect = {'op': 'Container.create_solution_from', 'must': 'accept', 'tag': 'enzyme_only_source'}
            res, exc = attempt(lambda: C.create_solution_from(prep, amy, '0.5 U/mL', water, '10 mL'))
            M.expect = None
            brine = C.create_solution(salt, water, name='brine', concentration='1 M', total_quantity='10 mL')
            r1, r2 = pp.Recipe().uses(brine), pp.Recipe().uses(brine)
            for label, fn in (('create_solution_from', lambda: C.create_solution_from(brine, salt, '0.5 M', amy, '5 mL')), ('dilute', lambda: brine.dilute(salt, '0.5 M', amy)),
                              ('Recipe.dilute', lambda: (r1.dilute(brine, salt, '0.5 M', amy), r1.bake())),
                              ('Recipe.create_solution_from', lambda: (r2.create_solution_from(brine, salt, '0.5 M', amy, '5 mL'), r2.bake()))):
                M.bucket(case['prop'] + '/edge/E13_enzyme_as_the_diluent')
                res, exc = attempt(fn)
                if exc is not None and not isinstance(exc, ValueError):
                    viol(['C03', 'C11', 'C12'], f'C03:refusal_not_ValueError:enzyme_as_the_diluent:{label}:{type(exc).__name__}', {'exc': repr(exc)[:160]})
                elif exc is None and label in ('create_solution_from', 'dilute'):
                    new = res[1] if isinstance(res, tuple) else res
                    got = R.concentration(new.contents, salt, 'mol', 'L')
                    if abs(got - 0.5) > 1e-4:
                        viol(['C11', 'C12', 'C03'], f'C12:enzyme_as_the_diluent_accepted_with_a_wrong_result:{label}', {'stated': '0.5 M', 'got_M': got})
            M.note_nontrivial(case['prop'], ('E13', amy.specific_activity))
        elif fam == 13:
            # ---- E14
            suc = S.solid('sucrose', 342.3)
            M.bucket(case['prop'] + '/edge/E14_solute_listed_twice')
            for kw in ({'concentration': '1 M', 'total_quantity': '1 L'}, {'quantity': ['1 g', '2 g'], 'total_quantity': '1 L'}):
                for pair in ([salt, salt], [salt, S.solid('NaCl', 58.4428)]):
                    res, exc = attempt(lambda: C.create_solution(pair, water, **kw))
                    if exc is None:
                        got_m = R.concentration(res.contents, salt, 'mol', 'L')
                        got_g = R.canon(salt, res.contents.get(salt, 0.0)) * R.per(salt, 'g')
                        if ('concentration' in kw and abs(got_m - 1.0) > 1e-4) or ('quantity' in kw and min(abs(got_g - 1.0), abs(got_g - 2.0)) > 1e-4):
                            viol(['C05', 'C03'], 'C05:stated_value_not_met:solute_listed_twice', {'kwargs': kw, 'got_M': got_m, 'got_g': got_g})
                    elif not isinstance(exc, ValueError):
                        viol(['C05', 'C03'], f'C05:refusal_not_ValueError:solute_listed_twice:{type(exc).__name__}', {'exc': repr(exc)[:120]})
            M.bucket(case['prop'] + '/edge/E14_any_iterable')
            base = C.create_solution([salt, suc], water, concentration=['1 M', '0.5 M'], total_quantity='10 mL')
            for label, fn in (('tuple_of_solutes', lambda: C.create_solution((salt, suc), water, concentration=['1 M', '0.5 M'], total_quantity='10 mL')),
                              ('iterator_of_concentrations', lambda: C.create_solution([salt, suc], water, concentration=iter(['1 M', '0.5 M']), total_quantity='10 mL')),
                              ('generator_of_solutes', lambda: C.create_solution((x_ for x_ in (salt, suc)), water, concentration=('1 M', '0.5 M'), total_quantity='10 mL'))):
                res, exc = attempt(fn)
                if exc is not None or res.contents != base.contents:
                    viol(['C05', 'C04'], f'C05:iterable_argument_not_taken_like_a_list:{label}', {'exc': repr(exc)[:120], 'contents': None if exc else [(s_.name, a_) for s_, a_ in res.contents.items()]})
            r = pp.Recipe()
            res, exc = attempt(lambda: (r.create_solution((salt, suc), water, name='t', concentration=iter(['1 M', '0.5 M']), total_quantity='10 mL'), r.bake())[1])
            if exc is not None or res['t'].contents != base.contents:
                viol(['C05', 'C08', 'C04'], 'C08:recipe_create_solution_with_iterables_ne_eager', {'exc': repr(exc)[:120]})
            M.bucket(case['prop'] + '/edge/E14_total_in_U_with_an_enzyme_in_the_solvent_container')
            amy, lip = S.enzyme('amylase', '10 U/mg'), S.enzyme('lipase', '5 U/mg')
            buf = C('buffer', initial_contents=[(water, '100 mL'), (lip, '10 U')])
            res, exc = attempt(lambda: C.create_solution(amy, buf, concentration='0.1 U/mL', total_quantity='5 U'))
            if exc is None:
                tot = sum(a_ for s_, a_ in res[1].contents.items() if s_.is_enzyme())
                if abs(tot - 5.0) > 1e-6:
                    viol(['C05', 'C03'], 'C05:stated_value_not_met:total_in_U_with_an_enzyme_in_the_solvent_container', {'stated_total_U': 5.0, 'got_U': tot})
            elif not isinstance(exc, ValueError):
                viol(['C05', 'C03'], f'C05:refusal_not_ValueError:total_in_U:{type(exc).__name__}', {'exc': repr(exc)[:120]})
            M.bucket(case['prop'] + '/edge/E14_trace_quantity_in_a_huge_total')
            for q, tot in (('1 pmol', '1000 kg'), ('1 pmol', '10 kg'), ('3 pmol', '100 kg'), ('20 pmol', '50 kg')):
                res, exc = attempt(lambda: C.create_solution(rng.choice([salt, suc]), water, quantity=q, total_quantity=tot))
                if exc is None:
                    sol_ = [s_ for s_ in res.contents if s_ != water][0]
                    got = res.contents[sol_]
                    want = R.parse_quantity(q)[0] / cf.mol_prefix
                    if abs(got - want) > 2 * cf.q:
                        viol(['C05', 'C03'], 'C05:stated_quantity_not_met:trace_in_a_huge_total', {'quantity': q, 'total': tot, 'stored': got, 'expected_storage_units': want})
                else:
                    viol(['C05', 'C03'], f'C05:feasible_request_refused:trace_in_a_huge_total:{type(exc).__name__}', {'quantity': q, 'total': tot, 'exc': repr(exc)[:120]})
            M.note_nontrivial(case['prop'], ('E14', idx))
        elif fam == 14:
            # ---- E15
            n = rng.choice([100, 514.3, 7, 250, 0.5, 33, 8, 40, 125])
            forms = [f'{n} U/mg', f'{n * 1000:.10g} U/g', f'{n / 1000:.10g} U/ug', f'{n} kU/g']
            if n in (100, 250, 0.5, 8, 40, 125):
                # (the reciprocal spellings, where a few digits carry the reciprocal exactly)
                forms += [f'{1000 / n:.12g} ug/U', f'{1 / n:.12g} mg/U']
            M.bucket(case['prop'] + '/edge/E15_one_specific_activity_in_several_spellings')
            made = [(f_, attempt(lambda: S.enzyme('lipase', f_))) for f_ in forms]
            subs_ = [(f_, r_) for f_, (r_, e_) in made if e_ is None]
            if len(subs_) != len(forms):
                viol(['C14', 'C06'], 'C14:wellformed_specific_activity_refused', {'forms': [(f_, repr(e_)[:80]) for f_, (r_, e_) in made if e_ is not None]})
            ref = subs_[0][1]
            vial = C('vial', initial_contents=[(water, '10 mL'), (ref, '10 U')])
            for f_, s_ in subs_[1:]:
                reads = vial.get_concentration(s_, 'U/mL')
                if not (s_ == ref and hash(s_) == hash(ref)) or abs(reads - vial.get_concentration(ref, 'U/mL')) > 1e-9:
                    viol(['C14', 'C06', 'C10'], 'C14:one_specific_activity_spelt_differently_is_another_substance',
                         {'spellings': [forms[0], f_], 'values': [ref.specific_activity, s_.specific_activity], 'equal': s_ == ref, 'vial_reads_U_per_mL': reads})
                    break
            M.bucket(case['prop'] + '/edge/E15_malformed_unit_in_convert_to_storage')
            for u in ('mg', 'kg', 'U', 'kU', 'mM', 'l', 'xyz', 'g', 'mo', 'ml'):
                res, exc = attempt(lambda: pp.Unit.convert_to_storage(1, u))
                if exc is None:
                    viol(['C14', 'C06'], 'C14:convert_to_storage_reads_a_unit_that_is_neither_volume_nor_moles', {'unit': u, 'returned': res})
                    break
            M.bucket(case['prop'] + '/edge/E15_concentration_over_an_infinite_amount')
            st = C('st', initial_contents=[(water, '1 L'), (salt, '1 mol')])
            for label, fn in (('parse_concentration', lambda: pp.Unit.parse_concentration('1 mol/inf L')), ('parse_concentration_1e400', lambda: pp.Unit.parse_concentration('1 mol/1e400 L')),
                              ('Substance.enzyme', lambda: S.enzyme('ghost', '1 U/inf g')), ('create_solution_from', lambda: C.create_solution_from(st, salt, '1 mol/inf L', water, '10 mL')),
                              ('dilute', lambda: st.dilute(salt, '1 mol/inf L', water))):
                res, exc = attempt(fn)
                if exc is None:
                    viol(['C14', 'C03'], f'C14:malformed_concentration_accepted:{label}:infinite_denominator', {'returned': repr(res)[:100]})
            M.note_nontrivial(case['prop'], ('E15', n))
        elif fam == 15:
            # ---- E16
            cdu = cf.concentration_display_unit() if callable(getattr(cf, 'concentration_display_unit', None)) else getattr(cf, 'concentration_display_unit', 'M')
            nm = rng.choice([0.25, 0.04, 1.04, 7.5, 120])
            sol = C.create_solution(salt, water, concentration=f'{nm} nM', total_quantity='10 mL')
            M.bucket(case['prop'] + '/edge/E16_default_unit_and_scale_of_get_concentration')
            res, exc = attempt(lambda: (sol.get_concentration(salt), sol.get_concentration(salt, cdu), sol.get_concentration(salt, 'M'), sol.get_concentration(salt, 'nM')))
            if exc is not None:
                viol(['C10'], f'C10:get_concentration_raised:{type(exc).__name__}', {'exc': repr(exc)[:120]})
            else:
                dflt, in_cdu, in_m, in_nm = res
                if abs(dflt - in_cdu) > 1e-9 * abs(in_cdu):
                    viol(['C10', 'C18'], 'C10:get_concentration_default_unit_is_not_the_configured_one', {'configured': cdu, 'default_answer': dflt, 'answer_in_configured_unit': in_cdu})
                if abs(in_m * 1e9 - in_nm) > 2e-9 * abs(in_nm) or abs(in_nm - nm) > 1e-6 * nm:
                    viol(['C10', 'C14'], 'C10:concentration_reported_differently_in_M_and_in_nM', {'made_as_nM': nm, 'in_M': in_m, 'in_nM': in_nm})
            M.bucket(case['prop'] + '/edge/E16_two_lots_in_the_table')
            a1, a2 = rng.sample([5, 10, 20, 40], 2)
            la, lb = S.enzyme('amylase', f'{a1} U/mg'), S.enzyme('amylase', f'{a2} U/mg')
            ua, ub = rng.choice([3, 5, 8]), rng.choice([2, 7])
            mix = C('mix', '100 mL', [(water, '10 mL'), (la, f'{ua} U'), (lb, f'{ub} U')])
            df, exc = attempt(lambda: mix.dataframe())
            if exc is None:
                from pv.instr import tokens
                rows_u = []
                for lab in df.index:
                    if str(lab).startswith('amylase'):
                        t_ = tokens(str(df.loc[lab, 'U']) + ' ')
                        rows_u.append(t_[0][0] * R.PREFIX[t_[0][1]] if t_ else None)
                if sorted(x_ for x_ in rows_u if x_ is not None) != sorted([float(ua), float(ub)]):
                    viol(['C10', 'C19', 'C06'], 'C19:container_table_does_not_list_both_lots_of_an_enzyme', {'held_U': [ua, ub], 'rows_U': rows_u, 'index': [str(i_) for i_ in df.index]})
            M.note_nontrivial(case['prop'], ('E16', nm, a1, a2))
        elif fam == 16:
            # ---- E17
            dye = S.solid('dye', 350.0)
            rows_, cols_ = rng.choice([(16, 24), (8, 12), (32, 48)])
            nM = rng.choice([10, 50, 20])
            stock = C.create_solution(dye, water, concentration=f'{nM} nM', total_quantity='100 mL')
            plate = pp.Plate('plate', '100 uL', rows=rows_, columns=cols_)
            waste = C('waste')
            r = pp.Recipe().uses(stock, plate, waste)
            r.transfer(stock, plate, '10 uL')
            r.start_stage('sampling')
            r.transfer(plate['A:1'], waste, '5 uL')
            r.end_stage('sampling')
            r.bake()
            M.bucket(case['prop'] + '/edge/E17_real_decrease_on_a_large_plate')
            lost = nM * 1e-9 * 5e-6 / cf.mol_prefix           # storage units
            if lost > 100 * cf.q:
                res, exc = attempt(lambda: r.get_substance_used(dye, 'sampling', 'pmol', destinations=[plate]))
                if exc is None or not isinstance(exc, ValueError):
                    viol(['C09'], 'C09:net_decrease_not_refused_with_ValueError:large_plate', {'plate': [rows_, cols_], 'lost_storage_units': lost, 'answer': res, 'exc': repr(exc)[:100]})
            res, exc = attempt(lambda: r.get_substance_used(dye, 'sampling', 'pmol', destinations=[plate, waste]))
            if exc is not None or abs(res) > 1e-3:
                viol(['C09'], 'C09:closed_system_not_zero:large_plate', {'answer': res, 'exc': repr(exc)[:100]})
            M.note_nontrivial(case['prop'], ('E17', rows_, cols_, nM))
        elif fam == 17:
            # ---- E18
            suc, kcl2 = S.solid('glucose', 180.16), kcl
            M.bucket(case['prop'] + '/edge/E18_steps_keep_what_they_were_declared_with')
            r = pp.Recipe()
            solutes, concs, eager = [], [], {}
            for s_, c_ in ((salt, '10 mM'), (kcl2, '20 mM'), (suc, '5 mM')):
                solutes.append(s_)
                concs.append(c_)
                nme = f'mix{len(solutes)}'
                r.create_solution(solutes, water, nme, concentration=concs, total_quantity='10 mL')
                eager[nme] = C.create_solution(list(solutes), water, nme, concentration=list(concs), total_quantity='10 mL')
            lst = []
            r.create_container('blank', '10 mL', lst)
            lst.append((water, '1 mL'))
            res, exc = attempt(lambda: r.bake())
            if exc is not None:
                viol(['C08'], f'C08:bake_raised:{type(exc).__name__}', {'exc': repr(exc)[:120]})
            else:
                for nme, e_ in eager.items():
                    if res[nme].contents != e_.contents:
                        viol(['C08', 'C04'], 'C08:step_carried_out_with_what_the_callers_list_held_at_bake', {'step': nme, 'declared_with': [s_.name for s_ in e_.contents], 'baked_with': [s_.name for s_ in res[nme].contents]})
                        break
                if res['blank'].contents:
                    viol(['C08', 'C04'], 'C08:step_carried_out_with_what_the_callers_list_held_at_bake:create_container_empty_list', {'baked_with': [s_.name for s_ in res['blank'].contents]})
            M.bucket(case['prop'] + '/edge/E18_enzyme_diluted_by_a_recipe')
            amy = S.enzyme('amylase', '10 U/mg')
            c = C('c', '1 L', [(water, '99 mL'), (amy, '100 U')])
            e_, exc_e = attempt(lambda: c.dilute(amy, '0.25 U/mL', water))
            r = pp.Recipe().uses(c)
            b_, exc_b = attempt(lambda: (r.dilute(c, amy, '0.25 U/mL', water), r.bake())[1])
            if (exc_e is None) != (exc_b is None) or (exc_e is None and b_['c'].contents != e_.contents):
                viol(['C08', 'C11'], 'C08:bake_and_eager_disagree:enzyme_dilution', {'eager': repr(exc_e)[:100], 'bake': repr(exc_b)[:100]})
            M.bucket(case['prop'] + '/edge/E18_no_op_dilute_with_a_new_name')
            st = C.create_solution(salt, water, 'stock', concentration='1 M', total_quantity='10 mL')
            e_, exc_e = attempt(lambda: st.dilute(salt, '1 M', water, 'working'))
            r = pp.Recipe().uses(st)
            b_, exc_b = attempt(lambda: (r.dilute(st, salt, '1 M', water, 'working'), r.bake())[1])
            if exc_e is None and exc_b is None and e_.name != b_['stock'].name:
                viol(['C08', 'C11'], 'C08:bake_and_eager_disagree:name_of_a_no_op_dilute', {'eager_name': e_.name, 'baked_name': b_['stock'].name})
            M.note_nontrivial(case['prop'], ('E18', idx))
        elif fam == 18:
            # ---- E19
            M.bucket(case['prop'] + '/edge/E19_what_a_call_returns_is_the_callers_own')
            stock = C('stock', '10 mL', [(water, '5 mL'), (salt, '1 g')])
            before = repr(stock)
            df, exc = attempt(lambda: stock.dataframe())
            if exc is None:
                df['note'] = 'checked'
                df.drop(index='NaCl', inplace=True)
                again = C('stock', '10 mL', [(water, '5 mL'), (salt, '1 g')])
                if repr(stock) != before or repr(again) != before or 'NaCl' not in stock.dataframe().index:
                    viol(['C04', 'C10', 'C19'], 'C04:editing_the_returned_table_changes_what_the_container_reports', {'index_now': [str(i_) for i_ in stock.dataframe().index]})
            plate = pp.Plate('p', '100 uL', rows=2, columns=2)
            src = C('src', initial_contents=[(water, '10 mL')])
            r = pp.Recipe().uses(plate, src)
            r.transfer(src, plate, '10 uL')
            res, exc = attempt(lambda: r.bake())
            if exc is None:
                a1 = r.get_substance_used(water, unit='uL')
                popped = res.pop('p')
                a2 = r.get_substance_used(water, unit='uL')
                res['p'] = popped
                if a1 != a2:
                    viol(['C04', 'C09', 'C16'], 'C04:editing_the_returned_dict_of_results_changes_the_answers_of_the_baked_recipe', {'before': a1, 'after_pop': a2})
            st = C.create_solution(salt, water, concentration='1 M', total_quantity='100 mL')
            dil = C('diluent', initial_contents=[(water, '50 mL')])
            res, exc = attempt(lambda: C.create_solution_from(st, salt, '1 M', dil, '10 mL'))
            if exc is None and (res[0] is st or res[1] is dil):
                viol(['C04'], 'C04:returned_object_is_the_argument_itself:create_solution_from', {'source': res[0] is st, 'solvent_container': res[1] is dil})
            M.note_nontrivial(case['prop'], ('E19', idx))
        elif fam == 19:
            # ---- E20
            M.bucket(case['prop'] + '/edge/E20_requests_that_need_nothing')
            mw = rng.choice([150000, 66000, 507.18, 58.44])
            big = S.solid('IgG', mw)
            conc = rng.choice(['0.5 mg/mL', '50 ug/mL', '5 mg/mL', '1 mg/mL', '7 ug/mL', '3 ug/mL'])
            whole, part = rng.choice([('1.5 mL', '0.5 mL'), ('250 uL', '125 uL'), ('100 uL', '40 uL'), ('1.5 mL', '0.5 mL')])
            stock, exc = attempt(lambda: C.create_solution(big, water, concentration=conc, total_quantity=whole))
            if exc is None:
                plate = pp.Plate('p', '100 uL', rows=2, columns=2)
                res, exc = attempt(lambda: pp.Plate.transfer(stock, plate['A:1'], '20 uL'))
                if exc is None:
                    _, exc2 = attempt(lambda: res[1].fill_to(water, '20 uL'))
                    if exc2 is not None:
                        viol(['C18', 'C03', 'C11'], f'C03:top_up_to_the_volume_just_dispensed_refused:{type(exc2).__name__}', {'solute_molar_mass': mw, 'concentration': conc, 'exc': repr(exc2)[:120]})
                M.expect = {'op': 'Container.create_solution_from', 'must': 'accept', 'tag': 'the_concentration_it_was_made_with'}
                attempt(lambda: C.create_solution_from(stock, big, conc, water, part))
                M.expect = None
                _, exc3 = attempt(lambda: stock.dilute(big, conc, water))
                if exc3 is not None:
                    viol(['C18', 'C03', 'C11'], f'C11:dilute_to_the_concentration_it_was_made_with_refused:{type(exc3).__name__}', {'solute_molar_mass': mw, 'concentration': conc, 'exc': repr(exc3)[:120]})
            M.note_nontrivial(case['prop'], ('E20', mw, conc))
        elif fam == 20:
            # ---- E21
            M.bucket(case['prop'] + '/edge/E21_one_bottle_into_384_wells')
            for q in rng.sample(['3 uL', '1 uL', '7 uL', '2.5 uL', '10 uL', '0.3 uL', '12 uL', '0.7 uL', '5 uL', '30 uL'], 3):
                bottle = C('bottle', '2 L', [(water, rng.choice(['1 L', '0.5 L', '1.5 L'])), (salt, '5 g')])
                plate = pp.Plate('plate', '100 uL', rows=16, columns=24)
                r = pp.Recipe().uses(bottle, plate)
                r.transfer(bottle, plate, q)
                r.bake()
                for sub in (water, salt):
                    res, exc = attempt(lambda: r.get_substance_used(sub, destinations=[bottle, plate], unit='umol'))
                    if exc is not None or abs(res) > 1e-3:
                        viol(['C09', 'C18', 'C17'], 'C09:net_change_of_zero_refused_as_a_decrease:one_to_many', {'per_well': q, 'substance': sub.name, 'answer': res, 'exc': repr(exc)[:140]})
                        break
            M.note_nontrivial(case['prop'], ('E21', idx))
        elif fam == 21:
            # ---- E22
            oligo = S.solid('oligo', 6000.0)
            M.bucket(case['prop'] + '/edge/E22_dilution_factor_beyond_the_stored_digits')
            for stock_c, stock_v, target, total in (('10 uM', '5 uL', '19 pM', '10 mL'), ('10 uM', '5 uL', '7 pM', '10 mL'), ('10 mM', '50 uL', '1 pM', '10 mL'),
                                                    ('10 uM', '5 uL', '21 pM', '10 mL'), ('1 uM', '2 uL', '3 pM', '5 mL'), ('100 uM', '1 uL', '40 pM', '20 mL')):
                stock, exc = attempt(lambda: C.create_solution(oligo, water, concentration=stock_c, total_quantity=stock_v))
                if exc is not None:
                    continue
                res, exc = attempt(lambda: C.create_solution_from(stock, oligo, target, water, total))
                want = R.parse_concentration(target)[0] * R.parse_quantity(total)[0] / cf.mol_prefix         # storage units
                if want < 200 * cf.q:
                    continue
                if exc is not None:
                    viol(['C12', 'C03'], f'C12:feasible_extreme_dilution_refused:{type(exc).__name__}', {'stock': [stock_c, stock_v], 'target': target, 'total': total, 'exc': repr(exc)[:120]})
                    continue
                got = res[1].contents.get(oligo, 0.0)
                if abs(got - want) > 0.02 * want + 4 * cf.q:
                    viol(['C12', 'C03'], 'C12:extreme_dilution_does_not_hold_the_stated_concentration', {'stock': [stock_c, stock_v], 'target': target, 'total': total, 'solute_stored': got, 'expected_stored': want})
            M.bucket(case['prop'] + '/edge/E22_a_trillion_fold_dilution')
            molar = C.create_solution(salt, water, concentration='1 M', total_quantity='1 L')
            # (round 17: a portion of 1e-16 of the total, stated by mass or in moles - the solver returns it as 0.0 or just below)
            for target, tot in (('1 pM', '1 kL'), ('1 pM', '100 L'), ('10 pM', '1 kL'), ('0.001 nM', '1000 L'),
                                ('0.0001 pM', '1000 kg'), ('0.0001 pM', '12345 kg'), ('0.0001 pM', '1e6 kg'), ('0.0001 pM', '55 kmol'),
                                ('0.0001 pM', '1000 kmol'), ('0.0002 pM', '2000 kg'), ('0.0001 pM', '1 kL')):
                v_t, b_t = R.parse_quantity(tot)
                litres = v_t * {'L': 1.0, 'g': 1e-3, 'mol': 18.0153e-3}[b_t]
                if target.startswith('0.000') and R.parse_concentration(target)[0] * litres < 200 * cf.q * cf.vol_prefix:
                    continue        # (the stock portion - so many litres of 1 M - is below what the volume storage unit resolves)
                res, exc = attempt(lambda: C.create_solution_from(molar, salt, target, water, tot))
                want_stored = R.parse_concentration(target)[0] * (R.parse_quantity(tot)[0] if tot.endswith('L') else 0.0) / cf.mol_prefix
                if exc is not None and (not isinstance(exc, ValueError) or not tot.endswith('L') or want_stored >= 200 * cf.q):
                    if isinstance(exc, ValueError) and not tot.endswith('L') and cf.q * cf.mol_prefix > 1e-15:
                        continue        # (coarser mole storage: the solute may be below what is stored)
                    viol(['C12', 'C03'], f'C12:feasible_extreme_dilution_refused:trillion_fold:{type(exc).__name__}', {'target': target, 'total': tot, 'exc': repr(exc)[:120]})
                if exc is None:
                    got = R.concentration(res[1].contents, salt, 'mol', 'L')
                    want = R.parse_concentration(target)[0]
                    stored_res = cf.q * cf.mol_prefix / max(R.measure(res[1].contents, 'L'), 1e-300)
                    if abs(got - want) > 2e-6 * want + 2 * stored_res:
                        viol(['C12', 'C14', 'C03'], 'C12:extreme_dilution_does_not_hold_the_stated_concentration:trillion_fold', {'target': target, 'total': tot, 'got_mol_per_L': got})
            M.bucket(case['prop'] + '/edge/E22_quantity_in_moles_with_a_diluent_poor_in_moles')
            bsa, lys4 = S.solid('BSA', 66430.0), S.enzyme('lysozyme', '40000 U/mg')
            brine1 = C('stock', initial_contents=[(water, '1 L'), (salt, '58.44 g')])
            prep = C('prep', initial_contents=[(lys4, '5000 U'), (bsa, '10 mg')])
            prep2 = C('prep2', initial_contents=[(lys4, '5000 U'), (kcl, '1 ug')])
            for target, tot, dil_ in (('0.1 mM', '5.65 mmol', prep), ('0.2 mM', '20 mmol', prep), ('0.9 mM', '4 g', prep2)):
                res, exc = attempt(lambda: C.create_solution_from(brine1, salt, target, dil_, tot))
                if exc is not None:
                    viol(['C12', 'C03'], f'C12:feasible_request_refused:quantity_in_moles_with_a_diluent_poor_in_moles:{type(exc).__name__}', {'target': target, 'total': tot, 'exc': repr(exc)[:120]})
                else:
                    got = R.concentration(res[2].contents, salt, 'mol', 'L')
                    want = R.parse_concentration(target)[0]
                    if abs(got - want) > 1e-4 * want:
                        viol(['C12', 'C03'], 'C12:concentration_not_met:quantity_in_moles_with_a_diluent_poor_in_moles', {'target': target, 'total': tot, 'got_mol_per_L': got})
            M.bucket(case['prop'] + '/edge/E22_total_at_the_stocks_own_concentration')
            for conc, tot in (('1 ng/L', '50 mL'), ('3 ng/L', '20 mL'), ('1 ug/L', '50 mL'), ('10 ng/L', '10 mL')):
                stock, exc = attempt(lambda: C.create_solution(oligo, water, concentration=conc, total_quantity='1 L'))
                if exc is not None:
                    continue
                res, exc = attempt(lambda: C.create_solution_from(stock, oligo, conc, water, tot))
                if exc is not None:
                    viol(['C12', 'C03'], f'C12:own_concentration_refused:{type(exc).__name__}', {'concentration': conc, 'total': tot, 'exc': repr(exc)[:120]})
                    continue
                vol = R.measure(res[1].contents, 'L')
                if abs(vol - R.parse_quantity(tot)[0]) > 1e-5 * R.parse_quantity(tot)[0]:
                    viol(['C12', 'C03'], 'C12:total_quantity_not_met:own_concentration', {'concentration': conc, 'stated_total': tot, 'got_L': vol})
            M.bucket(case['prop'] + '/edge/E22_trace_concentration_in_a_total_by_mass')
            for conc, tot in (('1 pM', '10 kg'), ('0.001 pM', '300 kg'), ('0.001 pM', '1000 kg'), ('2 pM', '25 kg'), ('0.05 pM', '100 kg'), ('1 pM', '500 mol')):
                res, exc = attempt(lambda: C.create_solution(oligo, water, concentration=conc, total_quantity=tot))
                if exc is not None:
                    viol(['C05', 'C03'], f'C05:feasible_request_refused:trace_concentration_in_a_total_by_mass:{type(exc).__name__}', {'concentration': conc, 'total': tot, 'exc': repr(exc)[:120]})
                    continue
                got = R.concentration(res.contents, oligo, 'mol', 'L')
                want = R.parse_concentration(conc)[0]
                stored_res = cf.q * cf.mol_prefix / max(R.measure(res.contents, 'L'), 1e-300)
                if abs(got - want) > 1e-3 * want + 2 * stored_res:
                    viol(['C05', 'C03'], 'C05:stated_concentration_not_met:trace_in_a_total_by_mass', {'concentration': conc, 'total': tot, 'got_mol_per_L': got, 'want': want})
            M.bucket(case['prop'] + '/edge/E22_a_stated_zero')
            for kw in ({'concentration': '0 M', 'total_quantity': '10 mL'}, {'quantity': '0 g', 'total_quantity': '10 mL'}, {'quantity': '0 mol', 'concentration': '1 M'},
                       {'concentration': '0 %w/w', 'total_quantity': '10 g'}):
                res, exc = attempt(lambda: C.create_solution(salt, water, **kw))
                if exc is None and res.contents.get(salt, 0.0) > 0:
                    viol(['C05', 'C03'], 'C05:stated_zero_comes_out_positive', {'kwargs': kw, 'salt_stored': res.contents.get(salt)})
                elif exc is not None and not isinstance(exc, ValueError):
                    viol(['C05', 'C03'], f'C05:refusal_not_ValueError:stated_zero:{type(exc).__name__}', {'kwargs': kw, 'exc': repr(exc)[:120]})
            M.note_nontrivial(case['prop'], ('E22', idx))
        elif fam == 22:
            # ---- E23
            M.bucket(case['prop'] + '/edge/E23_the_callers_table_owns_its_labels')
            def mk():
                return C('stock', '10 mL', [(water, '5 mL'), (salt, '1 g'), (kcl, '2 g')])
            stock = mk()
            df, exc = attempt(lambda: stock.dataframe())
            if exc is None:
                first = [str(i_) for i_ in df.index]
                cols = [str(c_) for c_ in df.columns]
                def scribble():
                    df.index.values[1] = 'ethanol'
                    df.columns.values[0] = 'gallons'
                attempt(scribble)
                again, exc2 = attempt(lambda: mk().dataframe())
                mine, exc3 = attempt(lambda: stock.dataframe())
                for t_ in (again, mine):
                    if t_ is not None and ([str(i_) for i_ in t_.index] != first or [str(c_) for c_ in t_.columns] != cols):
                        viol(['C10', 'C04', 'C19'], 'C04:editing_the_labels_of_the_returned_table_changes_what_containers_report', {'index_was': first, 'index_now': [str(i_) for i_ in t_.index], 'columns_now': [str(c_) for c_ in t_.columns]})
                        break
            M.bucket(case['prop'] + '/edge/E23_a_substance_named_Total')
            tot = S.solid('Total', 120.0)
            c = C('c', '10 mL', [(water, '5 mL'), (tot, '3 mmol'), (salt, '1 mmol')])
            df, exc = attempt(lambda: c.dataframe())
            if exc is None:
                if sum(1 for i_ in df.index if str(i_).startswith('Total')) != 2:      # (the substance, and the totals)
                    viol(['C10', 'C19'], 'C19:container_table_loses_the_row_of_a_substance_named_Total', {'index': [str(i_) for i_ in df.index], 'substances': [s_.name for s_ in c.contents]})
            M.bucket(case['prop'] + '/edge/E23_slice_and_plate_answer_get_moles_alike')
            brine = C('brine', initial_contents=[(water, '10 mL'), (salt, '2 mmol')])
            _, plate = pp.Plate.transfer(brine, pp.Plate('p', '100 uL', rows=2, columns=3), rng.choice(['10 uL', '25 uL', '50 uL']))
            res, exc = attempt(lambda: (plate.get_moles(salt), plate[:].get_moles(salt), plate.get_moles(salt, cf.moles_display_unit() if callable(getattr(cf, 'moles_display_unit', None)) else getattr(cf, 'moles_display_unit', 'umol'))))
            if exc is not None:
                viol(['C10'], f'C10:get_moles_raised:{type(exc).__name__}', {'exc': repr(exc)[:120]})
            else:
                import numpy as _np
                if not (_np.allclose(res[0], res[1], rtol=1e-12, atol=0) and _np.allclose(res[0], res[2], rtol=1e-12, atol=0)):
                    viol(['C10', 'C18'], 'C10:slice_and_plate_answer_get_moles_differently_by_default', {'plate': _np.asarray(res[0]).tolist(), 'slice': _np.asarray(res[1]).tolist(), 'in_display_unit': _np.asarray(res[2]).tolist()})
            M.note_nontrivial(case['prop'], ('E23', idx))
        elif fam == 23:
            # ---- E24
            M.bucket(case['prop'] + '/edge/E24_mass_per_N_units')
            ns = rng.sample(range(1, 101), 12) + [7]
            for n in ns:
                a, ea = attempt(lambda: S.enzyme('lipase', f'{n} U/mg'))
                b, eb = attempt(lambda: S.enzyme('lipase', f'1 mg/{n} U'))
                c_, ec = attempt(lambda: S.enzyme('lipase', f'2 g/{2 * n} kU'))
                if ea is not None or eb is not None or ec is not None:
                    viol(['C14', 'C06'], 'C14:wellformed_specific_activity_refused', {'n': n, 'excs': [repr(e_)[:80] for e_ in (ea, eb, ec)]})
                    break
                if not (a == b and hash(a) == hash(b) and a == c_):
                    viol(['C06', 'C14'], 'C14:one_specific_activity_spelt_differently_is_another_substance', {'spellings': [f'{n} U/mg', f'1 mg/{n} U', f'2 g/{2 * n} kU'], 'values': [a.specific_activity, b.specific_activity, c_.specific_activity]})
                    break
            M.bucket(case['prop'] + '/edge/E24_specific_activity_of_zero')
            for sp in ('0 U/g', '0 U/mg', '0.0 kU/g', '0 g/U', '0 mg/5 U'):
                res, exc = attempt(lambda: S.enzyme('ghost', sp))
                if exc is None:
                    viol(['C14', 'C06', 'C03'], 'C14:specific_activity_of_zero_accepted', {'spelling': sp, 'stored': res.specific_activity})
                elif not isinstance(exc, ValueError):
                    viol(['C14', 'C06'], f'C14:refusal_not_ValueError:specific_activity_of_zero:{type(exc).__name__}', {'spelling': sp})
            M.bucket(case['prop'] + '/edge/E24_prefix_glued_to_the_percent_sign')
            brine = C('brine', '100 L', [(water, '10 mL'), (salt, '1 g')])
            for sp in ('5 m%w/w', '5 k%w/w', '5 u%v/v', '5 m%w/v', '1 c%w/w', '2 da%v/v'):
                for label, fn in (('parse_concentration', lambda: pp.Unit.parse_concentration(sp)), ('create_solution', lambda: C.create_solution(salt, water, concentration=sp, total_quantity='10 mL')),
                                  ('dilute', lambda: brine.dilute(salt, sp, water))):
                    res, exc = attempt(fn)
                    if exc is None:
                        viol(['C14', 'C03'], f'C14:malformed_concentration_accepted:{label}:prefixed_percent', {'spelling': sp, 'returned': repr(res)[:100]})
                    elif not isinstance(exc, ValueError):
                        viol(['C14'], f'C14:refusal_not_ValueError:prefixed_percent:{type(exc).__name__}', {'spelling': sp, 'where': label})
            M.bucket(case['prop'] + '/edge/E24_overflow_once_the_prefixes_are_applied')
            for sp in ('1e308 kmol/L', '1e308 mol/uL', '1e307 kg/mL', '1e306 Mg/uL', '1e308 kU/L'):
                res, exc = attempt(lambda: pp.Unit.parse_concentration(sp))
                if exc is None and (res[0] != res[0] or res[0] in (float('inf'), float('-inf'))):
                    viol(['C14', 'C03'], 'C14:malformed_concentration_accepted:parse_concentration:overflows_to_infinity', {'spelling': sp, 'returned': repr(res)})
                elif exc is not None and not isinstance(exc, ValueError):
                    viol(['C14'], f'C14:refusal_not_ValueError:overflow:{type(exc).__name__}', {'spelling': sp})
            M.note_nontrivial(case['prop'], ('E24', idx))
        elif fam == 24:
            # ---- E25
            lys = S.enzyme('lysozyme', '10 U/mg')
            M.bucket(case['prop'] + '/edge/E25_negative_amount_in_a_unit_that_does_not_measure_the_substance')
            for sub, q in ((lys, '-5 mol'), (lys, '-1 mmol'), (lys, '-3 umol')):
                res, exc = attempt(lambda: C('c', initial_contents=[(water, '1 mL'), (sub, q)]))
                if exc is None:
                    viol(['C04', 'C03', 'C01'], 'C03:negative_amount_accepted:constructor:unit_that_does_not_measure', {'substance': sub.name, 'quantity': q})
                r = pp.Recipe()
                res, exc = attempt(lambda: (r.create_container('c', '10 mL', [(water, '1 mL'), (sub, q)]), r.bake()))
                if exc is None:
                    viol(['C04', 'C03', 'C08'], 'C03:negative_amount_accepted:Recipe.create_container:unit_that_does_not_measure', {'substance': sub.name, 'quantity': q})
            M.bucket(case['prop'] + '/edge/E25_activity_units_for_a_non_enzyme')
            brine = C('brine', '1 L', [(water, '10 mL'), (salt, '1 g')])
            _, exc_e = attempt(lambda: brine.dilute(salt, '1 U/mL', water))
            r = pp.Recipe().uses(brine)
            _, exc_b = attempt(lambda: (r.dilute(brine, salt, '1 U/mL', water), r.bake()))
            for where, e_ in (('dilute', exc_e), ('Recipe.dilute', exc_b)):
                if e_ is None or not isinstance(e_, ValueError):
                    viol(['C08', 'C03', 'C11'], f'C03:activity_concentration_of_a_non_enzyme:{where}:' + ('accepted' if e_ is None else type(e_).__name__), {'exc': repr(e_)[:120]})
            M.bucket(case['prop'] + '/edge/E25_recipe_create_solution_from_at_the_neat_stock')
            neat = C('neat', initial_contents=[(eth, '100 mL')])
            for target in ('100 %v/v', '0.789 g/mL', '0 M', '100.0 %w/w'):
                e_, exc_e = attempt(lambda: C.create_solution_from(neat, eth, target, water, '10 mL', 'dil'))
                r = pp.Recipe().uses(neat)
                b_, exc_b = attempt(lambda: (r.create_solution_from(neat, eth, target, water, '10 mL', 'dil'), r.bake())[1])
                if (exc_e is None) != (exc_b is None) or (exc_e is None and b_['dil'].contents != e_[1].contents):
                    viol(['C08', 'C12'], 'C08:bake_and_eager_disagree:create_solution_from_at_the_neat_stock', {'target': target, 'eager': repr(exc_e)[:100], 'bake': repr(exc_b)[:100]})
            M.note_nontrivial(case['prop'], ('E25', idx))
        elif fam == 25:
            # ---- E26
            M.bucket(case['prop'] + '/edge/E26_the_renamed_container_answers_the_tracking_queries')
            r = pp.Recipe()
            vol = rng.choice(['5 mL', '2 mL', '8 mL'])
            st = r.create_solution(salt, water, concentration='1 M', total_quantity=vol, name='stock')
            r.start_stage('thin')
            r.dilute(st, salt, rng.choice(['0.5 M', '0.25 M', '0.1 M']), water, new_name='working')
            r.end_stage('thin')
            res, exc = attempt(lambda: r.bake())
            if exc is None:
                returned = [o_ for o_ in res.values() if o_.name == 'working']
                if returned:
                    got = returned[0]
                    for label, fn in (('get_container_flows', lambda o_: r.get_container_flows(o_, 'thin', 'mL')), ('get_amount_remaining', lambda o_: r.get_amount_remaining(o_, 'all', 'mL')),
                                      ('get_substance_used', lambda o_: r.get_substance_used(water, 'thin', 'mL', destinations=[o_]))):
                        a_, ea = attempt(lambda: fn(st))
                        b_, eb = attempt(lambda: fn(got))
                        if ea is None and (eb is not None or a_ != b_):
                            viol(['C15', 'C09'], f'C15:the_container_bake_returned_is_not_known_to:{label}', {'declared_object_answer': a_, 'returned_object_answer': b_, 'exc': repr(eb)[:120]})
            M.bucket(case['prop'] + '/edge/E26_a_plate_of_another_geometry_under_a_declared_name')
            p = pp.Plate('p', '100 uL')
            w = C('w', initial_contents=[(water, '10 mL')])
            other = pp.Plate('p', '100 uL', rows=rng.choice([2, 3, 4]), columns=rng.choice([2, 3, 16]))
            for label, fn in (('transfer_into_its_well', lambda r_: r_.transfer(w, other['B:2'], '1 uL')), ('transfer_into_it', lambda r_: r_.transfer(w, other, '1 uL')),
                              ('remove', lambda r_: r_.remove(other)), ('fill_to', lambda r_: r_.fill_to(other, water, '5 uL')), ('transfer_from_its_row', lambda r_: r_.transfer(other[1], w, '1 uL'))):
                r = pp.Recipe().uses(p, w)
                _, exc = attempt(lambda: fn(r))
                if exc is None:
                    viol(['C16'], f'C16:undeclared_object_accepted:plate_of_another_geometry:{label}', {'declared': [8, 12], 'given': [other.n_rows, other.n_columns]})
                elif not isinstance(exc, ValueError):
                    viol(['C16'], f'C16:undeclared_object_refused_with:{type(exc).__name__}', {'where': label})
            # (round 17, seeded s-C07-i) ... nor is a plate of the same shape whose labels name other wells: a step declared on
            # its row 'drug' is refused - replayed on the declared plate it would act on the wells of row 'ctrl'
            M.bucket(case['prop'] + '/edge/E26_a_plate_of_the_same_shape_with_other_labels_under_a_declared_name')
            rows_ = rng.choice([['ctrl', 'drug'], ['lo', 'mid', 'hi'], ['x', 'y']])
            cols_ = rng.choice([3, ['t0', 't1', 't2']])
            assay = pp.Plate('assay', '100 uL', rows=rows_, columns=cols_)
            twin = pp.Plate('assay', '100 uL', rows=list(reversed(rows_)), columns=cols_)
            last = rows_[-1]
            for label, fn in (('transfer_into_its_row', lambda r_: r_.transfer(w, twin[last], '20 uL')), ('fill_to_its_row', lambda r_: r_.fill_to(twin[last], water, '20 uL')),
                              ('remove_from_its_row', lambda r_: r_.remove(twin[last], water))):
                r = pp.Recipe().uses(assay, w)
                if label.startswith('remove'):
                    r.transfer(w, assay, '5 uL')
                _, exc = attempt(lambda: fn(r))
                if exc is not None:
                    if not isinstance(exc, ValueError):
                        viol(['C16', 'C07'], f'C16:undeclared_object_refused_with:{type(exc).__name__}', {'where': label})
                    continue
                res, exc = attempt(lambda: r.bake())
                if exc is None:
                    got = res['assay']
                    i_last = rows_.index(last)
                    acted = [i_ for i_ in range(len(rows_))
                             if any((wl.contents.get(water, 0.0) > 0) != (label.startswith('remove')) for wl in got.wells[i_])]
                    if acted != [i_last]:
                        viol(['C07', 'C16'], f'C07:step_declared_on_a_row_label_acts_on_other_wells:{label}',
                             {'declared_rows': rows_, 'given_rows': list(reversed(rows_)), 'row_named': last, 'rows_acted_on': [rows_[i_] for i_ in acted]})
            M.note_nontrivial(case['prop'], ('E26', idx))
        elif fam == 26:
            # ---- E27 (meant for L / mol storage; true under every configuration)
            lys = S.enzyme('lysozyme', rng.choice(['10 U/mg', '50 U/mg', '2 U/mg']))
            M.bucket(case['prop'] + '/edge/E27_an_enzyme_moved_by_mass')
            sa = R.specific_activity_of(lys)        # U per g
            for held, asked, feasible in (('100 ng', '1.234 ng', True), ('100 ng', '0.04 ng', True), ('1.25 ng', '1.25 ng', True), ('1.20 ng', '1.24 ng', False),
                                          ('10 ng', '9.87 ng', True), ('3 ug', '12.5 ng', True), ('1 ng', '1.04 ng', False)):
                src = C('src', initial_contents=[(lys, held)])
                dst = C('dst')
                res, exc = attempt(lambda: C.transfer(src, dst, asked))
                want_U = R.parse_quantity(asked)[0] * sa
                if want_U < 1e4 * cf.q:
                    continue            # (below what the stored activity can resolve to four digits)
                if feasible:
                    if exc is not None:
                        viol(['C03', 'C02'], f'C03:feasible_mass_transfer_of_an_enzyme_refused:{type(exc).__name__}', {'held': held, 'asked': asked, 'exc': repr(exc)[:120]})
                        continue
                    got_U = res[1].contents.get(lys, 0.0)
                    if abs(got_U - want_U) > 1e-3 * want_U:
                        viol(['C02', 'C03', 'C01'], 'C02:mass_transfer_of_an_enzyme_moves_another_mass', {'held': held, 'asked': asked, 'arrived_ng': got_U / sa * 1e9})
                elif exc is None or not isinstance(exc, ValueError):
                    viol(['C03', 'C02'], 'C03:overdraw_by_mass_of_an_enzyme_accepted' if exc is None else f'C03:refusal_not_ValueError:{type(exc).__name__}', {'held': held, 'asked': asked})
            # (round 17, seeded s-C02-i) picograms with five or ten digits out of a dry enzyme of high specific activity: a mass is
            # rounded relative to itself, not to so many decimals of a gram
            M.bucket(case['prop'] + '/edge/E27_picograms_of_an_enzyme_by_mass')
            pol = S.enzyme('polymerase', rng.choice(['4 U/ng', '2 U/ng', '10 U/ng']))
            sa_p = R.specific_activity_of(pol)
            for held, asked in (('100 pg', '1.2345 pg'), ('100 pg', '12.3456 pg'), ('1 ng', '0.0123456789 ng'), ('50 pg', '2.4689 pg'), ('10 pg', '0.98765 pg'), ('1 ng', '123.4567891 pg')):
                src = C('src', initial_contents=[(pol, held)])
                res, exc = attempt(lambda: C.transfer(src, C('dst'), asked))
                want_U = R.parse_quantity(asked)[0] * sa_p
                if want_U < 1e6 * cf.q:
                    continue
                if exc is not None:
                    viol(['C03', 'C02'], f'C03:feasible_mass_transfer_of_an_enzyme_refused:{type(exc).__name__}', {'held': held, 'asked': asked, 'exc': repr(exc)[:120]})
                    continue
                got_U = res[1].contents.get(pol, 0.0)
                if abs(got_U - want_U) > 1e-6 * want_U + 4 * cf.q:
                    viol(['C02', 'C03', 'C01'], 'C02:mass_transfer_of_an_enzyme_moves_another_mass:picograms', {'held': held, 'asked': asked, 'arrived_pg': got_U / sa_p * 1e12})
            M.note_nontrivial(case['prop'], ('E27', idx))
        elif fam == 27:
            # ---- E28
            from pv.instr import tokens, token_matches, by_base
            suc = S.solid('sucrose', 342.3)
            zero_volume = R.density_of(suc) == float('inf')
            if zero_volume:
                M.bucket(case['prop'] + '/edge/E28_a_diluent_without_volume')
                stock = C.create_solution(salt, water, concentration='1 M', total_quantity='10 mL')
                for target, tot in (('0.5 M', '10 mL'), ('0.1 M', '5 mL'), ('10 %w/w', '5 g'), ('0.01 mol/mol', '10 mL'), ('0.005 mol/mol', '2 mL'), ('2 %v/v', '10 mL')):
                    res, exc = attempt(lambda: C.create_solution_from(stock, salt, target, suc, tot))
                    if exc is None:
                        viol(['C12', 'C03', 'C19'], 'C12:diluent_without_volume_accepted', {'target': target, 'total': tot, 'instructions': (res[1].instructions or '')[-120:]})
                    elif not isinstance(exc, ValueError):
                        viol(['C12', 'C03'], f'C12:refusal_not_ValueError:diluent_without_volume:{type(exc).__name__}', {'target': target})
            if zero_volume:
                M.bucket(case['prop'] + '/edge/E28_transfer_out_of_a_container_without_volume')
                for label, mk in (('emptied_and_refilled', lambda: C.transfer(C('jar', initial_contents=[(salt, '10 g')]), C.transfer(C('vial', initial_contents=[(water, '1 mL')]), C('waste'), '1 mL')[0], '5 g')[1]),
                                  ('zero_entry', lambda: C('vial', initial_contents=[(water, '0 mL'), (salt, '5 g')]))):
                    vial, exc = attempt(mk)
                    if exc is not None:
                        continue
                    res, exc = attempt(lambda: C.transfer(vial, C('dest'), '2 g'))
                    if exc is None:
                        line = (res[1].instructions or '').splitlines()[-1]
                        if not any(token_matches(t_, {'g': 2.0}) and t_[2] == 'g' for t_ in tokens(line)):
                            viol(['C19'], 'C19:transfer_amount_wrong:no_volume_but_a_liquid_listed', {'line': line, 'moved_g': 2.0, 'source': label})
            M.bucket(case['prop'] + '/edge/E28_fill_and_dilute_with_a_solid_state_what_was_added' + ('/zero_volume' if zero_volume else ''))
            c = C('c', '1 L', [(water, rng.choice(['1 mL', '2 mL', '5 mL']))])
            for label, fn, solv in (('fill_to', lambda: c.fill_to(suc, rng.choice(['8 g', '12 g', '6.5 g'])), suc),
                                    ('dilute', lambda: C('d', '1 L', [(water, '1 mL'), (salt, '1 g')]).dilute(water, rng.choice(['40 %w/w', '25 %w/w']), salt), salt)):
                res, exc = attempt(fn)
                if exc is not None:
                    continue
                line = (res.instructions or '').splitlines()[-1]
                start = c if label == 'fill_to' else C('d', '1 L', [(water, '1 mL'), (salt, '1 g')])
                actual = by_base({solv: res.contents.get(solv, 0.0) - start.contents.get(solv, 0.0)})
                if not any(token_matches(t_, actual) and actual.get(t_[2]) for t_ in tokens(line)):
                    viol(['C19'], f'C19:{label}_line_does_not_state_the_amount_of_a_solid_added', {'line': line, 'actual_added_base_units': actual})
            r = pp.Recipe()
            r.uses(c)
            plate = pp.Plate('pl', '1 mL', rows=2, columns=2)
            r.uses(plate)
            r.transfer(c, plate, '10 uL')
            r.fill_to(plate, suc, '50 mg')
            r.fill_to(c, suc, '2 g')
            res, exc = attempt(lambda: r.bake())
            if exc is None:
                for step, added_g in ((r.steps[1], 0.04), (r.steps[2], None)):
                    text = step.instructions or ''
                    if added_g is None:
                        added_g = R.measure({suc: res['c'].contents.get(suc, 0.0)}, 'g')
                    actual = {'g': added_g, 'L': added_g / R.density_of(suc) / 1000.0 if not zero_volume else 0.0}
                    if not any(t_[2] in actual and actual[t_[2]] and token_matches(t_, actual) for t_ in tokens(text)):
                        viol(['C19'], 'C19:recipe_step_instruction_wrong:fill_to:amount_of_a_solid_added', {'instruction': text, 'actual_added_base_units': actual})
            M.bucket(case['prop'] + '/edge/E28_a_create_container_step_states_its_contents')
            r = pp.Recipe()
            ml, g_ = rng.choice([1, 2, 5]), rng.choice([1, 3, 0.5])
            r.create_container('mix', '10 mL', [(water, f'{ml} mL'), (salt, f'{g_} g')])
            res, exc = attempt(lambda: r.bake())
            if exc is None:
                text = r.steps[0].instructions or ''
                toks = tokens(text)
                ok_w = 'H2O' in text and any(token_matches(t_, {'L': ml * 1e-3}) for t_ in toks if t_[2] == 'L')
                ok_s = 'NaCl' in text and any(token_matches(t_, {'g': g_}) for t_ in toks if t_[2] == 'g')
                if not (ok_w and ok_s):
                    viol(['C19'], 'C19:recipe_step_instruction_wrong:create_container:initial_contents', {'instruction': text, 'contents': [f'{ml} mL H2O', f'{g_} g NaCl']})
            M.note_nontrivial(case['prop'], ('E28', idx))
        elif fam == 28:
            # ---- E29
            M.bucket(case['prop'] + '/edge/E29_a_real_loss_after_a_long_stage')
            carboy = C('carboy', '10 L', [(water, rng.choice(['5 L', '8 L']))])
            plate = pp.Plate('plate', '300 uL', rows=2, columns=3)      # (a small plate: what matters is the number of steps)
            waste = C('waste')
            r = pp.Recipe().uses(carboy, plate, waste)
            r.start_stage('dispense')
            wells_ = [(i_, j_) for i_ in range(1, 3) for j_ in range(1, 4)]
            for k_ in range(rng.choice([650, 700])):
                r.transfer(carboy, plate[wells_[k_ % 6]], '0.3 uL')
            r.transfer(plate[1, 1], waste, '0.0025 uL')
            r.end_stage('dispense')
            _, exc = attempt(lambda: r.bake())
            if exc is None:
                lost = waste_amount = r.results['waste'].contents.get(water, 0.0) if hasattr(r, 'results') else None
                res, exc = attempt(lambda: r.get_substance_used(water, 'dispense', 'umol', destinations=[carboy, plate]))
                if exc is None or not isinstance(exc, ValueError):
                    viol(['C09'], 'C09:net_decrease_not_refused_with_ValueError:after_a_long_stage', {'steps': len(r.steps), 'lost_storage_units': lost, 'answer': res, 'exc': repr(exc)[:100]})
                res, exc = attempt(lambda: r.get_substance_used(water, 'dispense', 'umol', destinations=[carboy, plate, waste]))
                if exc is not None or abs(res) > 1e-3:
                    viol(['C09'], 'C09:closed_system_not_zero:after_a_long_stage', {'answer': res, 'exc': repr(exc)[:100]})
            M.bucket(case['prop'] + '/edge/E29_a_stamp_and_a_loss_to_waste')
            dye = S.solid('dye', 350.0)
            stock = C.create_solution(dye, water, concentration='10 mM', total_quantity='50 mL', name='stock')
            p1, p2 = pp.Plate('p1', '100 uL', rows=16, columns=24), pp.Plate('p2', '100 uL', rows=16, columns=24)
            waste = C('waste')
            r = pp.Recipe().uses(stock, waste, p1, p2)
            r.start_stage('fill')
            r.transfer(stock, p1, '40 uL')
            r.end_stage('fill')
            r.start_stage('stamp')
            r.transfer(p1, p2, '20 uL')
            r.transfer(p2['A:1'], waste, rng.choice(['10 uL', '5 uL', '20 uL']))
            r.end_stage('stamp')
            _, exc = attempt(lambda: r.bake())
            if exc is None:
                res, exc = attempt(lambda: r.get_substance_used(dye, 'stamp', 'nmol'))
                if exc is None or not isinstance(exc, ValueError):
                    viol(['C09', 'C18'], 'C09:net_decrease_not_refused_with_ValueError:stamp_then_loss', {'answer': res, 'exc': repr(exc)[:100]})
                f_, ef = attempt(lambda: r.get_substance_used(dye, 'fill', 'nmol', destinations=[p1, p2, waste]))
                s_, es = attempt(lambda: r.get_substance_used(dye, 'stamp', 'nmol', destinations=[p1, p2, waste]))
                a_, ea = attempt(lambda: r.get_substance_used(dye, 'all', 'nmol', destinations=[p1, p2, waste]))
                if ef is None and es is None and ea is None and abs(f_ + s_ - a_) > 1.0:
                    viol(['C09'], 'C09:stages_do_not_add_up_to_the_whole_recipe', {'fill': f_, 'stamp': s_, 'all': a_})
            M.bucket(case['prop'] + '/edge/E29_remove_from_a_large_plate_that_is_a_destination')
            big = C('stock', '10 L', [(water, '5 L')])
            for (rows_, cols_), per_well in (((16, 24), rng.choice(['5 uL', '50 uL', '13 uL', '25 uL'])), ((8, 12), rng.choice(['5 uL', '3.8 uL']))):
                plate_ = pp.Plate('plate', '500 uL', rows=rows_, columns=cols_)
                r = pp.Recipe().uses(big, plate_)
                r.start_stage('dispense')
                r.transfer(big, plate_, per_well)
                r.end_stage('dispense')
                r.start_stage('dry')
                r.remove(plate_, water)
                r.end_stage('dry')
                _, exc = attempt(lambda: r.bake())
                if exc is None:
                    res, exc = attempt(lambda: r.get_substance_used(water, 'dry', 'umol', destinations=[plate_]))
                    if exc is not None or abs(res) > 1e-3:
                        viol(['C09', 'C17'], 'C09:net_change_of_zero_refused_as_a_decrease:remove:large_plate', {'plate': [rows_, cols_], 'per_well': per_well, 'answer': res, 'exc': repr(exc)[:120]})
            M.bucket(case['prop'] + '/edge/E29_a_solution_step_between_two_destinations')
            glc = S.solid('glucose', 180.16)
            salt_ = S.solid('NaCl', 58.44)      # (the molar mass the round-16 hunter's cases were found with: which requests hit the odd stored digit depends on it)
            for w_ml, mg_, conc_, tot_ in ((0.7, 10, '1 mM', '0.2 mL'), (0.8, 10, '10 mM', '0.25 mL'), (0.75, 10, '1 mM', '150 uL'), (0.8, 5, '0.1 M', '0.2 mL')):
                st_ = C('stock', initial_contents=[(water, f'{w_ml} mL'), (salt_, f'{mg_} mg')])
                r = pp.Recipe().uses(st_)
                r.start_stage('prep')
                new_ = r.create_solution(glc, st_, 'new', concentration=conc_, total_quantity=tot_)
                r.end_stage('prep')
                r.start_stage('top up')
                r.fill_to(new_, water, '1 mL')
                r.end_stage('top up')
                _, exc = attempt(lambda: r.bake())
                if exc is None:
                    res, exc = attempt(lambda: r.get_substance_used(water, 'prep', 'umol', [st_, new_]))
                    if exc is not None or abs(res) > 1e-3:
                        viol(['C09'], 'C09:net_change_of_zero_refused_as_a_decrease:solution_step', {'stock_mL': w_ml, 'NaCl_mg': mg_, 'solution': [conc_, tot_], 'answer': res, 'exc': repr(exc)[:120]})
                        break
            for contents_, target_, tot_ in ((('0.4943 mL', '26.02 mg', '0.1505 mg'), '0.6079 M', '0.4185 mL'), (('0.7312 mL', '15.48 mg', '2.89 mg'), '0.2407 M', '0.334 mL')):
                st_ = C('stock', initial_contents=[(water, contents_[0]), (salt_, contents_[1]), (kcl, contents_[2])])
                r = pp.Recipe().uses(st_)
                r.start_stage('prep')
                new_ = r.create_solution_from(st_, salt_, target_, dmso, tot_, 'new')
                r.end_stage('prep')
                _, exc = attempt(lambda: r.bake())
                if exc is None:
                    res, exc = attempt(lambda: r.get_substance_used(water, 'prep', 'umol', [st_, new_]))
                    if exc is not None or abs(res) > 1e-3:
                        viol(['C09'], 'C09:net_change_of_zero_refused_as_a_decrease:solution_from_step', {'stock': contents_, 'solution': [target_, tot_], 'answer': res, 'exc': repr(exc)[:120]})
            # (round 17) a solution step whose solvent container lists the solute with an amount of zero adds all of it from
            # outside: that charge is no rounding noise, and a real loss elsewhere in the timeframe is still refused
            # (round 17, second wave) a solution made from a source at the source's own concentration needs no solvent: the
            # solvent, too, is only moved - source + new solution answer 0 for it
            # (round 17, third wave) many transfers between two large vessels that are no destinations, and a real loss of the plate
            M.bucket(case['prop'] + '/edge/E29_a_loss_next_to_traffic_between_large_vessels')
            carboy2 = C('carboy', initial_contents=[(water, rng.choice(['1000 L', '400 L']))])
            tank, waste2, pl2 = C('tank'), C('waste', '1 L'), pp.Plate('p', '500 uL', rows=2, columns=3)
            r = pp.Recipe().uses(carboy2, tank, waste2, pl2)
            r.transfer(carboy2, pl2, '100 uL')
            r.start_stage('x')
            for k_ in range(rng.choice([60, 120])):
                r.transfer(carboy2, tank, '1 mL')
            r.transfer(pl2[1, 1], waste2, rng.choice(['0.02 nL', '0.05 nL', '0.01 nL']))
            r.end_stage('x')
            _, exc = attempt(lambda: r.bake())
            if exc is None and cf.q * cf.mol_prefix <= 1e-15 and cf.q * cf.vol_prefix <= 1e-15:
                res, exc = attempt(lambda: r.get_substance_used(water, 'x', 'nmol', destinations=[pl2]))
                if exc is None or not isinstance(exc, ValueError):
                    viol(['C09'], 'C09:net_decrease_not_refused_with_ValueError:next_to_traffic_between_large_vessels', {'answer': res, 'exc': repr(exc)[:100]})
            M.bucket(case['prop'] + '/edge/E29_a_solution_from_step_at_the_own_concentration')
            for w_ul, take in ((19, '10 uL'), (19, '2 uL'), (49, '15 uL'), (79, '40 uL'), (29, '7 uL'), (39, '13 uL')):
                st_ = C('stock', '1 mL', [(salt_, '1 mg'), (water, f'{w_ul} uL')])
                r = pp.Recipe().uses(st_)
                new_ = r.create_solution_from(st_, salt_, f"{st_.get_concentration(salt_, 'mg/uL')} mg/uL", water, take, name='aliquot')
                _, exc = attempt(lambda: r.bake())
                if exc is None:
                    for sub_ in (water, salt_):
                        res, exc = attempt(lambda: r.get_substance_used(sub_, 'all', 'umol', [st_, new_]))
                        if exc is not None or abs(res) > 1e-3:
                            viol(['C09'], 'C09:net_change_of_zero_refused_as_a_decrease:solution_from_step:own_concentration', {'stock_water_uL': w_ul, 'taken': take, 'substance': sub_.name, 'answer': res, 'exc': repr(exc)[:120]})
                            break
            M.bucket(case['prop'] + '/edge/E29_a_loss_next_to_a_solution_step_with_a_zero_entry')
            for kind_ in ('declared with zero', 'emptied and refilled', 'plain'):
                stock_ = C('stock', initial_contents=[(water, '50 mL'), (salt_, '10 mmol')])
                if kind_ == 'declared with zero':
                    dil_ = C('diluent', initial_contents=[(water, '100 mL'), (salt_, rng.choice(['0 mol', '0 mg']))])
                elif kind_ == 'plain':
                    dil_ = C('diluent', initial_contents=[(water, '100 mL')])
                else:
                    dil_ = C('diluent', initial_contents=[(water, '10 mL'), (salt_, '1 mmol')])
                plate_, waste = pp.Plate('plate', '2 mL', rows=2, columns=3), C('waste')
                r = pp.Recipe().uses(stock_, dil_, plate_, waste)
                if kind_ == 'emptied and refilled':
                    r.transfer(dil_, waste, f"{dil_.get_volume('mL')} mL")
                    r.fill_to(dil_, water, '100 mL')
                r.start_stage('load')
                r.transfer(stock_, plate_, '100 uL')
                r.end_stage('load')
                r.start_stage('work')
                r.create_solution(salt_, dil_, name='sol', concentration=rng.choice(['1 M', '0.5 M']), total_quantity='20 mL')
                r.transfer(plate_[1], waste, rng.choice(['50 uL', '20 uL', '5 uL']))
                r.end_stage('work')
                _, exc = attempt(lambda: r.bake())
                if exc is None:
                    res, exc = attempt(lambda: r.get_substance_used(salt_, 'work', 'umol', destinations=[plate_]))
                    if exc is None or not isinstance(exc, ValueError):
                        viol(['C09'], 'C09:net_decrease_not_refused_with_ValueError:next_to_a_solution_step_with_a_zero_entry', {'diluent': kind_, 'answer': res, 'exc': repr(exc)[:100]})
            M.bucket(case['prop'] + '/edge/E29_a_loss_after_stamps_back_and_forth')
            lig = S.solid('ligand', 500.0)
            st = C('stock', '1 L', [(water, '100 mL'), (lig, '1 nmol')])        # 10 nM
            p_, q_ = pp.Plate('p', '200 uL'), pp.Plate('q', '200 uL')
            st, p_ = pp.Plate.transfer(st, p_, '60 uL')
            waste = C('waste', '1 L')
            r = pp.Recipe().uses(st, p_, q_, waste)
            r.start_stage('mix')
            for k_ in range(3):
                r.transfer(p_, q_, '20 uL')
                r.transfer(q_, p_, '15 uL')
            r.transfer(p_['A:1'], waste, rng.choice(['5 uL', '6 uL', '4 uL']))      # 0.05 pmol of ligand: 500 stored digits (umol storage)
            r.end_stage('mix')
            r.start_stage('top_up')
            r.transfer(st, p_['A:1'], '100 uL')
            r.end_stage('top_up')
            _, exc = attempt(lambda: r.bake())
            if exc is None and cf.q * cf.mol_prefix <= 1e-15:
                res, exc = attempt(lambda: r.get_substance_used(lig, 'mix', 'pmol'))
                if exc is None or not isinstance(exc, ValueError):
                    viol(['C09'], 'C09:net_decrease_not_refused_with_ValueError:after_stamps_back_and_forth', {'answer': res, 'exc': repr(exc)[:100]})
                res, exc = attempt(lambda: r.get_substance_used(lig, 'mix', 'pmol', destinations=[p_, q_, waste]))
                if exc is not None or abs(res) > 1e-3:
                    viol(['C09'], 'C09:closed_system_not_zero:after_stamps_back_and_forth', {'answer': res, 'exc': repr(exc)[:100]})
            M.note_nontrivial(case['prop'], ('E29', idx))
        elif fam == 29:
            # ---- E30
            M.bucket(case['prop'] + '/edge/E30_a_small_real_request_is_carried_out')
            weak = C.create_solution(salt, water, concentration='1 uM', total_quantity='1 L')
            strong = C.create_solution(salt, water, concentration='2 M', total_quantity='10 mL')
            for target in ('1.002 uM', '1.001 uM', '1.01 uM'):
                res, exc = attempt(lambda: C.create_solution_from(weak, salt, target, strong, '500 mL'))
                if exc is None:
                    got = R.concentration(res[2].contents, salt, 'mol', 'L')
                    want = R.parse_concentration(target)[0]
                    if abs(got - want) > 1e-5 * want + 4 * cf.q * cf.vol_prefix * 2.0 / 0.5:      # (+ the strong portion's volume, to a few stored digits)
                        viol(['C12', 'C03'], 'C12:a_real_solvent_portion_is_swallowed', {'target': target, 'got_mol_per_L': got})
                elif not isinstance(exc, ValueError):
                    viol(['C12'], f'C12:refusal_not_ValueError:{type(exc).__name__}', {'target': target})
            lig = S.solid('ligand', 500.0)
            for held, ml in (('0.01 pmol', 1), ('0.001 pmol', 1), ('0.02 pmol', 2)):
                tube = C('tube', '20 mL', [(lig, held), (water, f'{ml} mL')])
                now = R.concentration(tube.contents, lig, 'mol', 'L')
                if not tube.contents.get(lig):
                    continue            # (below what the storage unit resolves)
                quantum_rel = cf.q / tube.contents[lig]            # one stored digit of the ligand, relative
                if quantum_rel > 0.2:
                    continue
                lower, higher = now * (1 - 0.8 * quantum_rel), now * (1 + 0.8 * quantum_rel)      # (more than the half digit one rounding hides, less than a whole one)
                res, exc = attempt(lambda: tube.dilute(lig, f'{lower * 1e12:.6g} pmol/L', water))
                if exc is None:
                    got = R.concentration(res.contents, lig, 'mol', 'L')
                    if abs(got - lower) > 0.3 * quantum_rel * now:
                        viol(['C11', 'C03'], 'C11:a_real_dilution_is_skipped:few_stored_digits_of_solute', {'held': held, 'current_M': now, 'target_M': lower, 'got_M': got})
                else:
                    viol(['C11', 'C03'], f'C11:feasible_dilution_refused:{type(exc).__name__}', {'held': held, 'target_M': lower, 'exc': repr(exc)[:100]})
                res, exc = attempt(lambda: tube.dilute(lig, f'{higher * 1e12:.6g} pmol/L', water))
                if exc is None or not isinstance(exc, ValueError):
                    viol(['C11', 'C03'], 'C03:target_above_the_current_concentration_accepted:few_stored_digits_of_solute', {'held': held, 'current_M': now, 'target_M': higher})
            M.bucket(case['prop'] + '/edge/E30_a_dilution_that_does_not_fit')
            pep = S.solid('peptide', 1000.0)
            for held_pg, target, fits in ((2, '19.5 pM', False), (2, '19 pM', False), (2000000, '19.5 uM', False), (2000000, '20 uM', True)):
                wl = C('well', '100 uL', [(water, '50 uL'), (pep, f'{held_pg} pg')])
                res, exc = attempt(lambda: wl.dilute(pep, target, water))
                if not fits and exc is None and cf.q * cf.mol_prefix <= 1e-15:
                    viol(['C03', 'C11'], 'C03:dilution_over_capacity_accepted', {'held_pg': held_pg, 'target': target, 'well_uL': 100, 'result_uL': res.get_volume('uL')})
                elif fits and exc is not None:
                    viol(['C03', 'C11'], f'C03:dilute_exactly_to_capacity_refused:mixture:{type(exc).__name__}', {'held_pg': held_pg, 'target': target, 'exc': repr(exc)[:100]})
            M.bucket(case['prop'] + '/edge/E30_an_unreachable_concentration_of_a_pure_enzyme')
            eco = S.enzyme('EcoRI', rng.choice(['1000 U/ug', '100 U/ug', '2000 U/mg']))
            vial = C('vial', initial_contents=[(eco, '500 U')])
            for target in ('150 %w/w', '1000 %w/w', '5 g/g', '110 %w/w'):
                res, exc = attempt(lambda: C.create_solution_from(vial, eco, target, water, '100 mL'))
                if exc is None or not isinstance(exc, ValueError):
                    viol(['C03', 'C12'], 'C03:unreachable_concentration:create_solution_from:' + ('accepted' if exc is None else type(exc).__name__), {'target': target, 'source': 'a vial of pure enzyme'})
                r = pp.Recipe().uses(vial)
                _, exc = attempt(lambda: (r.create_solution_from(vial, eco, target, water, '100 mL'), r.bake()))
                if exc is None or not isinstance(exc, ValueError):
                    viol(['C03', 'C12', 'C08'], 'C03:unreachable_concentration:Recipe.create_solution_from:' + ('accepted' if exc is None else type(exc).__name__), {'target': target})
            M.bucket(case['prop'] + '/edge/E30_the_own_concentration_is_accepted')
            glucose, igg = S.solid('glucose', 180.16), S.solid('IgG', 150000.0)
            peg = S.liquid('PEG400', 400.0, 1.128)
            stock = C.create_solution(glucose, water, concentration=rng.choice(['0.1 M', '0.25 M', '50 mM']), total_quantity='10 mL')
            for unit in ('mmol/mol', 'g/mol', 'M', 'g/L', 'mg/g'):
                own = f"{stock.get_concentration(glucose, unit)} {unit}"
                for diluent in (water, dmso, peg, tween):
                    res, exc = attempt(lambda: C.create_solution_from(stock, glucose, own, diluent, '1 mL'))
                    if exc is not None:
                        viol(['C12', 'C03', 'C18'], f'C12:own_reported_concentration_refused:{type(exc).__name__}', {'concentration': own, 'diluent': diluent.name, 'exc': repr(exc)[:100]})
                        break
                _, exc = attempt(lambda: stock.dilute(glucose, own, water))
                if exc is not None:
                    viol(['C11', 'C03', 'C18'], f'C11:dilute_to_the_own_reported_concentration_refused:{type(exc).__name__}', {'concentration': own, 'exc': repr(exc)[:100]})
            vol = rng.choice(['15 mL', '7 mL', '3.3 mL', '0.9 mL'])
            for k_ in range(6):
                mm = rng.choice([25, 3.3, 410, 0.7, 120])
                st = C.create_solution(salt, water, 'st', concentration=f'{mm} mM', total_quantity=rng.choice([vol, '15 mL', '2.7 mL']))
                own = f"{st.get_concentration(salt, 'M')} M"
                _, exc = attempt(lambda: st.dilute(salt, own, water))
                if exc is not None:
                    viol(['C18', 'C11', 'C03'], f'C11:dilute_to_the_own_reported_concentration_refused:{type(exc).__name__}', {'made_as': f'{mm} mM', 'asked': own, 'exc': repr(exc)[:100]})
                    break
            mixed = C.create_solution([salt, igg], water, concentration=['1 M', '2 mg/mL'], total_quantity=rng.choice(['10 uL', '25 uL', '100 uL']))
            _, aliquot = C.transfer(mixed, C('aliquot'), '2 uL')
            _, exc = attempt(lambda: C.create_solution_from(aliquot, salt, '1 M', water, '1 uL'))
            if exc is not None:
                viol(['C12', 'C03'], f'C12:own_concentration_refused:next_to_a_heavy_co_solute:{type(exc).__name__}', {'exc': repr(exc)[:100]})
            st1 = C.create_solution(salt, water, concentration='1 M', total_quantity='100 mL')
            dil = C.create_solution(salt, water, concentration='0.1 M', total_quantity='50 mL')
            for tot in ('3 mL', '1.3 mL', '7 mL', '0.9 mL', '2.1 mL'):
                res, exc = attempt(lambda: C.create_solution_from(st1, salt, '0.1 M', dil, tot))
                if exc is not None:
                    viol(['C12', 'C03'], f'C12:diluent_container_already_at_the_target_refused:{type(exc).__name__}', {'total': tot, 'exc': repr(exc)[:100]})
                    break
            # (round 17, seeded s-C12-h) ... stated by mass or in moles, from a diluent of another density: the total is the stated one
            dil2 = C.create_solution(salt, dmso, concentration='0.1 M', total_quantity='50 mL')
            for tot in ('3 g', '20 mmol', '1.3 g', '50 mmol', '2 mL'):
                res, exc = attempt(lambda: C.create_solution_from(st1, salt, '0.1 M', dil2, tot))
                if exc is not None:
                    viol(['C12', 'C03'], f'C12:diluent_container_already_at_the_target_refused:{type(exc).__name__}', {'total': tot, 'diluent': '0.1 M in DMSO', 'exc': repr(exc)[:100]})
                    break
                v_, b_ = R.parse_quantity(tot)
                got = R.measure(res[2].contents, b_)
                if abs(got - v_) > 1e-6 * v_:
                    viol(['C12'], f'C12:total_quantity_not_met:diluent_container_already_at_the_target:{b_}', {'total': tot, 'got_in_base_units': got, 'diluent': '0.1 M in DMSO'})
                    break
            # (round 17, seeded s-C03-i) a target just above what the diluent container holds, from a weaker stock that holds
            # a hundred stored digits of the solute: unreachable - the stock's own allowance (half a digit in a hundred) is
            # not the diluent's
            M.bucket(case['prop'] + '/edge/E30_just_above_the_diluent_container_from_a_trace_stock')
            lig2 = S.solid('ligand', 500.0)
            buf = C.create_solution(lig2, water, concentration='5 uM', total_quantity='100 mL')
            for held_, over in (('0.01 pmol', 1.002), ('0.01 pmol', 1.0004), ('0.004 pmol', 1.005), ('1 pmol', 1.00002)):
                trace = C('trace', initial_contents=[(water, '1 mL'), (lig2, held_)])
                if not trace.contents.get(lig2) or cf.q / trace.contents[lig2] > 0.2:
                    continue            # (below what the storage unit resolves)
                own_b = R.concentration(buf.contents, lig2, 'mol', 'L')
                target = f'{own_b * over * 1e6:.8g} uM'
                res, exc = attempt(lambda: C.create_solution_from(trace, lig2, target, buf, '1 mL'))
                if exc is None or not isinstance(exc, ValueError):
                    viol(['C03', 'C12'], 'C03:unreachable_concentration:create_solution_from:above_the_diluent_container_from_a_trace_stock:' + ('accepted' if exc is None else type(exc).__name__),
                         {'stock_holds': held_, 'diluent': '5 uM', 'target': target})
                res, exc = attempt(lambda: C.create_solution_from(trace, lig2, f'{own_b * 0.5 * 1e6:.8g} uM', buf, '1 mL'))
                if exc is not None:
                    viol(['C12', 'C03'], f'C12:feasible_request_refused:between_a_trace_stock_and_the_diluent_container:{type(exc).__name__}', {'stock_holds': held_, 'exc': repr(exc)[:100]})
            M.bucket(case['prop'] + '/edge/E30_a_neat_stock_and_its_own_concentration')
            gly = S.liquid('glycerol', 92.09, 1.261)
            for sub, targets in ((dmso, ['100 %v/v', '100 %w/w', '1 mol/mol', '1.1004 g/mL']), (gly, ['OWN M', 'OWN g/L', '100 %v/v']), (eth, ['OWN M', '100 %v/v'])):
                neat = C('neat', '10 mL', [(sub, '1 mL')])
                for t_ in targets:
                    if t_.startswith('OWN'):
                        t_ = f"{neat.get_concentration(sub, t_[4:])} {t_[4:]}"
                    res, exc = attempt(lambda: neat.dilute(sub, t_, water))
                    if exc is not None or res.contents != neat.contents:
                        viol(['C11', 'C03'], 'C11:own_concentration_of_a_neat_stock_refused' if exc is not None else 'C11:own_concentration_of_a_neat_stock_changes_it', {'substance': sub.name, 'target': t_, 'exc': repr(exc)[:100]})
                        break
                r = pp.Recipe().uses(neat)
                _, exc = attempt(lambda: (r.dilute(neat, sub, '100 %v/v', water), r.bake()))
                if exc is not None:
                    viol(['C11', 'C03', 'C08'], 'C08:bake_and_eager_disagree:own_concentration_of_a_neat_stock', {'substance': sub.name, 'exc': repr(exc)[:100]})
                res, exc = attempt(lambda: neat.dilute(sub, '50 %v/v', water))
                if exc is None:
                    got = R.concentration(res.contents, sub, 'L', 'L')
                    if abs(got - 0.5) > 1e-6:
                        viol(['C11'], 'C11:dilute_of_a_neat_stock_misses_the_target', {'substance': sub.name, 'got_v_v': got})
            M.bucket(case['prop'] + '/edge/E30_a_source_of_enzymes_only_per_mole')
            amy = S.enzyme('amylase', '10 U/mg')
            vial2 = C('vial', initial_contents=[(amy, '500 U')])
            for target, tot in (('5 U/mmol', '10 mL'), ('20 U/mmol', '5 mL'), ('2 U/mol', '3 mL')):
                res, exc = attempt(lambda: C.create_solution_from(vial2, amy, target, water, tot))
                if exc is not None:
                    viol(['C12', 'C03'], f'C12:feasible_request_refused:enzyme_only_source_per_mole:{type(exc).__name__}', {'target': target, 'total': tot, 'exc': repr(exc)[:100]})
                    continue
                mol_ = R.measure(res[1].contents, 'mol')
                got = res[1].contents.get(amy, 0.0) / mol_ if mol_ > 0 else float('inf')
                want = R.parse_concentration(target)[0]
                if not (abs(got - want) <= 1e-4 * want):
                    viol(['C12', 'C03'], 'C12:concentration_not_met:enzyme_only_source_per_mole', {'target': target, 'total': tot, 'got_U_per_mol': got, 'want': want})
            M.note_nontrivial(case['prop'], ('E30', idx))
        elif fam == 30:
            # ---- E31
            lys = S.enzyme('lysozyme', '200 U/mg')
            M.bucket(case['prop'] + '/edge/E31_an_enzyme_stated_in_moles')
            for q in ('5 mmol', '1 mol', '250 umol'):
                res, exc = attempt(lambda: C('c', '10 mL', [(water, '1 mL'), (lys, q)]))
                if exc is None:
                    viol(['C14', 'C03', 'C06'], 'C14:amount_in_a_unit_that_does_not_measure_the_substance_accepted:constructor', {'quantity': q, 'stored': res.contents.get(lys)})
                elif not isinstance(exc, ValueError):
                    viol(['C14', 'C03'], f'C14:refusal_not_ValueError:enzyme_in_moles:{type(exc).__name__}', {'quantity': q})
            r = pp.Recipe()
            _, exc = attempt(lambda: (r.create_container('c', '10 mL', [(water, '1 mL'), (lys, '5 mmol')]), r.bake()))
            if exc is None:
                viol(['C14', 'C03', 'C08'], 'C14:amount_in_a_unit_that_does_not_measure_the_substance_accepted:Recipe.create_container', {'quantity': '5 mmol'})
            brine_ = C('c', initial_contents=[(salt, '58.4428 mg'), (water, '10 mL')])        # 0.556 mol
            for target in ('100 mmol', '0.556 mol', '2 mol'):
                res, exc = attempt(lambda: brine_.fill_to(lys, target))
                if exc is None or not isinstance(exc, ValueError):
                    viol(['C11', 'C03', 'C14'], 'C03:infeasible_fill_accepted:solvent_has_no_measure:mol:' + ('accepted' if exc is None else type(exc).__name__), {'target': target, 'holds_mol': 0.556, 'solvent': 'an enzyme'})
            M.bucket(case['prop'] + '/edge/E31_units_per_N_grams')
            for n in rng.sample([3, 7, 9, 6, 11, 13, 30, 700], 4):
                a, ea = attempt(lambda: S.enzyme('amylase', f'1 U/{n} g'))
                b, eb = attempt(lambda: S.enzyme('amylase', f'{n} g/1 U'))
                c_, ec = attempt(lambda: S.enzyme('amylase', f'2 mU/{2 * n} mg'))
                if ea is not None or eb is not None or ec is not None:
                    viol(['C14', 'C06'], 'C14:wellformed_specific_activity_refused', {'n': n, 'excs': [repr(e_)[:80] for e_ in (ea, eb, ec)]})
                    continue
                if not (a == b and a == c_):
                    viol(['C06', 'C14'], 'C14:one_specific_activity_spelt_differently_is_another_substance', {'spellings': [f'1 U/{n} g', f'{n} g/1 U', f'2 mU/{2 * n} mg'], 'values': [a.specific_activity, b.specific_activity, c_.specific_activity]})
                    continue
                got = pp.Unit.convert(a, f'{n} kg', 'U')
                if abs(got - 1000.0) > 1e-8:
                    viol(['C06'], 'C06:wrong_factor:enzyme:g->U:activity_per_N_grams', {'spelling': f'1 U/{n} g', 'quantity': f'{n} kg', 'got_U': got, 'expected_U': 1000.0})
            M.bucket(case['prop'] + '/edge/E31_nothing_where_a_string_or_a_solute_is_expected')
            for label, fn in (('parse_concentration', lambda: pp.Unit.parse_concentration('')), ('create_solution_concentration', lambda: C.create_solution(salt, water, concentration='', total_quantity='10 mL')),
                              ('create_solution_no_solute', lambda: C.create_solution([], water, concentration='1 M', total_quantity='10 mL')),
                              ('create_solution_no_solute_quantity', lambda: C.create_solution([], water, quantity='1 g', total_quantity='10 mL')),
                              ('dilute', lambda: C('b', '1 L', [(water, '10 mL'), (salt, '1 g')]).dilute(salt, '', water))):
                _, exc = attempt(fn)
                if exc is None or not isinstance(exc, ValueError):
                    viol(['C14', 'C05', 'C03'], f'C14:refusal_not_ValueError:{label}:' + ('accepted' if exc is None else type(exc).__name__), {'exc': repr(exc)[:100]})
            M.bucket(case['prop'] + '/edge/E31_trace_enzyme_stated_by_mass_in_a_total_by_mass')
            hrp = S.enzyme('HRP', rng.choice(['5000 U/mg', '1000 U/mg', '250 U/mg']))
            sa = R.specific_activity_of(hrp)
            for conc, tot in (('0.1 pg/kg', '1 kg'), ('1e-14 %w/w', '1 kg'), ('0.2 pg/kg', '100 g'), ('1 pg/kg', '5 kg'), ('0.01 pg/g', '1 kg'), ('2 pg/L', '3 kg')):
                res, exc = attempt(lambda: C.create_solution(hrp, water, concentration=conc, total_quantity=tot))
                if exc is not None:
                    continue            # (what is below the stored digit may be refused)
                v, num, den = R.parse_concentration(conc)
                got = R.concentration(res.contents, hrp, num, den)
                stored_res = cf.q / sa / max(R.measure(res.contents, den), 1e-300) if num == 'g' else 0.0
                if abs(got - v) > 1e-3 * v + 2 * stored_res:
                    viol(['C05', 'C03'], 'C05:stated_concentration_not_met:trace_enzyme_by_mass', {'concentration': conc, 'total': tot, 'got': got, 'want': v, 'unit': f'{num}/{den}'})
            M.bucket(case['prop'] + '/edge/E31_solutes_stated_per_one_another')
            lipa, amyl = S.enzyme('lipase', '15 U/mg'), S.enzyme('amylase', '5000 U/mg')
            for tot in ('100 kg', '1 kg'):
                shares = []
                for order in ((lipa, amyl), (amyl, lipa)):
                    concs = ['0.3 U/U', '0.1 pg/kg'] if order[0] is lipa else ['0.1 pg/kg', '0.3 U/U']
                    res, exc = attempt(lambda: C.create_solution(list(order), water, concentration=concs, total_quantity=tot))
                    if exc is None:
                        tot_u = sum(a_ for s_, a_ in res.contents.items() if s_.is_enzyme())
                        if min(res.contents.get(lipa, 0.0), res.contents.get(amyl, 0.0)) > 1e4 * cf.q:
                            shares.append(res.contents.get(lipa, 0.0) / tot_u)
                if any(abs(sh - 0.3) > 1e-3 for sh in shares):
                    viol(['C05', 'C03'], 'C05:stated_concentration_not_met:solute_stated_per_a_trace_solute', {'total': tot, 'stated': '0.3 U/U', 'lipase_share_of_activity_by_list_order': shares})
            res, exc = attempt(lambda: C.create_solution([lipa, amyl], water, concentration=['0.3 U/U', '1 mg/kg'], total_quantity='1000 kg'))
            if exc is not None:
                viol(['C05', 'C03'], f'C05:feasible_request_refused:solute_stated_per_a_trace_solute:{type(exc).__name__}', {'exc': repr(exc)[:100]})
            cat_, sod_, amy3 = S.enzyme('catalase', '50000 U/mg'), S.enzyme('SOD', '4000 U/mg'), S.enzyme('amylase', '100 U/mg')
            for concs, tot, want in ((['0.45 U/U', '0.45 U/U', '1 mg/kg'], '500 kg', 0.45), (['0.45 U/U', '0.45 U/U', '1 ng/kg'], '100 kg', 0.45), (['0.6 U/U', '0.3 U/U', '0.1 mg/g'], '100 kg', 0.6),
                                     (['0.6 U/U', '0.399 U/U', '1 ug/kg'], '500 kg', 0.6), (['0.499 U/U', '0.499 U/U', '0.1 pg/kg'], '1000 kg', 0.499), (['0.3 U/U', '0.699 U/U', '1 ug/kg'], '500 kg', 0.3)):
                res, exc = attempt(lambda: C.create_solution([cat_, sod_, amy3], water, concentration=concs, total_quantity=tot))
                if exc is not None:
                    viol(['C05', 'C03'], f'C05:feasible_request_refused:solute_stated_per_a_trace_solute:three_enzymes:{type(exc).__name__}', {'concentrations': concs, 'total': tot, 'exc': repr(exc)[:100]})
                else:
                    tot_u = sum(a_ for s_, a_ in res.contents.items() if s_.is_enzyme())
                    if res.contents.get(cat_, 0.0) > 1e6 * cf.q and abs(res.contents[cat_] / tot_u - want) > 1e-7:
                        viol(['C05', 'C03'], 'C05:stated_concentration_not_met:solute_stated_per_a_trace_solute', {'concentrations': concs, 'total': tot, 'catalase_share_of_activity': res.contents[cat_] / tot_u, 'stated': want})
            # (round 17) shares of one another that add up to one leave the total activity open: refused, or every stated value met
            M.bucket(case['prop'] + '/edge/E31_enzyme_shares_that_add_up_to_one')
            bsa_, gly_ = S.solid('BSA', 66430.0), S.liquid('glycerol', 92.09, 1.261)
            amy_k, cat_5 = S.enzyme('amylase', '1000 U/mg'), S.enzyme('catalase', '5 U/mg')
            for solutes_, concs, tot in (([amy_k, bsa_, cat_5], ['0.9 U/U', '1 mg/mL', '0.1 U/U'], '3 uL'), ([cat_5, bsa_, amy_k], ['0.1 U/U', '1 mg/mL', '0.9 U/U'], '10 uL'),
                                         ([amy_k, salt, cat_5], ['0.3 U/U', '1 mM', '0.7 U/U'], '10 uL'), ([amy_k, cat_5, gly_], ['0.3 U/U', '0.7 U/U', '1 nL/L'], '20 nL'),
                                         ([amy_k, cat_5, salt], ['0.5 U/U', '0.5 U/U', '1 mM'], rng.choice(['5 uL', '2 uL', '50 uL'])),
                                         ([amy_k, cat_5], ['0.25 U/U', '0.75 U/U'], '5 uL')):
                res, exc = attempt(lambda: C.create_solution(solutes_, water, concentration=concs, total_quantity=tot))
                if exc is None:
                    v_, b_ = R.parse_quantity(tot)
                    got = R.measure(res.contents, b_)
                    if abs(got - v_) > 1e-6 * v_ + 4 * cf.q * cf.vol_prefix:
                        viol(['C05', 'C03'], 'C05:total_quantity_not_met:enzyme_shares_that_add_up_to_one', {'concentrations': concs, 'total': tot, 'got_L': got})
                elif not isinstance(exc, ValueError):
                    viol(['C05', 'C03'], f'C05:refusal_not_ValueError:enzyme_shares_that_add_up_to_one:{type(exc).__name__}', {'concentrations': concs, 'total': tot})
            # (round 17, third wave) the solutes make up the stated total by themselves: no room for the solvent - refused, not
            # answered with a 'solution' that holds the cancellation noise of the difference as its solvent
            # (round 17, third wave) concentrations *and* quantities that agree, a trace solute listed first or last: served alike
            M.bucket(case['prop'] + '/edge/E31_consistent_concentrations_and_quantities_in_either_order')
            pep_, igg_ = S.solid('peptide', 1000.0), S.solid('IgG', 150000.0)
            for tr_, concs, quants in ((pep_, ['10 pg/L', '9 g/L'], ['10 pg', '9 g']), (pep_, ['100 pg/L', '9 g/L'], ['100 pg', '9 g']), (igg_, ['0.02 pM', '0.15 M'], ['0.02 pmol', '0.15 mol']),
                                       (pep_, ['10 pg/L', '9 g/L'], ['20 pg', '18 g']), (pep_, ['5 ng/L', '1 g/L'], ['5 ng', '1 g'])):
                outcomes, said_ = [], ''
                for order in (0, 1):
                    sol_ = [tr_, salt] if order == 0 else [salt, tr_]
                    c_ = concs if order == 0 else concs[::-1]
                    q_ = quants if order == 0 else quants[::-1]
                    res, exc = attempt(lambda: C.create_solution(sol_, water, concentration=c_, quantity=q_))
                    outcomes.append(None if exc is not None else R.measure(res.contents, 'L'))
                    if exc is not None:
                        said_ = 'said_not_determined' if 'do not determine' in str(exc) else 'plain_refusal'
                    if exc is not None and not isinstance(exc, ValueError):
                        viol(['C05', 'C03'], f'C05:refusal_not_ValueError:concentrations_and_quantities:{type(exc).__name__}', {'concentrations': c_, 'quantities': q_})
                if cf.q * cf.mol_prefix > 1e-15:
                    continue        # (coarser mole storage: the trace may be below what is stored)
                if (outcomes[0] is None) != (outcomes[1] is None):
                    which_ = 'trace_first' if outcomes[0] is None else 'trace_last'
                    viol(['C05', 'C03'], f'C05:feasible_request_refused:concentrations_and_quantities:depends_on_the_order_of_the_solutes:{which_}:{said_}',
                         {'concentrations': concs, 'quantities': quants, 'trace_first_L': outcomes[0], 'trace_last_L': outcomes[1]})
                elif outcomes[0] is None:
                    viol(['C05', 'C03'], 'C05:feasible_request_refused:concentrations_and_quantities:consistent', {'concentrations': concs, 'quantities': quants})
            M.bucket(case['prop'] + '/edge/E31_no_room_for_the_solvent')
            glu_ = S.solid('glucose', 180.156)
            for solutes_, kw in [(glu_, {'quantity': f'{v_} mL', 'total_quantity': f'{v_} mL'}) for v_ in (10, 3, 7, 25, 40, 90)] + \
                                [(salt, {'quantity': f'{v_} kg', 'total_quantity': f'{v_} kg'}) for v_ in (1, 2, 5, 30)] + \
                                [(kcl, {'quantity': f'{v_} g', 'total_quantity': f'{v_} g'}) for v_ in (1, 6, 11, 250, 700)] + \
                                [([salt, kcl], {'quantity': ['600 kg', '400 kg'], 'total_quantity': '1000 kg'}), ([salt, kcl], {'quantity': ['300 kg', '700 kg'], 'total_quantity': '1000 kg'}),
                                 ([salt, kcl], {'concentration': ['0.1 g/g', '0.9 g/g'], 'total_quantity': '1 kg'}), ([salt, kcl], {'concentration': ['0.25 g/g', '0.75 g/g'], 'total_quantity': '3 kg'}),
                                 ([salt, kcl], {'quantity': ['6 g', '4 g'], 'total_quantity': '10 g'}), ([salt, kcl], {'quantity': ['60 mg', '40 mg'], 'total_quantity': '100 mg'})]:
                res, exc = attempt(lambda: C.create_solution(solutes_, water, **kw))
                if exc is None:
                    viol(['C03', 'C05'], 'C03:no_room_for_the_solvent_accepted', {'kwargs': kw, 'solvent_stored': res.contents.get(water, 0.0)})
                elif not isinstance(exc, ValueError):
                    viol(['C03', 'C05'], f'C03:refusal_not_ValueError:no_room_for_the_solvent:{type(exc).__name__}', {'kwargs': kw})
            # (round 17, fourth wave) ... but a total in activity units says nothing about the solvent, and a solvent that really
            # is 1e-13 of the total is served
            M.bucket(case['prop'] + '/edge/E31_totals_in_activity_units_and_near_neat_mixtures')
            amy_u = S.enzyme('amylase', '100 U/mg')
            for solutes_, kw, want_L in ((amy_u, {'concentration': '0.1 U/mL', 'total_quantity': '10 U'}, 0.1), (amy_u, {'concentration': '10 U/L', 'total_quantity': '100 U'}, 10.0),
                                         ([amy_u, salt], {'concentration': ['0.05 U/mL', '1 M'], 'total_quantity': '100 U'}, 2.0), (amy_u, {'concentration': '5 U/g', 'total_quantity': '1 kU'}, None),
                                         (amy_u, {'concentration': '2 U/mol', 'total_quantity': '50 mU'}, None)):
                res, exc = attempt(lambda: C.create_solution(solutes_, water, **kw))
                if exc is not None:
                    viol(['C05', 'C03'], f'C05:feasible_request_refused:total_in_activity_units:{type(exc).__name__}', {'kwargs': kw, 'exc': repr(exc)[:120]})
                elif want_L is not None and abs(R.measure(res.contents, 'L') - want_L) > 1e-3 * want_L:
                    viol(['C05'], 'C05:stated_value_not_met:total_in_activity_units', {'kwargs': kw, 'got_L': R.measure(res.contents, 'L'), 'want_L': want_L})
            for sol_, q_, t_, share in ((glu_, '999.9999999995 kg', '1000 kg', 5e-13), (eth, '999.999999999 L', '1000 L', 1e-12), (salt, '249.999999999975 mol', '250 mol', 1e-13), (glu_, '9.99999999 g', '10 g', 1e-9)):
                res, exc = attempt(lambda: C.create_solution(sol_, water, quantity=q_, total_quantity=t_))
                v_, b_ = R.parse_quantity(t_)
                want_w = share * v_ / R.per(water, b_)           # mol of water
                if want_w / cf.mol_prefix < 1e3 * cf.q:
                    continue        # (the solvent is below what the mole storage unit resolves)
                if exc is not None:
                    viol(['C05', 'C03'], f'C05:feasible_request_refused:near_neat_mixture:{type(exc).__name__}', {'quantity': q_, 'total': t_, 'solvent_share': share, 'exc': repr(exc)[:120]})
                else:
                    got_w = R.canon(water, res.contents.get(water, 0.0))
                    if abs(got_w - want_w) > 0.05 * want_w:
                        viol(['C05'], 'C05:total_quantity_not_met:near_neat_mixture', {'quantity': q_, 'total': t_, 'water_mol': got_w, 'expected_mol': want_w})
            M.bucket(case['prop'] + '/edge/E31_a_trace_in_moles_next_to_a_dilute_enzyme')
            amy50, lip3 = S.enzyme('amylase', '50 U/mg'), S.enzyme('lipase', '3 U/ug')
            for enz_, concs, tot in ((amy50, ['1 pg/kg', '10 kU/kg'], '1 kL'), (lip3, ['1 pg/kg', '100 kU/mol'], '10 kg'), (amy50, ['1 pM', '20 U/g'], '100 kg')):
                res, exc = attempt(lambda: C.create_solution([salt, enz_], water, concentration=concs, total_quantity=tot))
                if exc is None and res.contents.get(salt, 0.0) > 1e3 * cf.q:
                    v, num, den = R.parse_concentration(concs[0])
                    got = R.concentration(res.contents, salt, num, den)
                    if abs(got - v) > 2e-3 * v:
                        viol(['C05', 'C03'], 'C05:stated_concentration_not_met:trace_next_to_a_dilute_enzyme', {'concentrations': concs, 'total': tot, 'got': got, 'want': v, 'unit': f'{num}/{den}'})
            M.bucket(case['prop'] + '/edge/E31_per_unit_of_activity_with_an_enzyme_in_the_solvent_container')
            stock = C('lipase stock', initial_contents=[(water, '1 L'), (lipa, '2000 U')])
            res, exc = attempt(lambda: C.create_solution([amyl, salt], stock, concentration=['0.5 U/mL', '1 mmol/U'], total_quantity='10 mL'))
            if exc is None:
                new = res[1]
                tot_u = sum(a_ for s_, a_ in new.contents.items() if s_.is_enzyme())
                got = R.canon(salt, new.contents.get(salt, 0.0)) / tot_u if tot_u else float('inf')
                if abs(got - 1e-3) > 1e-6:
                    viol(['C05', 'C03'], 'C05:stated_value_not_met:per_unit_of_activity_with_an_enzyme_in_the_solvent_container', {'stated_mol_per_U': 1e-3, 'got': got})
            elif not isinstance(exc, ValueError):
                viol(['C05', 'C03'], f'C05:refusal_not_ValueError:per_U_with_enzyme_solvent:{type(exc).__name__}', {'exc': repr(exc)[:100]})
            M.note_nontrivial(case['prop'], ('E31', idx))
        elif fam == 31:
            # ---- E32
            M.bucket(case['prop'] + '/edge/E32_a_selection_of_no_wells')
            stock = C('stock', '10 mL', [(water, '5 mL')])
            plate = pp.Plate('plate', '100 uL', rows=2, columns=3)
            for label, sel in (('empty_list', lambda: plate[[]]), ('list_sliced_to_nothing', lambda: plate[['A:1', 'A:2']][2:])):
                target, exc = attempt(sel)
                if exc is not None:
                    continue
                res, exc = attempt(lambda: pp.Plate.transfer(stock, target, '1 uL'))
                if exc is None and (res[0] is stock or res[1] is plate):
                    viol(['C04'], 'C04:returned_object_is_the_argument_itself:transfer_into_no_wells', {'selection': label, 'source': res[0] is stock, 'plate': res[1] is plate})
            waste = C('waste')
            e_, exc_e = attempt(lambda: C.transfer(plate[[]], waste, '5 uL'))
            r = pp.Recipe().uses(plate, waste)
            b_, exc_b = attempt(lambda: (r.transfer(plate[[]], waste, '5 uL'), r.bake())[1])
            if (exc_e is None) != (exc_b is None):
                viol(['C08'], 'C08:bake_and_eager_disagree:transfer_out_of_no_wells', {'eager': repr(exc_e)[:100], 'bake': repr(exc_b)[:100]})
            _, exc = attempt(lambda: plate[[]].get_substances())
            if exc is not None:
                viol(['C10', 'C08'], f'C10:get_substances_raised:{type(exc).__name__}:no_wells', {'exc': repr(exc)[:100]})
            M.bucket(case['prop'] + '/edge/E32_recipe_create_solution_like_the_eager_call')
            suc = S.solid('sucrose', 342.3)
            eager = C.create_solution([salt, suc], water, concentration=['10 mM', '5 mM'], total_quantity='10 mL')
            r = pp.Recipe()
            made, exc = attempt(lambda: r.create_solution([salt, suc], water, concentration=['10 mM', '5 mM'], total_quantity='10 mL'))
            if exc is None:
                baked, exc = attempt(lambda: r.bake())
                if exc is None and not any(o_ == eager for o_ in baked.values()):
                    viol(['C08'], 'C08:baked_container_not_equal_to_the_eager_one:default_name', {'eager_name': eager.name, 'baked_names': [o_.name for o_ in baked.values()]})
            for label, kw in (('quantity_None', {'concentration': '1 M', 'quantity': None, 'total_quantity': '10 mL'}), ('name_empty', {'concentration': '1 M', 'total_quantity': '10 mL', 'name': ''})):
                _, exc_e = attempt(lambda: C.create_solution(salt, water, **kw))
                r = pp.Recipe()
                _, exc_b = attempt(lambda: (r.create_solution(salt, water, **kw), r.bake()))
                if (exc_e is None) != (exc_b is None):
                    viol(['C08'], f'C08:bake_and_eager_disagree:create_solution:{label}', {'eager': repr(exc_e)[:100], 'recipe': repr(exc_b)[:100]})
            M.bucket(case['prop'] + '/edge/E32_plate_observers_dimension_default_and_duplicates')
            brine = C('brine', initial_contents=[(water, '10 mL'), (salt, '2 mmol')])
            _, filled = pp.Plate.transfer(brine, pp.Plate('p', '2 mL', rows=2, columns=3), rng.choice(['1 mL', '0.5 mL']))
            import numpy as _np
            vdu = cf.volume_display_unit() if callable(getattr(cf, 'volume_display_unit', None)) else getattr(cf, 'volume_display_unit', 'uL')
            res, exc = attempt(lambda: (filled.get_volume(), filled.get_volume(vdu), float(_np.sum(filled.get_volumes()))))
            if exc is None and (abs(res[0] - res[1]) > 1e-9 * abs(res[1]) or abs(res[0] - res[2]) > 1e-6 * abs(res[2]) + 1e-3):
                viol(['C10', 'C18'], 'C10:plate_get_volume_default_unit_is_not_the_configured_one', {'configured': vdu, 'default_answer': res[0], 'in_configured_unit': res[1], 'sum_of_get_volumes': res[2]})
            once, e1 = attempt(lambda: filled.get_moles([salt], 'umol'))
            twice, e2 = attempt(lambda: filled.get_moles([salt, salt], 'umol'))
            if e1 is None and e2 is None and not _np.allclose(once, twice, rtol=1e-12):
                viol(['C10'], 'C10:a_substance_listed_twice_is_counted_twice', {'once': _np.asarray(once).tolist()[0], 'twice': _np.asarray(twice).tolist()[0]})
            for label, fn in (('get_moles_in_L', lambda: filled.get_moles(salt, 'L')), ('get_volumes_in_mol', lambda: filled.get_volumes(salt, 'mol')), ('get_moles_in_g', lambda: filled[:].get_moles(salt, 'mg'))):
                res, exc = attempt(fn)
                if exc is None and float(_np.sum(res)) > 0:
                    viol(['C10', 'C06'], f'C10:answered_in_another_dimension:{label}', {'answer': _np.asarray(res).tolist()[0]})
            M.bucket(case['prop'] + '/edge/E32_a_malformed_quantity_for_no_wells')
            plate0 = pp.Plate('plate', '100 uL', rows=2, columns=3)
            for label, fn in (('transfer_into', lambda: pp.Plate.transfer(stock, plate0[[]], '5 parsecs')), ('transfer_out_of', lambda: C.transfer(plate0[[]], stock, '-3 M')),
                              ('transfer_out_of_rectangle', lambda: C.transfer(plate0[:][0:0], stock, 'lots')), ('fill_to', lambda: plate0[[]].fill_to(water, 'lots')),
                              ('fill_to_negative', lambda: plate0[[]].fill_to(water, '-5 uL')), ('transfer_negative', lambda: pp.Plate.transfer(stock, plate0[[]], '-1 uL'))):
                _, exc_m = attempt(fn)
                if exc_m is None or not isinstance(exc_m, (ValueError, TypeError)):
                    viol(['C14', 'C03'], f'C14:malformed_quantity_accepted:{label}:no_wells', {'exc': repr(exc_m)[:100]})
            M.bucket(case['prop'] + '/edge/E32_a_rectangular_selection_of_no_wells')
            plate2 = pp.Plate('plate', '100 uL', rows=2, columns=3)
            for label, fn in (('transfer_into', lambda: pp.Plate.transfer(stock, plate2[:][0:0], '1 uL')), ('transfer_out_of', lambda: C.transfer(plate2[:][0:0], stock, '1 uL')),
                              ('fill_to', lambda: plate2[:][0:0].fill_to(water, '60 uL')), ('remove', lambda: plate2[:][0:0].remove())):
                _, exc_r = attempt(fn)
                if exc_r is not None:
                    viol(['C03', 'C07', 'C08'], f'C03:request_on_no_wells_refused:{label}:{type(exc_r).__name__}', {'exc': repr(exc_r)[:100], 'note': 'the same request on plate[[]] is carried out'})
            M.bucket(case['prop'] + '/edge/E32_micro_spelt_either_way')
            _, pl3 = pp.Plate.transfer(brine, pp.Plate('p', '100 uL', rows=1, columns=2), '10.26 uL')
            for label, fa, fb in (('get_volumes', lambda: pl3.get_volumes(unit='uL'), lambda: pl3.get_volumes(unit='\u00b5L')), ('get_volume', lambda: pl3.get_volume('uL'), lambda: pl3.get_volume('\u00b5L')),
                                  ('get_moles', lambda: pl3.get_moles(salt, 'umol'), lambda: pl3.get_moles(salt, '\u00b5mol'))):
                a_, ea = attempt(fa)
                b_, eb = attempt(fb)
                if ea is None and eb is None and not _np.allclose(a_, b_, rtol=0, atol=0):
                    viol(['C10', 'C14'], f'C10:answer_depends_on_how_micro_is_spelt:{label}', {'u': _np.asarray(a_).tolist(), 'micro_sign': _np.asarray(b_).tolist()})
            M.bucket(case['prop'] + '/edge/E32_concentration_per_nothing')
            enz_only = C('e', initial_contents=[(S.enzyme('amylase', '10 U/mg'), '5 U')])
            for label, fn in (('enzyme_only_per_mole', lambda: enz_only.get_concentration(list(enz_only.contents)[0], 'U/mol')), ('no_enzyme_per_U', lambda: brine.get_concentration(salt, 'mol/U')),
                              ('dry_solid_per_litre', lambda: C('d', initial_contents=[(salt, '1 g')]).get_concentration(salt, 'M'))):
                _, exc_c = attempt(fn)
                if exc_c is not None and not isinstance(exc_c, ValueError):
                    viol(['C10', 'C03'], f'C10:get_concentration_raised:{type(exc_c).__name__}:{label}', {'exc': repr(exc_c)[:100]})
            M.note_nontrivial(case['prop'], ('E32', idx))
