"""Directed edge workloads (round 9): input classes at the rim of several properties that the random generators reach rarely or
never - each with an explicit expectation, run under the monitors like everything else.  One job kind ('edges') shared by the
checks of C03, C05, C06, C08, C11, C12 and C14; violations carry the tags of every property they contradict, the driver keeps
those of the property being checked.

Families
  E1  dilute that fills the vessel exactly to its capacity (round numbers)                       must be accepted   C03 C11
  E2  the concentration of the pure solute as a dilution target (100 %, 1 mol/mol, M in g/mol)    ValueError         C03 C11
  E3  create_solution with the solute as its own solvent / already in the solvent container       ValueError, or every stated value met   C05 C03
  E4  a negative amount of >= 1e4 storage quanta that is tiny in base units ('-0.00004 uL')       ValueError         C03
  E5  an infinite amount (initial contents, fill_to target, total quantity)                       ValueError         C03 C05 C11
  E6  a recipe dilute step that needs no solvent (first member of a dilution series)              bake = eager       C08 C03 C11
  E7  a recipe fill_to exactly to capacity with a solvent of large molar volume                   bake = eager       C08 C03
  E8  an enzyme diluted to one concentration spelt in U, g or L per volume                        same result        C11 C14
  E9  create_solution_from at the stock's own concentration (no solvent needed)                   accepted           C12 C03
  E10 create_solution_from with an enzyme solute (U/mL, mg/mL met; a molar target refused)        FROM monitor       C12
  E11 two lots of one enzyme (same name, different specific activity) in one container / transfer  masses add up      C06 C02
"""
from __future__ import annotations

import math


def edges(rng, case, idx):
    import pyplate.pyplate as pp
    from pv import refmodel as R
    from pv.monitors import M
    S, C = pp.Substance, pp.Container
    cf = R.cfg()
    water = S.liquid('H2O', 18.0153, 1)
    dmso = S.liquid('DMSO', 78.13, 1.1004)
    eth = S.liquid('EtOH', 46.07, 0.789)
    tween = S.liquid('tween20', 1227.54, 1.1)
    salt = S.solid('NaCl', 58.4428)
    kcl = S.solid('KCl', 74.5513)

    def viol(props, mech, detail):
        M.violate(props, 'EDGE', mech, detail)

    def attempt(fn):
        try:
            return fn(), None
        except Exception as e:   # noqa
            from pv.monitors import MonitorBug, InjectedFault
            if isinstance(e, (MonitorBug, InjectedFault)):
                raise
            return None, e

    fam = idx % 11
    M.count('EDGE')
    with M.active(case):
        if fam == 0:
            # ---- E1
            for k_ in range(12):
                v = rng.choice([4, 10, 25, 50, 100, 200, 400, 500, 1000, 2000, 5000, 14000])
                pct = rng.choice([50, 25, 10, 5, 20, 40])
                sub = rng.choice([dmso, eth])
                cap = f'{v * 100 // pct} uL' if (v * 100) % pct == 0 else f'{v * 100 / pct} uL'
                M.bucket(case['prop'] + '/edge/E1_dilute_exactly_to_capacity')
                c = C('v', cap, [(sub, f'{v} uL')])
                res, exc = attempt(lambda: c.dilute(sub, f'{pct} %v/v', water))
                if exc is not None:
                    viol(['C03', 'C11'], f'C03:dilute_exactly_to_capacity_refused:{type(exc).__name__}',
                         {'container': f'{v} uL of {sub.name} in a {cap} vessel', 'target': f'{pct} %v/v', 'exc': repr(exc)[:160]})
                else:
                    M.note_nontrivial(case['prop'], ('E1', v, pct, sub.name))
        elif fam == 1:
            # ---- E2
            brine = C('b', '1 L', [(water, '100 mL'), (salt, '5 g')])
            mix = C('m', '1 L', [(water, '10 mL'), (eth, '10 mL')])
            for cont, sol, target in ((brine, salt, '100 %w/w'), (mix, eth, '100 %v/v'), (mix, eth, '1 mol/mol'), (brine, salt, '58.4428 g/mol'),
                                      (mix, eth, '0.789 g/mL'), (brine, salt, '100.0 %w/w')):
                M.bucket(case['prop'] + '/edge/E2_concentration_of_the_pure_solute')
                res, exc = attempt(lambda: cont.dilute(sol, target, water))
                if exc is None or not isinstance(exc, ValueError):
                    viol(['C03', 'C11'], 'C03:unreachable_concentration:dilute:' + ('accepted' if exc is None else type(exc).__name__),
                         {'target': target, 'solute': sol.name, 'exc': repr(exc)[:160]})
                r = pp.Recipe().uses(cont)
                _, exc = attempt(lambda: (r.dilute(cont, sol, target, water), r.bake()))
                if exc is None or not isinstance(exc, ValueError):
                    viol(['C03', 'C11', 'C08'], 'C03:unreachable_concentration:Recipe.dilute:' + ('accepted' if exc is None else type(exc).__name__),
                         {'target': target, 'solute': sol.name, 'exc': repr(exc)[:160]})
                r = pp.Recipe().uses(cont)
                _, exc = attempt(lambda: (r.create_solution_from(cont, sol, target, water, '1 mL'), r.bake()))
                if exc is None or not isinstance(exc, ValueError):
                    viol(['C03', 'C12', 'C08'], 'C03:unreachable_concentration:Recipe.create_solution_from:' + ('accepted' if exc is None else type(exc).__name__),
                         {'target': target, 'solute': sol.name, 'exc': repr(exc)[:160]})
                M.note_nontrivial(case['prop'], ('E2', target))
        elif fam == 2:
            # ---- E3 (the SOLN monitor judges an accepted call: every stated value, in the solution as a whole)
            M.bucket(case['prop'] + '/edge/E3_solute_in_its_own_solvent')
            for sol, target in ((dmso, '10 %v/v'), (water, '0.5 mol/mol'), (eth, '20 %w/w')):
                res, exc = attempt(lambda: C.create_solution(sol, sol, concentration=target, total_quantity='10 mL'))
                if exc is None:
                    got = R.concentration(res.contents, sol, *R.parse_concentration(target)[1:])
                    viol(['C05', 'C03'], 'C05:solute_as_its_own_solvent_accepted', {'solute': sol.name, 'stated': target, 'got_in_base_units': got})
                elif not isinstance(exc, ValueError):
                    viol(['C05', 'C03'], f'C05:refusal_not_ValueError:solute_as_its_own_solvent:{type(exc).__name__}', {'exc': repr(exc)[:160]})
            conc0 = rng.choice(['1 M', '0.5 M', '2 M'])
            brine = C.create_solution(salt, water, concentration=conc0, total_quantity='100 mL')
            for kw in ({'concentration': rng.choice(['2 M', '0.5 M', '1.5 M', '3 M']), 'total_quantity': '10 mL'},
                       {'quantity': '1 g', 'total_quantity': '10 mL'}, {'concentration': '1 M', 'quantity': '0.5 g'}):
                M.bucket(case['prop'] + '/edge/E3_solute_already_in_the_solvent_container')
                res, exc = attempt(lambda: C.create_solution(salt, brine, **kw))
                if exc is not None and not isinstance(exc, ValueError):
                    viol(['C05', 'C03'], f'C05:refusal_not_ValueError:solute_in_solvent_container:{type(exc).__name__}', {'kwargs': kw, 'exc': repr(exc)[:160]})
                if exc is None:
                    _, new = res
                    problems = []
                    if 'concentration' in kw:
                        cv, num, den = R.parse_concentration(kw['concentration'])
                        got = R.concentration(new.contents, salt, num, den)
                        if abs(got - cv) > 1e-4 * cv:
                            problems.append(('concentration', kw['concentration'], got))
                    if 'quantity' in kw:
                        qv, qb = R.parse_quantity(kw['quantity'])
                        got = R.canon(salt, new.contents.get(salt, 0.0)) * R.per(salt, qb)
                        if abs(got - qv) > 1e-4 * qv:
                            problems.append(('quantity', kw['quantity'], got))
                    if 'total_quantity' in kw:
                        tv, tb = R.parse_quantity(kw['total_quantity'])
                        got = R.measure(new.contents, tb)
                        if abs(got - tv) > 1e-4 * tv:
                            problems.append(('total', kw['total_quantity'], got))
                    if problems:
                        viol(['C05', 'C03'], 'C05:stated_value_not_met:solvent_container_already_holds_the_solute:' + problems[0][0],
                             {'solvent_container': conc0 + ' NaCl in water', 'kwargs': kw, 'problems': problems})
                M.note_nontrivial(case['prop'], ('E3', conc0, repr(kw)))
        elif fam == 3:
            # ---- E4
            for sub, q in ((water, '-0.00004 uL'), (water, '-0.00004 umol'), (salt, '-0.04 ng'), (salt, '-0.00003 umol'), (dmso, '-0.05 nL'),
                           (water, '-40 pL'), (salt, '-30 pmol')):
                M.bucket(case['prop'] + '/edge/E4_tiny_negative_amount')
                res, exc = attempt(lambda: C('v', '1 mL', [(sub, q)]))
                if exc is None:
                    viol(['C03'], 'C03:negative_quantity_accepted:tiny_in_base_units', {'quantity': q, 'stored': {s_.name: a_ for s_, a_ in res.contents.items()},
                                                                                        'volume': res.volume})
                r = pp.Recipe()
                _, exc = attempt(lambda: (r.create_container('v', '1 mL', [(sub, q)]), r.bake()))
                if exc is None:
                    viol(['C03', 'C08'], 'C03:negative_quantity_accepted:tiny_in_base_units:Recipe.create_container', {'quantity': q})
                M.note_nontrivial(case['prop'], ('E4', q))
        elif fam == 4:
            # ---- E5
            for label, fn in (('initial_contents', lambda: C('a', initial_contents=[(water, 'inf mL')])),
                              ('fill_to', lambda: C('a', initial_contents=[(water, '1 mL')]).fill_to(water, 'inf mL')),
                              ('fill_to_mass', lambda: C('a', initial_contents=[(water, '1 mL')]).fill_to(salt, 'inf g')),
                              ('total_quantity', lambda: C.create_solution(salt, water, concentration='1 M', total_quantity='inf L')),
                              ('solute_quantity', lambda: C.create_solution(salt, water, concentration='1 M', quantity='inf g')),
                              ('create_solution_from', lambda: C.create_solution_from(C('s', initial_contents=[(water, '1 L'), (salt, '1 mol')]), salt, '0.1 M', water, 'inf mL'))):
                M.bucket(case['prop'] + '/edge/E5_infinite_amount')
                res, exc = attempt(fn)
                if exc is None:
                    viol(['C03', 'C05', 'C11'], f'C03:infinite_amount_accepted:{label}', {'result': repr(res)[:160]})
                elif not isinstance(exc, ValueError):
                    viol(['C03'], f'C03:refusal_not_ValueError:infinite_amount:{label}:{type(exc).__name__}', {'exc': repr(exc)[:160]})
                M.note_nontrivial(case['prop'], ('E5', label))
        elif fam == 5:
            # ---- E6
            conc = rng.choice(['1 M', '0.25 M', '2 %w/w', '10 g/L'])
            other = rng.choice([dmso, eth])
            stock = C.create_solution(salt, water, 'stock', concentration=conc, total_quantity='10 mL')
            M.bucket(case['prop'] + '/edge/E6_recipe_dilute_that_needs_no_solvent')
            eager, exc_e = attempt(lambda: stock.dilute(salt, conc, other))
            r = pp.Recipe().uses(stock)
            baked, exc_b = attempt(lambda: (r.dilute(stock, salt, conc, other), r.bake())[1])
            if (exc_e is None) != (exc_b is None):
                viol(['C08', 'C03', 'C11', 'C15', 'C19'], 'C08:bake_and_eager_disagree:dilute_that_needs_no_solvent:' + type(exc_b or exc_e).__name__,
                     {'eager': repr(exc_e)[:120], 'bake': repr(exc_b)[:120], 'concentration': conc, 'solvent': other.name})
            elif exc_e is None and baked['stock'].contents != eager.contents:
                viol(['C08'], 'C08:bake_result_ne_eager:dilute_that_needs_no_solvent', {'concentration': conc})
            M.note_nontrivial(case['prop'], ('E6', conc, other.name))
        elif fam == 6:
            # ---- E7
            for k_ in range(6):
                v = f'{rng.uniform(0.05, 5):.4f} mL'
                c = C('c', '10 mL', [(water, v)])
                M.bucket(case['prop'] + '/edge/E7_recipe_fill_exactly_to_capacity')
                eager, exc_e = attempt(lambda: c.fill_to(tween, '10 mL'))
                r = pp.Recipe().uses(c)
                baked, exc_b = attempt(lambda: (r.fill_to(c, tween, '10 mL'), r.bake())[1])
                if (exc_e is None) != (exc_b is None):
                    viol(['C08', 'C03'], 'C08:bake_and_eager_disagree:fill_exactly_to_capacity:' + type(exc_b or exc_e).__name__,
                         {'eager': repr(exc_e)[:120], 'bake': repr(exc_b)[:120], 'held': v})
                elif exc_e is None and (baked['c'].contents != eager.contents or baked['c'].instructions != eager.instructions):
                    viol(['C08', 'C19'], 'C08:bake_result_ne_eager:fill_to:' + ('contents' if baked['c'].contents != eager.contents else 'instructions'),
                         {'held': v, 'eager_instructions': eager.instructions[-120:], 'baked_instructions': baked['c'].instructions[-120:]})
                M.note_nontrivial(case['prop'], ('E7', v))
        elif fam == 7:
            # ---- E8
            act = rng.choice([5, 10, 20, 50])
            lip = S.enzyme('lipase', f'{act} U/mg')
            units = rng.choice([0.3, 1.5, 6.0])
            c = C('flask', '1 L', [(water, '9.7 mL'), (lip, f'{units} U')])
            tgt_u = units / 9.7 / rng.choice([2, 5, 10])                  # U/mL (the enzyme's own volume is part of the total)
            spellings = [f'{tgt_u:.6g} U/mL', f'{tgt_u / act:.6g} mg/mL', f'{tgt_u / act * 1000:.6g} mg/L', f'{tgt_u / act / 10:.6g} %w/v']
            outs = []
            M.bucket(case['prop'] + '/edge/E8_enzyme_dilution_spelt_by_activity_mass_or_percent')
            for sp in spellings:
                res, exc = attempt(lambda: c.dilute(lip, sp, water))
                outs.append((sp, exc if exc is not None else res.contents.get(water)))
            vals = [o for _, o in outs if not isinstance(o, Exception)]
            if len(vals) != len(outs) or any(abs(v_ - vals[0]) > 2e-5 * abs(vals[0]) for v_ in vals):
                viol(['C11', 'C14'], 'C14:same_enzyme_concentration_spelt_differently_dilutes_differently',
                     {'calls': [(sp, repr(o)[:100]) for sp, o in outs], 'specific_activity': f'{act} U/mg'})
            M.note_nontrivial(case['prop'], ('E8', act, units))
        elif fam == 8:
            # ---- E9
            ref = 0
            tried = []
            for conc in rng.sample(['30 mM', '0.05 M', '0.1 M', '0.2 M', '0.4 M', '1.5 M', '3 M', '0.1 m', '1 m', '5 %w/w', '10 g/L', '0.25 M', '2 M', '0.7 M', '0.9 M'], 6):
                sub = rng.choice([salt, kcl])
                st = C.create_solution(sub, water, concentration=conc, total_quantity='100 mL')
                M.bucket(case['prop'] + '/edge/E9_solution_from_at_the_stocks_own_concentration')
                M.expect = {'op': 'Container.create_solution_from', 'must': 'accept', 'tag': 'own_concentration'}
                res, exc = attempt(lambda: C.create_solution_from(st, sub, conc, water, '10 mL'))
                M.expect = None
                tried.append((conc, sub.name, repr(exc)[:80] if exc is not None else 'ok'))
                M.note_nontrivial(case['prop'], ('E9', conc, sub.name))
        elif fam == 9:
            # ---- E10
            act = rng.choice([5, 10, 40])
            lip = S.enzyme('lipase', f'{act} U/mg')
            st = C('st', '1 L', [(water, '10 mL'), (lip, '5 U')])
            own = 5 / (10 + 5 / 1000 * R.per(lip, 'L') * 0)          # (about 0.5 U/mL; the exact value is the monitor's business)
            for target, must in ((f'{rng.choice([0.1, 0.05, 0.25])} U/mL', 'accept'), (f'{rng.choice([1, 2, 5]) / act / 100:.6g} mg/mL', 'accept'),
                                 ('1 uM', 'refuse'), ('0.5 mmol/L', 'refuse')):
                M.bucket(case['prop'] + '/edge/E10_solution_from_with_an_enzyme_solute/' + must)
                M.expect = {'op': 'Container.create_solution_from', 'must': must, 'tag': 'enzyme_solute'}
                res, exc = attempt(lambda: C.create_solution_from(st, lip, target, water, '10 mL'))
                M.expect = None
                if must == 'refuse' and exc is not None and not isinstance(exc, ValueError):
                    viol(['C12', 'C03'], f'C12:refusal_not_ValueError:enzyme_solute_in_moles:{type(exc).__name__}', {'target': target, 'exc': repr(exc)[:120]})
                M.note_nontrivial(case['prop'], ('E10', target, act))
        elif fam == 10:
            # ---- E11
            a1, a2 = rng.sample([5, 10, 20, 40, 100], 2)
            la, lb = S.enzyme('lipase', f'{a1} U/mg'), S.enzyme('lipase', f'{a2} U/mg')
            M.bucket(case['prop'] + '/edge/E11_two_lots_of_one_enzyme')
            both, exc = attempt(lambda: C('c', initial_contents=[(la, '1 mg'), (lb, '1 mg')]))
            if exc is None:
                mass = R.measure(both.contents, 'g') * 1000
                if abs(mass - 2.0) > 1e-6:
                    viol(['C06', 'C02', 'C10'], 'C06:two_lots_of_one_enzyme_share_one_entry', {'activities_U_per_mg': [a1, a2], 'mass_reported_mg': mass, 'expected_mg': 2.0,
                                                                                              'contents': [(s_.name, a_) for s_, a_ in both.contents.items()]})
            ca, cb = C('a', initial_contents=[(la, '10 mg')]), C('b', initial_contents=[(lb, '10 mg')])
            res, exc = attempt(lambda: C.transfer(ca, cb, '4 mg'))
            if exc is None:
                gained = R.measure(res[1].contents, 'g') * 1000 - 10.0
                if abs(gained - 4.0) > 1e-6:
                    viol(['C06', 'C02', 'C01'], 'C02:transfer_between_two_lots_of_one_enzyme_moves_another_mass', {'activities_U_per_mg': [a1, a2], 'requested_mg': 4.0, 'gained_mg': gained})
            M.note_nontrivial(case['prop'], ('E11', a1, a2))
