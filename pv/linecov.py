"""Which lines of the library did the workloads of a check actually execute?

A second sys.monitoring tool (COVERAGE_ID; the C04 failpoints use DEBUGGER_ID) records every (file, line) of the pyplate
package that starts executing in a worker; each location reports once and is then disabled, so the cost is one callback per
line per process.  The driver unions the shards and compares with the executable lines of the function bodies (from the
code objects compiled from the working tree's sources, never by importing them): the evidence names the functions a check
never entered and the lines inside entered functions that it never reached.  This decides nothing - it is the part of
"what the monitors observed" that says where the workload did not go.

`python -m pv.linecov report` unions the evidence files of all checks and lists what no check reaches."""
from __future__ import annotations

import json
import os
import sys

_lines = {}          # filename -> set of lines
_root = None


def _on_line(code, line):
    fn = code.co_filename
    if fn.startswith(_root):
        s = _lines.get(fn)
        if s is None:
            s = _lines[fn] = set()
        s.add(line)
    return sys.monitoring.DISABLE


def start(pkgdir):
    """Begin recording for files under pkgdir (the directory of the imported pyplate package)."""
    global _root
    mon = getattr(sys, 'monitoring', None)
    if mon is None:
        return False
    _root = os.path.realpath(pkgdir) + os.sep
    try:
        mon.use_tool_id(mon.COVERAGE_ID, 'pv-linecov')
    except ValueError:
        return False
    mon.register_callback(mon.COVERAGE_ID, mon.events.LINE, _on_line)
    mon.set_events(mon.COVERAGE_ID, mon.events.LINE)
    return True


def collected():
    return {os.path.relpath(fn, _root): sorted(ls) for fn, ls in _lines.items()} if _root else {}


# ---------------------------------------------------------------- driver side

def executable_lines(pkgdir):
    """{relative file: {qualified function name: sorted executable lines of its body}} from the sources under pkgdir."""
    out = {}
    for fn in sorted(os.listdir(pkgdir)):
        if not fn.endswith('.py'):
            continue
        path = os.path.join(pkgdir, fn)
        try:
            top = compile(open(path).read(), path, 'exec')
        except SyntaxError:
            continue
        funcs = {}

        def walk(co, inside_function):
            for c in co.co_consts:
                if hasattr(c, 'co_code'):
                    is_fn = bool(c.co_flags & 0x0002) or c.co_name in ('<lambda>', '<listcomp>', '<genexpr>', '<dictcomp>',
                                                                     '<setcomp>')   # CO_NEWLOCALS: a function body
                    if is_fn:
                        name = getattr(c, 'co_qualname', c.co_name)
                        ls = sorted({l for _, _, l in c.co_lines() if l is not None and l != c.co_firstlineno})
                        if ls:
                            funcs.setdefault(name, set()).update(ls)
                    walk(c, inside_function or is_fn)
        walk(top, False)
        out[fn] = {k: sorted(v) for k, v in funcs.items()}
    return out


def _ranges(ls):
    out, start, prev = [], None, None
    for l in ls:
        if start is None:
            start = prev = l
        elif l == prev + 1:
            prev = l
        else:
            out.append(f'{start}-{prev}' if prev != start else f'{start}')
            start = prev = l
    if start is not None:
        out.append(f'{start}-{prev}' if prev != start else f'{start}')
    return out


def summarise(reached, pkgdir):
    """reached: {relative file: iterable of lines}.  -> evidence block."""
    exe = executable_lines(pkgdir)
    files, never, partly = {}, [], {}
    for fn, funcs in exe.items():
        got = set(reached.get(fn) or ())
        n_exe = n_got = 0
        for q, ls in funcs.items():
            # nested functions / lambdas / comprehensions belong to their own entry; count each line once, under the
            # innermost body that owns it
            hit = [l for l in ls if l in got]
            n_exe += len(ls)
            n_got += len(hit)
            if not hit:
                never.append(f'{fn}:{q}')
            elif len(hit) < len(ls):
                partly[f'{fn}:{q}'] = _ranges([l for l in ls if l not in got])
        if n_exe:
            files[fn] = {'executable_lines_in_function_bodies': n_exe, 'reached': n_got}
    return {'files': files, 'functions_never_entered': sorted(never),
            'unreached_lines_in_entered_functions': dict(sorted(partly.items()))}


def _report(verif):
    """Union over the evidence files: what no check reaches."""
    repo = os.environ.get('VERIF_REPO', '/repo')
    pkgdir = os.path.join(repo, 'pyplate')
    exe = executable_lines(pkgdir)
    per = {}
    for fn in sorted(os.listdir(os.path.join(verif, 'evidence'))):
        if not fn.endswith('.json'):
            continue
        ev = json.load(open(os.path.join(verif, 'evidence', fn)))
        lc = (ev.get('coverage') or {}).get('library_lines')
        if lc:
            per[ev['property_id']] = lc
    if not per:
        print('no evidence file carries library_lines')
        return 1
    allq = [f'{f}:{q}' for f, fs in exe.items() for q in fs]
    never_all = [q for q in allq if all(q in lc['functions_never_entered'] for lc in per.values())]
    print(f'checks with line observations: {", ".join(sorted(per))}')
    print(f'functions no check enters ({len(never_all)} of {len(allq)}):')
    for q in never_all:
        print('  ', q)
    print('lines inside entered functions that no check reaches:')
    for q in allq:
        if q in never_all:
            continue
        f, name = q.split(':', 1)
        missing = None
        for lc in per.values():
            if q in lc['functions_never_entered']:
                continue
            un = lc['unreached_lines_in_entered_functions'].get(q)
            s = set()
            for r in un or ():
                a, _, b = r.partition('-')
                s.update(range(int(a), int(b or a) + 1))
            missing = s if missing is None else missing & s
        if missing:
            print(f'   {q}: {",".join(_ranges(sorted(missing)))}')
    return 0


if __name__ == '__main__':
    if sys.argv[1:2] == ['report']:
        sys.exit(_report(os.path.dirname(os.path.dirname(os.path.abspath(__file__)))))
    print(__doc__)
