"""Regenerates /verif/MANIFEST.json from the property modules that exist (developer tool, not a check)."""
from __future__ import annotations

import importlib
import json
import os

VERIF = os.path.dirname(os.path.dirname(os.path.abspath(__file__)))
ALL = [f'C{i:02d}' for i in range(1, 20)]
PY = '/venv/bin/python'


def main():
    checks = []
    na = []
    for pid in ALL:
        try:
            mod = importlib.import_module('pv.props.' + pid.lower())
        except ModuleNotFoundError:
            na.append({'property_id': pid, 'reason': 'check not built yet in this round (planned, see DESIGN.md section 8); '
                                                      'runtime monitoring applies, nothing is claimed until the check exists'})
            continue
        checks.append({
            'property_id': pid,
            'quick_cmd': f'{PY} -m pv.check {pid} --tier quick',
            'thorough_cmd': f'{PY} -m pv.check {pid} --tier thorough',
            'evidence_file': f'/verif/evidence/{pid}.json',
            'replay_cmd_template': f'{PY} -m pv.check {pid} --replay {{path}}',
            'engine': 'pv',
            'level_claimed': {
                'category': mod.LEVEL,
                'text': getattr(mod, 'LEVEL_TEXT', 'held on the executions observed by the runtime monitors: ' + mod.RULE),
                'design_ref': f'DESIGN.md section 8, {pid}',
            },
            'level_note': getattr(mod, 'LEVEL_NOTE', '; '.join(mod.ASSUMPTIONS)),
            'technique': getattr(mod, 'TECHNIQUE', 'runtime monitoring: monitors wrapped around the real pyplate functions, '
                                                   'reference-model oracle over observed calls'),
        })
    man = {
        'version': 1,
        'setup_cmd': f'{PY} -c "import sys; sys.path.insert(0, \'/verif\'); import pv.driver, pv.refmodel; print(\'pv ok\')"',
        'hooks': {
            'guard': 'PYPLATE_VERIF',
            'enable': 'no source hooks: monitors attach at run time by wrapping pyplate\'s class attributes inside the '
                      'worker processes (pv/monitors.py); PYPLATE_VERIF is reserved and unused',
            'baseline_off_cmd': 'cd /repo && /venv/bin/python -m pytest -ra -q -p no:cacheprovider --timeout=900 '
                                '--continue-on-collection-errors',
            'source_commits': [],
            'add_only': True,
        },
        'engines': [{'name': 'pv', 'path': '/verif/pv', 'serves_properties': [c['property_id'] for c in checks],
                     'kind_free_text': 'runtime monitoring: contract/invariant monitors on every call of the real library '
                                       '(incl. nested calls), reference-model oracles, offline history checkers, '
                                       'sys.monitoring failpoints; seeded hostile workloads sharded over 16 processes'}],
        'checks': checks,
        'not_applicable': na,
        'notes': 'Exit codes of every check: 0 held on what was observed (KNOWN-FINDING lines for listed open findings), '
                 '1 VIOLATION (replay file written), 2 INCONCLUSIVE (a deciding monitor saw too little; never on the '
                 'unchanged tree), 3 harness error. Repairs of genuine defects are the "fix:" commits in /repo, listed in '
                 'known_findings.json.',
    }
    with open(os.path.join(VERIF, 'MANIFEST.json'), 'w') as f:
        json.dump(man, f, indent=1)
    print('checks:', [c['property_id'] for c in checks], 'n/a:', [n['property_id'] for n in na])


if __name__ == '__main__':
    main()
