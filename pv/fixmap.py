"""Developer tool: after /repo's fix commits were rebuilt, re-point the 'fixed' entries of known_findings.json
at the commits of the current main that carry the same subject line."""
import json, subprocess
def sh(*a): return subprocess.check_output(a, text=True).strip()
kf = json.load(open('/verif/known_findings.json'))
now = {}
for line in sh('git', '-C', '/repo', 'log', '--format=%h\t%s', 'main').splitlines():
    h, s = line.split('\t', 1)
    now[s] = h
for e in kf['fixed']:
    subj = e.get('subject') or sh('git', '-C', '/repo', 'log', '-1', '--format=%s', e['commit'])
    e['subject'] = subj
    new = now[subj]
    if new != e['commit']:
        e['line'] = e['line'].replace(e['commit'], new)
        e['commit'] = new
json.dump(kf, open('/verif/known_findings.json', 'w'), indent=1)
listed = {e['commit'] for e in kf['fixed']}
for s, h in now.items():
    if s.startswith('fix:') and h not in listed:
        print('NOT LISTED:', h, s)
print(len(kf['fixed']), 'fixed entries')
