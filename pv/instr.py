"""INSTR (C19): instruction lines are parsed back with a tolerant token parser and compared with the
actual deltas at the displayed precision.  Rewording does not matter; a wrong, missing or mis-scaled
amount, or a wrong object name, does."""
from __future__ import annotations

import re

from . import refmodel as R
from .monitors import M

TOKEN = re.compile(r'(?<![\w.])([+-]?(?:\d+(?:\.\d*)?|\.\d+)(?:[eE][+-]?\d+)?)\s+(da|p|n|u|µ|m|c|d|k|M)?(mol|g|L|U)(?![A-Za-z])')


def tokens(text):
    """-> list of (value, prefix, base, end_index)"""
    out = []
    for m in TOKEN.finditer(text):
        out.append((float(m.group(1)), m.group(2) or '', m.group(3), m.end()))
    return out


def by_base(delta):
    """delta: dict substance -> stored-amount delta; -> totals per base unit."""
    return {b: R.measure(delta, b) for b in R.BASES}


def token_matches(tok, actual, extra_abs=0.0):
    v, p, b, _ = tok
    unit = p + b
    prec = R.cfg().precision(unit)
    # half a unit of the displayed precision, plus the intermediate rounding to q in *base* units that the
    # library applies before rescaling (double rounding can exceed the half unit by that much)
    tol = (0.5 * 10.0 ** (-prec) + 1e-9 * abs(v)) * R.PREFIX[p] + extra_abs + 1e-12 * abs(actual.get(b, 0.0)) \
        + R.K * R.cfg().q
    return abs(v * R.PREFIX[p] - actual.get(b, 0.0)) <= tol


def any_token_matches(text, actual, need_positive=True):
    toks = tokens(text)
    for t in toks:
        if t[2] in actual and (actual[t[2]] != 0 or not need_positive) and token_matches(t, actual):
            return True, toks
        if t[2] in actual and actual[t[2]] == 0 and t[0] == 0 and not any(actual.values()):
            return True, toks      # ('0.0 L' states that nothing was added; of 4 g of a solid without volume it states nothing)
    return False, toks


def new_part(before_text, after_text):
    if before_text and after_text.startswith(before_text):
        return after_text[len(before_text):]
    return after_text.splitlines()[-1] if after_text else ''


def magnitude_bucket(x):
    import math
    if not (x > 0) or math.isinf(x):
        return 'zero'
    return f'1e{int(math.floor(math.log10(x)))}'


def _noise(delta):
    """Storage-quantum effect on each base: used as extra slack."""
    return {b: sum(abs(R.stored_quantum_in(s, b)) for s in delta) * R.K for b in R.BASES}


def check_transfer(src, dst, quantity, result):
    s2, d2 = result
    M.count('INSTR.transfer')
    line = new_part(dst.instructions or '', d2.instructions or '')
    delta = {s: d2.contents.get(s, 0.0) - dst.contents.get(s, 0.0) for s in d2.contents}
    actual = by_base(delta)
    has_liquid = any(R.kind(s) == 'liquid' for s in src.contents)
    ok, toks = any_token_matches(line, actual)
    vol_uL = actual['L'] * 1e6
    kindkey = 'liquid' if has_liquid else 'no_liquid'
    M.bucket(f'C19/transfer/{kindkey}/' + magnitude_bucket(actual['L'] if has_liquid else actual['g']))
    if not toks:
        M.violate(['C19'], 'INSTR', f'C19:transfer_line_has_no_amount:{kindkey}', {'line': line, 'quantity': quantity})
        return
    if not ok:
        small = has_liquid and 0 < vol_uL < 1
        M.violate(['C19'], 'INSTR', f'C19:transfer_amount_wrong:{kindkey}' + (':below_1uL' if small else ''),
                  {'line': line, 'quantity': quantity, 'actual_delta_base_units': actual,
                   'source': {s.name: a for s, a in src.contents.items()}})
    if src.name not in line or dst.name not in line:
        M.violate(['C19'], 'INSTR', 'C19:transfer_line_names_wrong_objects',
                  {'line': line, 'source': src.name, 'destination': dst.name})
    if ok:
        M.note_nontrivial('C19', ('t', line))
        M.sample('C19', {'line': line, 'actual_delta_base_units': actual})


def check_fill(c, solvent, quantity, result):
    M.count('INSTR.fill_to')
    line = new_part(c.instructions or '', result.instructions or '')
    delta = {solvent: result.contents.get(solvent, 0.0) - c.contents.get(solvent, 0.0)}
    actual = by_base(delta)
    ok, toks = any_token_matches(line, actual)
    M.bucket('C19/fill_to/' + magnitude_bucket(actual['L']))
    if not ok:
        M.violate(['C19'], 'INSTR', 'C19:fill_amount_wrong' + (':below_1uL' if 0 < actual['L'] * 1e6 < 1 else ''),
                  {'line': line, 'quantity': quantity, 'actual_solvent_added_base_units': actual})
    elif solvent.name not in line:
        M.violate(['C19'], 'INSTR', 'C19:fill_line_names_wrong_solvent', {'line': line, 'solvent': solvent.name})
    else:
        M.note_nontrivial('C19', ('f', line))


def check_dilute(c, solvent, result):
    M.count('INSTR.dilute')
    line = new_part(c.instructions or '', result.instructions or '')
    added = result.contents.get(solvent, 0.0) - c.contents.get(solvent, 0.0)
    if added == 0 and not line.strip():
        return
    actual = by_base({solvent: added})
    ok, toks = any_token_matches(line, actual)
    M.bucket('C19/dilute/' + magnitude_bucket(actual['L']))
    if not ok:
        M.violate(['C19'], 'INSTR', 'C19:dilute_amount_wrong' + (':below_1uL' if 0 < actual['L'] * 1e6 < 1 else ''),
                  {'line': line, 'actual_solvent_added_base_units': actual})
    elif solvent.name not in line:
        M.violate(['C19'], 'INSTR', 'C19:dilute_line_names_wrong_solvent', {'line': line, 'solvent': solvent.name})
    else:
        M.note_nontrivial('C19', ('d', line))


def _per_substance(text, contents, where, extra=None):
    """Every substance with a non-zero amount must be named with a matching amount."""
    bad = None
    for s, a in contents.items():
        if a == 0:
            continue
        actual = by_base({s: a})
        found = False
        mentions = []
        for m in re.finditer(re.escape(' of ' + s.name) + r'(?![\w])', text):
            head = text[:m.start()]
            toks = tokens(head)
            if toks and toks[-1][3] == len(head):
                mentions.append(toks[-1])
        same_name = [s2 for s2, a2 in contents.items() if a2 != 0 and s2.name == s.name]
        if len(same_name) > 1:
            # two lots of one enzyme (same name, another specific activity) are two substances: each has its own mention -
            # this one's amount must be one of them (and there must be a mention for every lot)
            found = len(mentions) >= len(same_name) and any(token_matches(t_, actual, 0.0) for t_ in mentions)
        elif len(mentions) == 1:
            found = token_matches(mentions[0], actual, 0.0)
        elif len(mentions) > 1 and len({t_[2] for t_ in mentions}) == 1:
            # several amounts "of" the same substance are portions: a reader adds them up
            b_ = mentions[0][2]
            total_ = sum(t_[0] * R.PREFIX[t_[1]] for t_ in mentions)
            slack_ = sum((0.5 * 10.0 ** (-R.cfg().precision(t_[1] + t_[2])) + 1e-9 * abs(t_[0])) * R.PREFIX[t_[1]] for t_ in mentions)
            found = abs(total_ - actual.get(b_, 0.0)) <= slack_ + R.K * R.cfg().q * len(mentions) + 1e-12 * abs(actual.get(b_, 0.0))
        if not found:
            bad = (s.name, actual)
    M.bucket(f'C19/{where}/' + ('ok' if not bad else 'bad'))
    return bad


def check_ctor(c, entries, total):
    if not entries:
        return
    M.count('INSTR.ctor')
    text = c.instructions or ''
    bad = _per_substance(text, c.contents, 'ctor')
    if bad:
        M.violate(['C19'], 'INSTR', 'C19:constructor_amount_wrong',
                  {'instructions': text, 'substance': bad[0], 'actual_base_units': bad[1]})
    else:
        M.note_nontrivial('C19', ('c', text))
    import math
    if math.isfinite(c.max_volume):
        capL = c.max_volume * R.cfg().vol_prefix
        m = re.search(r'to a (.*) container', text)
        toks = tokens(m.group(1) + ' ') if m else []
        if not toks or not token_matches(toks[-1], {'L': capL}):
            M.violate(['C19'], 'INSTR', 'C19:constructor_capacity_wrong', {'instructions': text, 'capacity_L': capL})


def check_create_solution(solutes, solvent, res, solv_after=None):
    import pyplate.pyplate as pp
    M.count('INSTR.create_solution')
    text = res.instructions or ''
    listed = text
    if isinstance(solvent, pp.Container):
        contents = {s: a for s, a in res.contents.items() if s in solutes and s not in solvent.contents}
        # "Add <solutes> to <amount> of <solvent container>": the solutes are listed before the last " to " (the container may
        # carry the name of a substance)
        listed = text.rsplit(' to ', 1)[0] if ' to ' in text else text
    else:
        contents = res.contents
    bad = _per_substance(listed, contents, 'create_solution')
    if bad:
        M.violate(['C19'], 'INSTR', 'C19:create_solution_amount_wrong',
                  {'instructions': text, 'substance': bad[0], 'actual_base_units': bad[1]})
    else:
        M.note_nontrivial('C19', ('s', text))
    if isinstance(solvent, pp.Container) and isinstance(solv_after, pp.Container):
        # "... to <amount> of <solvent container>": the amount is what was actually drawn from that container
        M.count('INSTR.create_solution.container_solvent')
        drawn = {s_: solvent.contents.get(s_, 0.0) - solv_after.contents.get(s_, 0.0) for s_ in solvent.contents}
        actual = by_base(drawn)
        found = None
        for m in re.finditer(re.escape(' of ' + solvent.name), text):
            head = text[:m.start()]
            toks = tokens(head)
            if toks and toks[-1][3] == len(head):
                found = toks[-1]
        M.bucket('C19/create_solution/container_solvent/' + magnitude_bucket(actual['L']))
        if found is None:
            M.violate(['C19'], 'INSTR', 'C19:create_solution_solvent_container_amount_missing',
                      {'instructions': text, 'solvent': solvent.name, 'drawn_base_units': actual})
        elif not token_matches(found, actual, _noise(drawn).get(found[2], 0.0) + abs(actual.get(found[2], 0.0)) * _container_solvent_relres(solvent)):
            M.violate(['C19'], 'INSTR', 'C19:create_solution_solvent_container_amount_wrong',
                      {'instructions': text, 'solvent': solvent.name, 'stated': list(found[:3]), 'drawn_base_units': actual,
                       'solvent_before': {'volume': solvent.volume, 'contents': {s_.name: a_ for s_, a_ in solvent.contents.items()}},
                       'solvent_after': {'volume': solv_after.volume, 'contents': {s_.name: a_ for s_, a_ in solv_after.contents.items()}}})


def _container_solvent_relres(solvent):
    """create_solution reads a solvent container through observers that round to 10^-precision in *mol* and in *mL*
    (DESIGN.md section 15, item 4): what it draws - and states - carries these relative quanta."""
    q = R.cfg().q
    mol = R.measure(solvent.contents, 'mol')
    mL = R.measure(solvent.contents, 'L') * 1e3
    return 2 * ((q / mol if mol > 0 else 0.0) + (q / mL if mL > 0 else 0.0))


def check_solution_from(source, solvent, src_after, new):
    import pyplate.pyplate as pp
    M.count('INSTR.create_solution_from')
    text = new.instructions or ''
    taken = {s: source.contents.get(s, 0.0) - src_after.contents.get(s, 0.0) for s in source.contents}
    a_src = by_base(taken)
    rest = {s: new.contents.get(s, 0.0) - taken.get(s, 0.0) for s in new.contents}
    a_solv = by_base(rest)
    toks = tokens(text)
    ok_src = any(token_matches(t, a_src) for t in toks)
    ok_solv = any(token_matches(t, a_solv) for t in toks)
    M.bucket('C19/create_solution_from/' + ('ok' if ok_src and ok_solv else 'bad'))
    if not (ok_src and ok_solv):
        M.violate(['C19'], 'INSTR', 'C19:solution_from_amount_wrong:' + ('source' if not ok_src else 'solvent'),
                  {'instructions': text, 'source_aliquot_base_units': a_src, 'solvent_added_base_units': a_solv})
    elif source.name not in text or solvent.name not in text:
        M.violate(['C19'], 'INSTR', 'C19:solution_from_names_wrong', {'instructions': text})
    else:
        M.note_nontrivial('C19', ('sf', text))


def check_dataframe(c):
    """Container.dataframe() (also behind repr() and the notebook display): every cell 'value unit' of a substance row and
    of the Total row states the true amount in that dimension at the displayed precision; '-' only where the substance has
    no such measure (moles of an enzyme, activity of anything else).  The 'Maximum Volume' cell states the capacity - a
    quantity, so a number with its unit (or the infinity sign for a vessel without one)."""
    M.count('INSTR.dataframe')
    with M.oracle():
        try:
            df = c.dataframe()
        except Exception as e:   # noqa
            M.violate(['C19'], 'INSTR', f'C19:dataframe_raised:{type(e).__name__}', {'container': c.name, 'exc': repr(e)[:200]})
            return
    cols = {'Volume': 'L', 'Mass': 'g', 'Moles': 'mol', 'U': 'U'}
    rows = [(s_.name, {s_: a_}, s_) for s_, a_ in c.contents.items()] + [('Total', dict(c.contents), None)]
    bad = None
    for rname, part, sub in rows:
        if rname not in df.index or list(df.index).count(rname) != 1:
            if rname == 'Total' or list(df.index).count(rname) == 0:
                bad = (rname, None, 'row missing', None)
                break
            continue        # two substances of the same name: the table cannot tell them apart (not judged)
        for col, b in cols.items():
            cell = df.loc[rname, col]
            actual = R.measure(part, b)
            nomeasure = sub is not None and ((b == 'mol' and R.is_enzyme(sub)) or (b == 'U' and not R.is_enzyme(sub)))
            if isinstance(cell, str) and cell.strip() == '-':
                if not nomeasure:
                    bad = (rname, col, cell, actual)
                continue
            toks = tokens(str(cell) + ' ')
            if not toks or toks[0][2] != b or not (actual == actual and abs(actual) != float('inf')):
                if actual == actual and abs(actual) != float('inf'):
                    bad = (rname, col, str(cell), actual)
                continue
            if not token_matches(toks[0], {b: actual}, sum(abs(R.stored_quantum_in(s_, b)) for s_ in part) * R.K):
                bad = (rname, col, str(cell), actual)
        if bad:
            break
    if not bad and 'Maximum Volume' in df.index:
        cell = df.loc['Maximum Volume', 'Volume']
        cap_l = c.max_volume * R.cfg().vol_prefix
        M.count('INSTR.dataframe_capacity')
        if cap_l == float('inf'):
            if any(ch.isdigit() for ch in str(cell)):
                bad = ('Maximum Volume', 'Volume', str(cell), cap_l)
        else:
            toks = tokens(str(cell) + ' ')
            if not toks or toks[0][2] != 'L' or not token_matches(toks[0], {'L': cap_l}, R.cfg().q * R.cfg().vol_prefix * R.K):
                bad = ('Maximum Volume', 'Volume', str(cell), cap_l)
    M.bucket('C19/dataframe/' + ('ok' if not bad else 'bad'))
    if bad:
        M.violate(['C19'], 'INSTR', 'C19:dataframe_cell_ne_true_amount:' + ('total' if bad[0] == 'Total' else 'capacity' if bad[0] == 'Maximum Volume' else 'substance') + f':{bad[1]}',
                  {'container': c.name, 'row': bad[0], 'column': bad[1], 'cell': bad[2], 'actual_base_units': bad[3],
                   'contents': {s_.name: a_ for s_, a_ in c.contents.items()}})
    else:
        M.note_nontrivial('C19', ('df', c.name, tuple(sorted((s_.name, a_) for s_, a_ in c.contents.items()))))

