"""Seeded workload generation against the live library (DESIGN.md section 7).

A `World` holds named current values (containers, plates), generates each next request from the *state*
(a fraction of what the source holds, of the free capacity, ...), executes it through the public API
under the monitors, records it in a JSON-able program log and keeps every value ever returned, with its
fingerprint at return time, for the aliasing check (C04).
"""
from __future__ import annotations

import math
import random

from . import refmodel as R
from . import fingerprint as F
from .monitors import M, MonitorBug, InjectedFault

PREFIXES_BY_BASE = {
    'L': ['p', 'n', 'u', 'µ', 'm', 'c', 'd', '', 'da', 'k'],
    'g': ['p', 'n', 'u', 'µ', 'm', 'c', 'd', '', 'da', 'k'],
    'mol': ['p', 'n', 'u', 'µ', 'm', 'c', 'd', '', 'da', 'k'],
    'U': ['', '', 'm', 'k', 'u', 'da', 'c'],
}


def PP():
    import pyplate.pyplate as pp
    return pp


def case_rng(seed, prop, kind, idx):
    return random.Random(f'{seed}:{prop}:{kind}:{idx}')


def fmt_number(rng, x):
    """Spell a float as integer / decimal / scientific notation (value is whatever the string says)."""
    if x == 0:
        return rng.choice(['0', '0.0', '0e0'])
    k = rng.random()
    if k < 0.08:
        # spellings of a float that are legal but rarer: a trailing or a leading decimal point, an explicit plus sign,
        # a mantissa ending in a point ('50.', '.5', '+5', '5.e1' - numpy prints whole numbers as '50.')
        r_ = rng.randrange(4)
        if r_ == 0 and abs(x) >= 1 and abs(x) < 1e12:
            return f'{int(round(x))}.'
        if r_ == 1 and 0 < abs(x) < 1:
            t_ = f'{x:.{rng.randint(2, 6)}f}'
            if float(t_) != 0:
                return t_.replace('0.', '.', 1)
        if r_ == 2 and x > 0:
            return '+' + repr(float(x))
        if r_ == 3 and abs(x) >= 1 and abs(x) < 1e12:
            return f'{int(round(x)) / 10 ** (len(str(int(round(abs(x))))) - 1):.0f}.e{len(str(int(round(abs(x))))) - 1}' \
                if str(int(round(abs(x)))).rstrip('0') in ('1', '2', '3', '4', '5', '6', '7', '8', '9') else f'{int(round(x))}.'
    if k < 0.45:
        return repr(float(x))
    if k < 0.75:
        s = f'{x:.{rng.randint(3, 9)}g}'
        return s
    if k < 0.9:
        return f'{x:.{rng.randint(2, 8)}e}'
    if abs(x) >= 1 and abs(x) < 1e15:
        return str(int(round(x))) if rng.random() < 0.5 else repr(float(x))
    return repr(float(x))


def spell(rng, value, base, exact=False, prefixes=None):
    """Quantity string for `value` base units, in a random supported prefix."""
    ps = prefixes or PREFIXES_BY_BASE[base]
    # prefer prefixes that keep the number in a readable range
    cands = [p for p in ps if value == 0 or 1e-4 <= abs(value) / R.PREFIX[p] < 1e7] or ps
    p = rng.choice(cands)
    x = value / R.PREFIX[p]
    num = repr(float(x)) if exact else fmt_number(rng, x)
    return f'{num} {p}{base}'


def said(q):
    """What a quantity string says, in base units (reference reading)."""
    return R.parse_quantity(q)[0]


# --------------------------------------------------------------------------------------------------
# substances

class Molecule:
    """Stand-in for the optional `molecule=` attachment of a substance (the library documents a cctk.Molecule; any object)."""
    def __init__(self, formula):
        self.formula = formula
        self.atoms = list(formula)


def make_substances(rng, n=None, fixtures=True, same_names=0.0):
    pp = PP()
    _S = pp.Substance

    class S:        # the factories, now and then with the optional molecule attached
        @staticmethod
        def solid(name, mw):
            return _S.solid(name, mw, Molecule(name)) if rng.random() < 0.15 else _S.solid(name, mw)

        @staticmethod
        def liquid(name, mw, d):
            return _S.liquid(name, mw, d, molecule=Molecule(name)) if rng.random() < 0.15 else _S.liquid(name, mw, d)

        @staticmethod
        def enzyme(name, act):
            return _S.enzyme(name, act, Molecule(name)) if rng.random() < 0.15 else _S.enzyme(name, act)
    out = []
    if fixtures and rng.random() < 0.6:
        out += [S.liquid('H2O', 18.0153, 1), S.solid('NaCl', 58.4428)]
    n = n or rng.randint(3, 6)
    i = 0
    kinds = ['solid', 'liquid', 'enzyme']
    while len(out) < n:
        i += 1
        k = kinds[(i + rng.randrange(3)) % 3] if rng.random() < 0.7 else rng.choice(kinds)
        if k == 'solid':
            # mostly small molecules; now and then a macromolecule (tens of kDa: micromoles weigh grams)
            mw = 10 ** rng.uniform(1, 3) if rng.random() < 0.88 else 10 ** rng.uniform(3.5, 5.2)
            out.append(S.solid(f'sol{i}', round(mw, rng.randint(0, 4))))
        elif k == 'liquid':
            out.append(S.liquid(f'liq{i}', round(10 ** rng.uniform(1, 2.7), rng.randint(0, 4)),
                                round(rng.uniform(0.5, 2.0), rng.randint(1, 4))))
        else:
            mag = 10 ** rng.uniform(-1, 5)
            form = rng.choice(['U/g', 'U/mg', 'U/ug', 'g/U', 'mg/U', 'U/kg'])
            num, den = form.split('/')
            # value of specific activity in U/g = mag
            if num == 'U':
                _, b = R.split_unit(den)
                v = mag * R.PREFIX[R.split_unit(den)[0]]
            else:
                v = (1.0 / mag) / R.PREFIX[R.split_unit(num)[0]]
            out.append(declared_enzyme(S, f'enz{i}', f'{v:.6g} {form}'))
    # guarantee at least one liquid (solvents) and, usually, each kind
    if not any(s.is_liquid() for s in out):
        out.append(S.liquid('liqX', 46.07, 0.789))
    if same_names and rng.random() < same_names:
        # two different substances that happen to carry the same name (another grade / hydrate / supplier): a substance is
        # identified by all its properties, not by its name
        twin_of = rng.choice([x for x in out if not x.is_enzyme()])
        if twin_of.is_liquid():
            out.append(S.liquid(twin_of.name, round(twin_of.mol_weight * rng.uniform(1.1, 2.0), 3), round(twin_of.density * rng.uniform(1.05, 1.4), 3)))
        else:
            out.append(S.solid(twin_of.name, round(twin_of.mol_weight + 18.0153 * rng.randint(1, 6), 4)))
        M.bucket('substances/same_name_different_substance')
    return out


def declared_enzyme(S, name, activity):
    """An enzyme declared with the specific-activity string `activity`; the reference keeps its own reading of that string
    (U per g, by the reference grammar) as a harness-side note on the object, so that the oracle's conversions follow what
    was *declared*, not what the constructor stored."""
    e = S.enzyme(name, activity)
    v, num, den = R.parse_concentration(activity)
    # the activity is the quotient of the two stated quantities ('1 mg/7 U' is 7 U/mg exactly, '1 U/3 g' a third of a unit per
    # gram), not a ratio rounded to ten digits or its reciprocal (fixes b84114b, 53b321c)
    over, _, under = activity.partition('/')
    under = under if ' ' in under else '1 ' + under
    act, mass = (over, under) if (num, den) == ('U', 'g') else (under, over)
    v = R.parse_quantity(act)[0] / R.parse_quantity(mass)[0]
    e._pv_sa = float(f"{v:.12g}")      # one activity has one value however it is spelt (twelve digits)
    return e


def liquids(subs):
    return [s for s in subs if s.is_liquid()]


# --------------------------------------------------------------------------------------------------
# selectors

class SubSel:
    """A slice of a slice as a recipe-program reference: `plate[sel][item]`, with the wells it must address."""
    def __init__(self, sel, item, idx, shape):
        self.sel, self.item, self.idx, self.shape = sel, item, list(idx), tuple(shape)

    def apply(self, plate):
        return annotate(plate[self.sel][self.item], self.idx, self.shape)

    def __repr__(self):
        return f'SubSel({self.sel!r}[{self.item!r}])'


def sel_json(sel):
    if isinstance(sel, SubSel):
        return {'sub': [sel_json(sel.sel), repr(sel.item)]}
    if isinstance(sel, slice):
        return {'slice': [sel_json(sel.start), sel_json(sel.stop), sel.step]}
    if isinstance(sel, tuple):
        return {'tuple': [sel_json(x) for x in sel]}
    if isinstance(sel, list):
        return {'list': [sel_json(x) for x in sel]}
    return sel


def sel_from_json(j):
    if isinstance(j, dict):
        if 'slice' in j:
            a, b, c = j['slice']
            return slice(sel_from_json(a), sel_from_json(b), c)
        if 'tuple' in j:
            return tuple(sel_from_json(x) for x in j['tuple'])
        if 'list' in j:
            return [sel_from_json(x) for x in j['list']]
    return j


def _atom(rng, labels, i):
    """index i (0-based) spelled as 1-based int or as label."""
    return i + 1 if rng.random() < 0.5 else labels[i]


def rand_axis(rng, labels, allow_slice=True):
    n = len(labels)
    if not allow_slice or rng.random() < 0.35:
        i = rng.randrange(n)
        return _atom(rng, labels, i), [i]
    a = rng.randrange(n)
    b = rng.randrange(a, n)
    step = rng.choice([None, None, 1, 2, 3]) if n > 2 else rng.choice([None, 1])
    start = None if (a == 0 and rng.random() < 0.5) else _atom(rng, labels, a)
    stop = None if (b == n - 1 and rng.random() < 0.5) else _atom(rng, labels, b)
    a0 = 0 if start is None else a
    b0 = n - 1 if stop is None else b
    # (round 17, seeded s-C01-i) one slice in ten runs backwards, from b down to a (both named: the end point is included,
    # as always) - the operations act on the same wells in the opposite order. Drawn from a generator of its own, so that
    # the selectors of the earlier rounds stay what they were.
    import random as _random
    aux = _random.Random(f'backwards:{n}:{a}:{b}:{step}:{start!r}:{stop!r}')
    if n > 1 and b > a and aux.random() < 0.1:
        k = step or 1
        M.bucket('selector/backwards_slice')
        return slice(_atom(aux, labels, b), _atom(aux, labels, a), -k), list(range(b, a - 1, -k))
    return slice(start, stop, step), list(range(a0, b0 + 1, step or 1))


def rand_selector(rng, plate, forms=None):
    """-> (selector, reference index list, shape) using the documented grammar."""
    rows, cols = list(plate.row_names), list(plate.column_names)
    form = rng.choice(forms or ['row', 'cell_str', 'cell_tuple', 'rowslice', 'two', 'two', 'row_slice_col',
                                'list', 'colslice', 'whole', 'square_corner'])
    if form == 'square_corner':
        # geometry corner of a non-square plate: the first n_rows columns (or the first n_cols rows) - a range whose length
        # equals the size of the *other* axis
        if len(cols) > len(rows):
            sel = (slice(None), slice(_atom(rng, cols, 0), _atom(rng, cols, len(rows) - 1)))
        elif len(rows) > len(cols):
            sel = (slice(_atom(rng, rows, 0), _atom(rng, rows, len(cols) - 1)), slice(None))
        else:
            form = 'two'
        if form == 'square_corner':
            idx, shape = R.ref_address(rows, cols, sel)
            return sel, idx, shape
    if form == 'row':
        i = rng.randrange(len(rows))
        sel = _atom(rng, rows, i)
        if isinstance(sel, str) and ':' in sel:
            sel = i + 1
    elif form == 'cell_str':
        i, j = rng.randrange(len(rows)), rng.randrange(len(cols))
        sel = f'{rows[i]}:{cols[j]}'
    elif form == 'cell_tuple':
        i, j = rng.randrange(len(rows)), rng.randrange(len(cols))
        sel = (_atom(rng, rows, i), _atom(rng, cols, j))
    elif form == 'rowslice':
        sel, _ = rand_axis(rng, rows)
        if not isinstance(sel, slice):
            sel = slice(sel, sel)
    elif form == 'colslice':
        c, _ = rand_axis(rng, cols)
        sel = (slice(None), c)
    elif form == 'two':
        r, _ = rand_axis(rng, rows)
        c, _ = rand_axis(rng, cols)
        sel = (r, c)
    elif form == 'row_slice_col':
        r, _ = rand_axis(rng, rows, allow_slice=False)
        c, _ = rand_axis(rng, cols)
        sel = (r, c)
    elif form == 'list':
        k = rng.randint(1, min(4, len(rows) * len(cols)))
        cells = rng.sample([(i, j) for i in range(len(rows)) for j in range(len(cols))], k)
        sel = []
        for i, j in cells:
            if rng.random() < 0.5:
                sel.append((_atom(rng, rows, i), _atom(rng, cols, j)))
            else:
                sel.append(f'{rows[i]}:{cols[j]}')
    else:
        sel = slice(None)
    idx, shape = R.ref_address(rows, cols, sel)
    return sel, idx, shape


def subslice(rng, plate, sel, idx, shape):
    """A slice of a slice, `plate[sel][item]`: 0-based python/numpy semantics relative to the parent selection.
    The expected wells come from applying the same index expression to a grid of (i, j) pairs with numpy - not from the
    slicer.  -> (slicer, index list, shape, description) or None."""
    import numpy
    parent = plate[sel]
    if rng.random() < 0.35:
        # the parent is looked at before it is sliced (observers change nothing: the sub-slice knows its own shape and size)
        _ = (parent.shape, parent.size)
        M.bucket('subslice/parent_looked_at_first')
    if len(shape) == 1:
        n = shape[0]
        if n < 2:
            return None
        a = rng.randrange(0, n - 1)
        b = rng.randrange(a + 1, n + 1)
        item = slice(a, b)
        exp = idx[a:b]
        try:
            return annotate(parent[item], exp, (len(exp),)), exp, (len(exp),), f'{sel!r}[{a}:{b}]', item
        except Exception:
            return None
    h, w = shape
    if h * w < 2:
        return None
    grid = numpy.empty((h, w), dtype=object)
    for k, ij in enumerate(idx):
        grid[k // w, k % w] = ij

    def axis(n):
        r = rng.random()
        if r < 0.3:
            k = rng.randrange(n)
            if rng.random() < 0.2:
                return k - n, slice(k, k + 1)          # (counted from the end)
            return k, slice(k, k + 1)
        a = rng.randrange(0, n)
        b = rng.randrange(a + 1, n + 1)
        st = rng.choice([None, None, 2]) if n > 2 else None
        if n >= 4 and rng.random() < 0.5:
            a, b, st = rng.choice([0, 0, 1]), n, rng.choice([2, 2, 3])        # a stepped selection over the whole parent axis
        a_ = None if (a == 0 and rng.random() < 0.5) else a
        b_ = None if (b == n and rng.random() < 0.5) else b
        if rng.random() < 0.2:
            # the same bounds counted from the end of the selection (python's negative indices)
            if isinstance(a_, int) and a_ > 0:
                a_ = a_ - n
            if isinstance(b_, int) and 0 < b_ < n:
                b_ = b_ - n
            M.bucket('subslice/negative_index')
        return slice(a_, b_, st), slice(a_, b_, st)
    ri, rs = axis(h)
    ci, cs = axis(w)
    item = (ri, ci) if rng.random() < 0.8 or not isinstance(ci, slice) else (ri, ci)
    sub = grid[rs, cs]
    exp = [tuple(x) for x in sub.flatten()]
    if not exp:
        return None
    try:
        return annotate(parent[item], exp, tuple(sub.shape)), exp, tuple(sub.shape), f'{sel!r}[{item!r}]', item
    except Exception:
        return None


def annotate(slicer, idx, shape):
    """Harness-side note on a sub-sliced slicer object: the wells it is expected to address (from the numpy grid).
    An instance attribute, so it follows the slicer through copy.deepcopy (Recipe.bake copies slicers); the library
    never reads it and the fingerprints enumerate fields explicitly."""
    slicer._pv_addr = (list(idx), tuple(shape))
    return slicer


def rect_selector(rng, plate, r0, r1, c0, c1):
    rows, cols = list(plate.row_names), list(plate.column_names)
    return (slice(_atom(rng, rows, r0), _atom(rng, rows, r1)), slice(_atom(rng, cols, c0), _atom(rng, cols, c1)))


# --------------------------------------------------------------------------------------------------

class World:
    def __init__(self, rng, case, max_plate=(4, 6), subs=None):
        self.rng = rng
        self.case = case
        # (same-named pairs only where every oracle in play identifies substances by object: conservation, aliquots,
        # feasibility, immutability, observers, removal)
        self.subs = subs or make_substances(rng, same_names=0.08 if (case or {}).get('prop') in (
            'C01', 'C02', 'C03', 'C04', 'C10', 'C17') else 0.0)
        self.objs = {}
        self.log = []
        self.history = []          # (value, fingerprint at return time, step number)
        self.max_plate = max_plate
        self.steps = 0
        self.outcomes = []
        self.counter = 0
        self.check_aliasing = True

    # ---- bookkeeping
    def keep(self, *values):
        pp = PP()
        for v in values:
            if isinstance(v, (pp.Container, pp.Plate)):
                self.history.append((v, F.fingerprint(v), self.steps))

    def verify_history(self, op):
        """C04: later operations never alter objects returned earlier."""
        if not self.check_aliasing:
            return
        for v, fp, n in self.history:
            M.count('IMMUT.history')
            now = F.fingerprint(v)
            if now != fp:
                M.violate('C04', 'IMMUT', f'C04:earlier_result_changed_by_later_operation:{op}',
                          {'object': getattr(v, 'name', '?'), 'returned_at_step': n, 'changed_at_step': self.steps,
                           'op': op, 'diff': F.diff(fp, now)})
                # re-baseline so that one aliasing bug is reported once
                self.history = [(a, F.fingerprint(a), c) for a, b, c in self.history]
                break

    def sname(self, s):
        return s.name

    def sub(self, name):
        for s in self.subs:
            if s.name == name:
                return s
        raise KeyError(name)

    def containers(self):
        pp = PP()
        return [n for n, o in self.objs.items() if isinstance(o, pp.Container)]

    def plates(self):
        pp = PP()
        return [n for n, o in self.objs.items() if isinstance(o, pp.Plate)]

    def fresh_name(self, prefix):
        self.counter += 1
        return f'{prefix}{self.counter}'

    def do(self, opname, step, fn, expect=None):
        """Execute one public-API call under the monitors.  -> (result or None, exception or None)"""
        self.steps += 1
        self.log.append(step)
        M.expect = expect
        res = exc = None
        with M.active(self.case):
            try:
                res = fn()
            except (MonitorBug, InjectedFault):
                raise
            except Exception as e:   # noqa
                exc = e
        M.expect = None
        step['outcome'] = 'ok' if exc is None else type(exc).__name__
        self.outcomes.append(step['outcome'])
        self.verify_history(opname)
        return res, exc

    # ---- construction
    def add_container(self, name=None, capacity='auto', n_subs=None, scale=None):
        rng = self.rng
        pp = PP()
        name = name or self.fresh_name('c')
        k = n_subs if n_subs is not None else rng.choice([0, 1, 1, 2, 2, 3, 4])
        chosen = rng.sample(self.subs, min(k, len(self.subs)))
        if k and not any(s.is_liquid() for s in chosen) and rng.random() < 0.7:
            chosen[0] = rng.choice(liquids(self.subs))
            chosen = list(dict.fromkeys(chosen))
        if scale is None:
            r_ = rng.random()
            # litres-ish scale of the vessel: 0.1 mL .. 1 L as a rule, droplets (0.1 uL ..) and carboys (.. 100 L) at times
            scale = 10 ** (rng.uniform(-4, 0) if r_ < 0.86 else rng.uniform(-7, -4) if r_ < 0.95 else rng.uniform(0, 2))
        init = []
        vol = 0.0
        for s in chosen:
            if s.is_enzyme():
                base = rng.choice(['U', 'U', 'g', 'L'])
            elif s.is_liquid():
                base = rng.choice(['L', 'L', 'g', 'mol'])
            else:
                base = rng.choice(['g', 'g', 'mol', 'L'])
            if R.per(s, base) == 0:
                # e.g. a zero-volume solid (default_solid_density: inf) cannot be specified by volume
                base = 'U' if s.is_enzyme() else 'g'
            # target volume share
            v_l = scale * rng.uniform(0.02, 0.5)
            if rng.random() < 0.1:
                v_l = scale * 10 ** rng.uniform(-9, -5)         # a trace component
            perL = R.per(s, 'L')
            canon = v_l / perL if perL > 0 else scale * rng.uniform(0.1, 10)
            val = canon * R.per(s, base)
            q = spell(rng, val, base)
            init.append((s, q))
            pb = R.per(s, base)
            vol += (said(q) / pb) * perL if pb else 0.0
        if init and rng.random() < 0.08:
            # the same substance listed twice (added in two portions)
            s_, q_ = rng.choice(init)
            v_, b_ = R.parse_quantity(q_)
            if v_ > 0:
                q2 = spell(rng, v_ * rng.uniform(0.2, 1.5), b_)
                init.append((s_, q2))
                pb = R.per(s_, b_)
                vol += (said(q2) / pb) * R.per(s_, 'L') if pb else 0.0
                M.bucket('C19/ctor/substance_listed_twice')
        if init and rng.random() < 0.06:
            # an entry that holds nothing, first in order
            zs = [x for x in self.subs if x not in [e_[0] for e_ in init]]
            if zs:
                z = rng.choice(zs)
                init.insert(0, (z, '0 U' if z.is_enzyme() else rng.choice(['0 mg', '0 umol'])))
                M.bucket('ctor/zero_entry_first')
        if capacity == 'auto':
            r = rng.random()
            if r < 0.4:
                cap = None
            else:
                cap = spell(rng, max(vol, scale * 0.1) * rng.uniform(1.05, 4.0), 'L')
        else:
            cap = capacity
        step = {'op': 'container', 'name': name, 'max': cap, 'init': [[s.name, q] for s, q in init]}

        def fn():
            if cap is None:
                return pp.Container(name, initial_contents=init or None)
            return pp.Container(name, cap, init or None)
        res, exc = self.do('Container.__init__', step, fn)
        if res is not None:
            self.objs[name] = res
            self.keep(res)
        return res

    def add_plate(self, name=None, shape=None, capacity=None, custom_labels=None):
        rng = self.rng
        pp = PP()
        name = name or self.fresh_name('p')
        R_, C_ = shape or (rng.randint(1, self.max_plate[0]), rng.randint(1, self.max_plate[1]))
        if shape is None and self.max_plate == (4, 6) and rng.random() < 0.12:
            R_, C_ = rng.randint(5, 8), rng.randint(7, 12)       # now and then a plate of real size (stepped slices of stepped slices need room)
            M.bucket('plates/large')
        if custom_labels is None:
            custom_labels = rng.random() < 0.25
        rows = [f'r{i}x' for i in range(R_)] if custom_labels else R_
        cols = [f'k{j}' for j in range(C_)] if custom_labels and rng.random() < 0.7 else C_
        if custom_labels and rng.random() < 0.4:
            # custom labels that look like default ones: digit strings that are *not* their own 1-based position
            # (zero-based, offset or right-to-left numbering), letters in reverse order
            style = rng.choice(['zero', 'offset', 'reverse'])
            cols = ([str(j) for j in range(C_)] if style == 'zero' else [str(j + 7) for j in range(C_)] if style == 'offset'
                    else [str(C_ - j) for j in range(C_)])
            if rng.random() < 0.5:
                rows = [chr(ord('A') + R_ - 1 - i) for i in range(R_)]
            M.bucket('C13/custom_labels_that_look_like_default_ones')
        cap = capacity or spell(rng, 10 ** rng.uniform(-5, -3), 'L', prefixes=['u', 'm', 'n', ''])
        step = {'op': 'plate', 'name': name, 'max': cap, 'rows': rows, 'cols': cols}
        res, exc = self.do('Plate.__init__', step, lambda: pp.Plate(name, cap, rows=rows, columns=cols))
        if res is not None:
            self.objs[name] = res
            self.keep(res)
        return res

    def slice_or_sub(self, plate, sel, idx, shape, p_sub=0.15):
        """`plate[sel]`, or - sometimes - a slice *of that slice*; the wells the harness expects to be addressed are
        registered for the monitors (reference addressing from the original selector cannot describe a sub-slice)."""
        Rn_, Cn_ = plate.wells.shape
        if self.rng.random() < 0.25 and max(Rn_, Cn_) >= 5:
            # a stepped selection of a stepped selection (every second row of every second row ...): numpy semantics, the wells
            # come from applying both index expressions to a grid of (i, j) pairs
            import numpy
            rng = self.rng
            grid = numpy.empty((Rn_, Cn_), dtype=object)
            for i_ in range(Rn_):
                for j_ in range(Cn_):
                    grid[i_, j_] = (i_, j_)
            rows_first = Rn_ >= 5 and (Cn_ < 5 or rng.random() < 0.5)
            s1 = slice(rng.choice([None, 0, 1]), None, rng.choice([2, 2, 3]))
            s2 = slice(rng.choice([None, 0, 1]), None, rng.choice([2, 3]))
            other1 = slice(None)
            lim = (Cn_ if rows_first else Rn_)
            a_ = rng.randrange(0, lim)
            other2 = slice(a_, rng.randrange(a_ + 1, lim + 1))
            psel = (s1, other1) if rows_first else (other1, s1)
            ssel = (s2, other2) if rows_first else (other2, s2)
            sub = grid[psel][ssel]
            exp = [tuple(x) for x in sub.flatten()]
            if exp:
                # the parent through the documented (1-based, inclusive) grammar: start k -> k+1
                def doc(sl_):
                    return slice(None if sl_.start is None else sl_.start + 1, None, sl_.step)
                parent = plate[(doc(psel[0]), doc(psel[1]))]
                try:
                    sl = annotate(parent[ssel], exp, tuple(sub.shape))
                    if len(M.addr_override) > 400:
                        M.addr_override.clear()
                    M.addr_override[id(sl)] = (exp, tuple(sub.shape), sl)
                    M.bucket('C07/subslice/stepped_of_stepped')
                    return sl, exp, tuple(sub.shape), f'{psel!r}[{ssel!r}]'
                except Exception:   # noqa
                    pass
        if self.rng.random() < p_sub and len(idx) > 1:
            r = subslice(self.rng, plate, sel, idx, shape)
            if r is not None:
                sl, idx2, shape2, desc, _item = r
                if len(M.addr_override) > 400:
                    M.addr_override.clear()
                M.addr_override[id(sl)] = (idx2, shape2, sl)
                M.bucket('C07/subslice')
                return sl, idx2, shape2, desc
        return plate[sel], idx, shape, sel_json(sel)

    # ---- request sizing
    def pick_unit(self, contents, allow_zero_measure=0.05):
        rng = self.rng
        bases = [b for b in R.BASES if R.measure(contents, b) > 0]
        if not bases or rng.random() < allow_zero_measure:
            return rng.choice(list(R.BASES))
        return rng.choice(bases)

    def whole_volume_request(self, src_obj):
        """The whole content by volume, as the library itself reports it (exact-boundary request)."""
        cf = R.cfg()
        with M.oracle():
            v = src_obj.get_volume(cf.vol_unit)
        return f'{v!r} {cf.vol_unit}'

    def size_request(self, src_contents, base, room_L, n=1, mode=None, src_obj=None):
        """-> (quantity string, mode).  room_L: free volume of the tightest destination in litres.
        The request is sized from the state: a fraction of what the source holds / of the free room."""
        rng = self.rng
        m = R.measure(src_contents, base)
        vol = R.measure(src_contents, 'L')
        mode = mode or rng.choices(['feasible', 'whole', 'zero', 'overdraw', 'overflow', 'negative', 'exact_cap', 'tiny'],
                                   [80, 3, 2, 5, 4, 2, 2, 2])[0]
        if m <= 0:
            return spell(rng, 10 ** rng.uniform(-6, -3), base), 'zero_measure'
        # largest request that fits source (n draws) and room
        lim_src = m / n
        lim_room = (room_L / vol * m) if (vol > 0 and math.isfinite(room_L)) else float('inf')
        lim = min(lim_src, lim_room)
        if mode == 'feasible':
            if lim <= 0:
                return spell(rng, 0.0, base), 'zero'
            val = lim * rng.uniform(0.001, 0.9) if rng.random() < 0.8 else lim * 10 ** rng.uniform(-6, -3)
            return spell(rng, val, base), mode
        if mode == 'tiny':
            return spell(rng, m * 10 ** rng.uniform(-9, -6), base), mode
        if mode == 'whole':
            if n != 1 or lim_room < lim_src:
                return spell(rng, lim * 0.5, base), 'feasible'
            if base == 'L' and src_obj is not None:
                return self.whole_volume_request(src_obj), 'whole_reported'
            return spell(rng, m, base, exact=True), mode
        if mode == 'zero':
            return spell(rng, 0.0, base), mode
        if mode == 'overdraw':
            return spell(rng, lim_src * rng.choice([1.001, 1.01, 1.5, 3.0, 100.0]), base), mode
        if mode == 'overflow':
            if not math.isfinite(lim_room) or lim_room >= lim_src:
                return spell(rng, lim_src * 2, base), 'overdraw'
            return spell(rng, min(lim_room * rng.choice([1.001, 1.01, 1.5]), lim_src), base), mode
        if mode == 'negative':
            return spell(rng, -lim * rng.uniform(0.01, 0.5) if lim > 0 else -1e-3, base), mode
        if mode == 'exact_cap':
            if not math.isfinite(lim_room) or lim_room > lim_src or lim_room <= 0:
                return spell(rng, lim * 0.5, base), 'feasible'
            return spell(rng, lim_room, base, exact=True), mode
        raise ValueError(mode)

    @staticmethod
    def room_L(container):
        cf = R.cfg()
        if not math.isfinite(container.max_volume):
            return float('inf')
        return max(container.max_volume * cf.vol_prefix - R.measure(container.contents, 'L'), 0.0)

    # ---- transfers
    def transfer_cc(self, src=None, dst=None, mode=None, base=None):
        rng = self.rng
        pp = PP()
        cn = self.containers()
        if len(cn) < 2:
            return None
        src = src or rng.choice([n for n in cn if any(a > 0 for a in self.objs[n].contents.values())] or cn)
        dst = dst or rng.choice([n for n in cn if n != src])
        s, d = self.objs[src], self.objs[dst]
        base = base or self.pick_unit(s.contents)
        free_choice = mode is None
        q, mode = self.size_request(s.contents, base, self.room_L(d), 1, mode, src_obj=s)
        if free_choice and mode != 'whole_reported' and rng.random() < 0.03:
            # a quantity that is not a number: refused - accepted, it turns every amount on both sides into NaN
            q, mode = rng.choice(['nan', 'NaN', '-nan', '+nan']) + ' ' + q.split(' ')[1], 'not_a_number'
            M.bucket('hostile/quantity_not_a_number')
        step = {'op': 'transfer', 'src': [src, None], 'dst': [dst, None], 'q': q, 'mode': mode}
        kwform = rng.random() < 0.2
        res, exc = self.do('Container.transfer', step,
                           (lambda: pp.Container.transfer(quantity=q, destination=d, source=s)) if kwform
                           else (lambda: pp.Container.transfer(s, d, q)),
                           expect={'op': 'Container.transfer', 'must': 'accept', 'tag': 'whole_content_as_reported'}
                           if mode == 'whole_reported' else None)
        if res is not None:
            self.objs[src], self.objs[dst] = res
            self.keep(*res)
        return res

    def slice_of(self, pname, sel):
        return self.objs[pname][sel] if sel is not None else self.objs[pname]

    def transfer_cp(self, mode=None, base=None, forms=None, src=None, dst=None):
        rng = self.rng
        pp = PP()
        cn, pn = self.containers(), self.plates()
        if not cn or not pn:
            return None
        src = src or rng.choice([n for n in cn if any(a > 0 for a in self.objs[n].contents.values())] or cn)
        dst = dst or rng.choice(pn)
        s, p = self.objs[src], self.objs[dst]
        sel, idx, shape = rand_selector(rng, p, forms)
        use_plate = sel == slice(None) and rng.random() < 0.5
        target, idx, shape, seldesc = (p, idx, shape, None) if use_plate else self.slice_or_sub(p, sel, idx, shape)
        base = base or self.pick_unit(s.contents)
        room = min(self.room_L(p.wells[ij]) for ij in idx)
        free_choice = mode is None
        q, mode = self.size_request(s.contents, base, room, len(idx), mode)
        if free_choice and rng.random() < 0.03:
            q, mode = rng.choice(['nan', 'NaN', '-nan']) + ' ' + q.split(' ')[1], 'not_a_number'
            M.bucket('hostile/quantity_not_a_number')
        step = {'op': 'transfer', 'src': [src, None], 'dst': [dst, seldesc], 'q': q, 'mode': mode}
        kwform = rng.random() < 0.2
        self.look_first(target)
        res, exc = self.do('Plate.transfer', step, (lambda: pp.Plate.transfer(source=s, quantity=q, destination=target)) if kwform
                           else (lambda: pp.Plate.transfer(s, target, q)))
        if res is not None:
            self.objs[src], self.objs[dst] = res
            self.keep(*res)
        return res

    def transfer_pc(self, mode=None, base=None, forms=None):
        rng = self.rng
        pp = PP()
        cn, pn = self.containers(), self.plates()
        if not cn or not pn:
            return None
        src = rng.choice(pn)
        dst = rng.choice(cn)
        p, d = self.objs[src], self.objs[dst]
        sel, idx, shape = rand_selector(rng, p, forms)
        sliced, idx, shape, seldesc = self.slice_or_sub(p, sel, idx, shape)
        wells = [p.wells[ij] for ij in idx]
        nonempty = [w for w in wells if any(a > 0 for a in w.contents.values())]
        ref_w = min(nonempty or wells, key=lambda w: R.measure(w.contents, 'L'))
        base = base or self.pick_unit(ref_w.contents)
        # request sized on the smallest well so that every well can supply it
        ms = [R.measure(w.contents, base) for w in wells]
        fake = ref_w.contents if min(ms) > 0 else {}
        room = self.room_L(d) / max(len(idx), 1)
        q, mode = self.size_request(fake if fake else ref_w.contents, base, room, 1, mode)
        use_plate = sel == slice(None) and seldesc == sel_json(sel) and rng.random() < 0.3
        step = {'op': 'transfer', 'src': [src, None if use_plate else seldesc], 'dst': [dst, None], 'q': q, 'mode': mode}
        source = p if use_plate else sliced
        self.look_first(source)
        # the same request through either class: Container.transfer(slice, container) and Plate.transfer(slice, container)
        via_plate = rng.random() < 0.3
        res, exc = self.do('Plate.transfer' if via_plate else 'Container.transfer', step,
                           (lambda: pp.Plate.transfer(source, d, q)) if via_plate else (lambda: pp.Container.transfer(source, d, q)))
        if res is not None:
            self.objs[src], self.objs[dst] = res
            self.keep(*res)
        return res

    def transfer_pp(self, mode=None, base=None, same_plate=None, overlap=False, form=None):
        """slice -> slice: 1->N, N->1, N->N; two plates or one plate (disjoint unless overlap)."""
        rng = self.rng
        pp = PP()
        pn = self.plates()
        if not pn:
            return None
        if same_plate is None:
            same_plate = rng.random() < 0.3 or len(pn) < 2
        form = form or rng.choice(['1->N', 'N->1', 'N->N', 'N->N'])
        src = rng.choice(pn)
        ps = self.objs[src]
        if same_plate:
            dst = src
        else:
            others = [n for n in pn if n != src]
            if form == 'N->N':
                others = [n for n in others if self.objs[n].wells.shape == ps.wells.shape] or others
            if not others:
                dst, same_plate = src, True
            else:
                dst = rng.choice(others)
        pd = self.objs[dst]
        Rn, Cn = ps.wells.shape
        Rd, Cd = pd.wells.shape
        cells_s = [(i, j) for i in range(Rn) for j in range(Cn)]
        rows_s, cols_s = list(ps.row_names), list(ps.column_names)
        rows_d, cols_d = list(pd.row_names), list(pd.column_names)

        def cell(rows, cols, ij):
            c = (_atom(rng, rows, ij[0]), _atom(rng, cols, ij[1]))
            r = rng.random()
            if r < 0.07:
                return [c]                                  # the single well spelt as a one-element list
            if r < 0.14:
                return [f'{rows[ij[0]]}:{cols[ij[1]]}']
            return c
        ssel = dsel = None
        if form == '1->N':
            ij = rng.choice(cells_s)
            ssel = cell(rows_s, cols_s, ij)
            for _ in range(20):
                dsel, didx, _ = rand_selector(rng, pd)
                if not same_plate or overlap or ij not in didx:
                    break
            else:
                return None
            if same_plate and overlap and ij not in didx:
                dsel = slice(None)
        elif form == 'N->1':
            ij = rng.choice([(i, j) for i in range(Rd) for j in range(Cd)])
            dsel = cell(rows_d, cols_d, ij)
            for _ in range(20):
                ssel, sidx, _ = rand_selector(rng, ps, ['row', 'rowslice', 'two', 'colslice', 'row_slice_col', 'whole'])
                if not same_plate or overlap or ij not in sidx:
                    break
            else:
                return None
        else:
            # equal shapes: a rectangle of size h x w placed twice
            h = rng.randint(1, min(Rn, Rd))
            w = rng.randint(1, min(Cn, Cd))
            r0 = rng.randint(0, Rn - h)
            c0 = rng.randint(0, Cn - w)
            ssel = rect_selector(rng, ps, r0, r0 + h - 1, c0, c0 + w - 1)
            places = [(a, b) for a in range(0, Rd - h + 1) for b in range(0, Cd - w + 1)]
            if same_plate:
                def disjoint(a, b):
                    return a + h <= r0 or r0 + h <= a or b + w <= c0 or c0 + w <= b
                good = [pl for pl in places if disjoint(*pl) != overlap]
                if not good:
                    return None
                places = good
            a, b = rng.choice(places)
            dsel = rect_selector(rng, pd, a, a + h - 1, b, b + w - 1)
        sidx, _ = R.ref_address(rows_s, cols_s, ssel)
        didx, _ = R.ref_address(rows_d, cols_d, dsel)
        wells = [ps.wells[ij] for ij in sidx]
        nonempty = [w_ for w_ in wells if any(a_ > 0 for a_ in w_.contents.values())]
        ref_w = min(nonempty or wells, key=lambda w_: R.measure(w_.contents, 'L'))
        base = base or self.pick_unit(ref_w.contents)
        room = min(self.room_L(pd.wells[ij]) for ij in didx)
        ndraw = len(didx) if len(sidx) == 1 else 1
        nfill = len(sidx) if len(didx) == 1 else 1
        q, mode = self.size_request(ref_w.contents, base, room / nfill, ndraw, mode)
        step = {'op': 'transfer', 'src': [src, sel_json(ssel)], 'dst': [dst, sel_json(dsel)], 'q': q, 'mode': mode,
                'form': form, 'same_plate': same_plate, 'overlap': overlap}
        pobj = self.objs[src]
        s_slice = pobj[ssel]
        if len(set(sidx)) == pobj.wells.size and not same_plate and rng.random() < 0.5:
            s_slice = pobj          # a whole Plate passed directly as the source
            step['src'] = [src, None]
        d_slice = (pobj if same_plate else pd)[dsel]
        self.look_first(s_slice, d_slice)
        res, exc = self.do('Plate.transfer', step, lambda: pp.Plate.transfer(s_slice, d_slice, q))
        if res is not None:
            r_src, r_dst = res
            if same_plate:
                self.objs[dst] = r_dst
            else:
                self.objs[src], self.objs[dst] = r_src, r_dst
            self.keep(r_src, r_dst)
        return res

    # ---- a slice object kept by the caller and used again
    def reuse_kept_slice(self):
        """The user keeps `row = plate[sel]` and uses it for several operations.  Whatever happened in between, the
        slice still denotes the wells of the plate it was taken from: every use must give the same result as a *fresh*
        slice `plate[sel]` of that original plate (differential oracle, run in an oracle section)."""
        rng = self.rng
        pp = PP()
        from .handlers import same_container_state
        pn = self.plates()
        if not pn:
            return None
        if not getattr(self, 'kept', None) or rng.random() < 0.3:
            name = rng.choice(pn)
            plate = self.objs[name]
            if not any(a > 0 for w in plate.wells.flatten() for a in w.contents.values()):
                return None
            sel, idx, shape = rand_selector(rng, plate, ['row', 'two', 'rowslice', 'colslice', 'cell_tuple', 'row_slice_col'])
            self.kept = {'slice': plate[sel], 'plate': plate, 'sel': sel, 'idx': idx, 'name': name, 'uses': 0}
        k = self.kept
        plate, sel, idx = k['plate'], k['sel'], k['idx']
        wells = [plate.wells[ij] for ij in idx]
        vol = min(R.measure(w.contents, 'L') for w in wells)
        if vol <= 0:
            self.kept = None
            return None
        kind = rng.choice(['to_plate', 'to_plate', 'to_container', 'remove', 'fill'])
        others = [n for n in pn if self.objs[n] is not plate]
        cn = self.containers()
        q = spell(rng, vol * rng.uniform(0.02, 0.2), 'L')
        call = None
        if kind == 'to_plate' and others:
            dplate = self.objs[rng.choice(others)]
            n_src = len(idx)
            # a destination of the same shape (or a single well) on another plate
            try:
                if dplate.wells.shape[0] >= max(i for i, j in idx) + 1 and dplate.wells.shape[1] >= max(j for i, j in idx) + 1 \
                        and len(set(i for i, j in idx)) * len(set(j for i, j in idx)) == n_src:
                    rows = sorted(set(i for i, j in idx))
                    cols = sorted(set(j for i, j in idx))
                    if rows == list(range(rows[0], rows[-1] + 1)) and cols == list(range(cols[0], cols[-1] + 1)):
                        dsel = (slice(rows[0] + 1, rows[-1] + 1), slice(cols[0] + 1, cols[-1] + 1))
                    else:
                        dsel = (1, 1)
                else:
                    dsel = (1, 1)
                room = min(self.room_L(dplate.wells[ij]) for ij in R.ref_address(list(dplate.row_names), list(dplate.column_names), dsel)[0])
                if dsel == (1, 1):
                    room = room / n_src
                if room > 0:
                    q = spell(rng, min(vol * 0.2, room * 0.5) * rng.uniform(0.1, 1), 'L')
                    call = lambda s_: pp.Plate.transfer(s_, dplate[dsel], q)      # noqa
            except (R.Reject, R.Unjudged):
                call = None
        elif kind == 'to_container' and cn:
            d = self.objs[rng.choice(cn)]
            if self.room_L(d) > vol * len(idx):
                call = lambda s_: pp.Container.transfer(s_, d, q)      # noqa
        elif kind == 'remove':
            what = rng.choice([R.LIQUID, R.SOLID, rng.choice(self.subs)])
            call = lambda s_: s_.remove(what)      # noqa
        elif kind == 'fill':
            solv = rng.choice(liquids(self.subs))
            cur = max(R.measure(w.contents, 'L') for w in wells)
            room = min(self.room_L(w) for w in wells)
            if room > 0:
                q2 = spell(rng, cur + room * rng.uniform(0.1, 0.6), 'L')
                call = lambda s_: s_.fill_to(solv, q2)      # noqa
        if call is None:
            return None
        step = {'op': 'reuse_kept_slice', 'plate': k['name'], 'sel': sel_json(sel), 'kind': kind, 'use': k['uses'] + 1}
        res, exc = self.do('reuse_kept_slice', step, lambda: call(k['slice']))
        k['uses'] += 1
        # oracle: a fresh slice of the original plate
        with M.oracle():
            try:
                exp = call(plate[sel])
                exp_exc = None
            except Exception as e:   # noqa
                exp, exp_exc = None, e
        M.count('KEPT.compare')
        M.bucket(f'C04/kept_slice/{kind}/use{min(k["uses"], 3)}')
        bad = None
        if (exc is None) != (exp_exc is None):
            bad = f'outcome {type(exc).__name__ if exc else "ok"} vs {type(exp_exc).__name__ if exp_exc else "ok"}'
        elif exc is None:
            ra = res if isinstance(res, tuple) else (res,)
            rb = exp if isinstance(exp, tuple) else (exp,)
            for a, b in zip(ra, rb):
                if isinstance(a, pp.Plate):
                    for ij in [(i, j) for i in range(a.wells.shape[0]) for j in range(a.wells.shape[1])]:
                        d_ = same_container_state(a.wells[ij], b.wells[ij])
                        if d_:
                            bad = f'well {ij}: {d_}'
                            break
                elif isinstance(a, pp.Container):
                    d_ = same_container_state(a, b)
                    if d_:
                        bad = d_
                if bad:
                    break
        if bad:
            M.violate(['C04', 'C07', 'C02', 'C01'], 'KEPT', f'C04:kept_slice_ne_fresh_slice_of_its_plate:{kind}:use{min(k["uses"], 3)}',
                      {'kind': kind, 'use': k['uses'], 'selector': repr(sel), 'diff': bad, 'program': self.log[-4:]})
            self.kept = None
        elif k['uses'] >= 2:
            M.note_nontrivial('C04', ('kept', kind, k['uses'], repr(sel)))
        return res

    # ---- remove / fill_to / dilute
    def remove(self, target=None, what=None, partial=None):
        rng = self.rng
        pp = PP()
        names = self.containers() + self.plates()
        if not names:
            return None
        target = target or rng.choice(names)
        o = self.objs[target]
        if isinstance(o, pp.Plate):
            present = list(o.get_substances()) if o.wells.size else []
        else:
            present = list(o.contents.keys())
        if what is None:
            r = rng.random()
            if r < 0.45 and present:
                what = rng.choice(present)
            elif r < 0.55:
                what = rng.choice(self.subs)
            else:
                what = rng.choice([R.SOLID, R.LIQUID, R.ENZYME])
        sel = None
        obj, seldesc = o, None
        if isinstance(o, pp.Plate) and (partial if partial is not None else rng.random() < 0.6):
            sel, idx, shp = rand_selector(rng, o)
            obj, idx, shp, seldesc = self.slice_or_sub(o, sel, idx, shp)
        step = {'op': 'remove', 'dst': [target, seldesc], 'what': what if isinstance(what, int) else what.name}
        if what == R.LIQUID and rng.random() < 0.5:
            step['what'] = 'default'
            res, exc = self.do('remove', step, lambda: obj.remove())          # the documented default: liquids
        else:
            res, exc = self.do('remove', step, lambda: obj.remove(what))
        if res is not None:
            self.objs[target] = res
            self.keep(res)
        return res

    def fill_to(self, target=None, mode=None, base=None, partial=None):
        rng = self.rng
        pp = PP()
        names = self.containers() + self.plates()
        if not names:
            return None
        target = target or rng.choice(names)
        o = self.objs[target]
        solvent = rng.choice(liquids(self.subs)) if rng.random() < 0.9 else rng.choice(self.subs)
        base = base or rng.choice(['L', 'L', 'g', 'mol'])
        sel = None
        sub_obj, seldesc = None, None
        if isinstance(o, pp.Plate):
            if partial if partial is not None else rng.random() < 0.6:
                sel, idx, shp = rand_selector(rng, o)
                sub_obj, idx, shp, seldesc = self.slice_or_sub(o, sel, idx, shp)
            else:
                idx = [(i, j) for i in range(o.wells.shape[0]) for j in range(o.wells.shape[1])]
            wells = [o.wells[ij] for ij in idx]
        else:
            wells = [o]
        cur = max(R.measure(w.contents, base) for w in wells)
        room = min(self.room_L(w) for w in wells)
        pb, pl = R.per(solvent, base), R.per(solvent, 'L')
        mode = mode or rng.choices(['feasible', 'below', 'exact_cap', 'overflow', 'at_current', 'non_positive'],
                                   [78, 8, 4, 5, 3, 2])[0]
        if math.isfinite(room) and pl > 0 and pb > 0:
            max_add = room / pl * pb        # in base units
        else:
            max_add = max(cur, 1e-5) * 10
        if mode == 'feasible':
            val = cur + max_add * rng.uniform(0.01, 0.9)
        elif mode == 'below':
            val = cur * rng.choice([0.999, 0.99, 0.5, 0.1]) if cur > 0 else -1e-6
        elif mode == 'exact_cap':
            if not (math.isfinite(room) and pl > 0 and pb > 0):
                val, mode = cur + max_add * 0.5, 'feasible'
            else:
                val = cur + max_add
        elif mode == 'overflow':
            if not math.isfinite(room):
                val, mode = cur + max_add * 0.5, 'feasible'
            else:
                val = cur + max_add * rng.choice([1.001, 1.01, 2.0])
        elif mode == 'at_current':
            val = cur
        else:
            val = rng.choice([0.0, -abs(cur) - 1e-6])
        q = spell(rng, val, base, exact=(mode in ('exact_cap', 'at_current')))
        step = {'op': 'fill_to', 'dst': [target, seldesc], 'solvent': solvent.name, 'q': q, 'mode': mode}
        obj = sub_obj if sub_obj is not None else o
        self.look_first(obj)
        res, exc = self.do('fill_to', step, lambda: obj.fill_to(solvent, q))
        if res is not None:
            conts = [res] if isinstance(res, pp.Container) else list(res.wells.flatten())
            if all(math.isfinite(a) for c_ in conts for a in c_.contents.values()):
                self.objs[target] = res       # (a non-finite outcome - recorded finding KF03 - is not carried forward)
            self.keep(res)
        return res

    # ---- observers
    def observe(self, target=None):
        rng = self.rng
        pp = PP()
        names = self.containers() + self.plates()
        if not names:
            return
        target = target or rng.choice(names)
        o = self.objs[target]
        step = {'op': 'observe', 'target': target}
        vol_units = ['nL', 'uL', 'µL', 'mL', 'L', 'dL', 'cL', 'daL', 'kL']
        mol_units = ['nmol', 'umol', 'mmol', 'cmol', 'mol', 'damol', 'kmol']

        def fn():
            if isinstance(o, pp.Container):
                o.get_volume(rng.choice(vol_units + [None]))
                if rng.random() < 0.3:
                    try:
                        o.get_volume(rng.choice(['mmol', 'umol', 'mol', 'mg', 'g', 'U']))      # not a volume: refused
                    except (ValueError, TypeError):
                        pass
                if rng.random() < 0.3:
                    # a caller who edits the set they were given changes their set, not what the container reports
                    mine = o.get_substances()
                    if isinstance(mine, set):
                        mine |= set(self.subs)
                        mine.discard(next(iter(o.contents), None))
                subs = list(o.contents.keys()) or self.subs[:1]
                for s in rng.sample(subs, min(2, len(subs))) + [rng.choice(self.subs)]:
                    if s.is_enzyme():
                        num = rng.choice(['U', 'g', 'L', 'mg', 'uL', 'ng', 'kU', 'mU'])
                    else:
                        num = rng.choice(['mol', 'g', 'L', 'mmol', 'mg', 'uL', 'umol', 'dag', 'cmol', 'ng', 'nmol', 'kg'])
                    den = rng.choice(['L', 'mL', 'g', 'kg', 'mol', 'uL', 'mg', 'mmol', 'kL', 'dag', 'cmol', 'nL'])
                    u = rng.choice(['M', 'mM', 'm', 'uM']) if (not s.is_enzyme() and rng.random() < 0.3) else f'{num}/{den}'
                    o.get_concentration(s, u)
                    if not s.is_enzyme() and rng.random() < 0.3:
                        o.get_concentration(s)            # the documented default: the configured concentration display unit
            else:
                tgt = o if rng.random() < 0.5 else o[rand_selector(rng, o)[0]]
                tgt.get_volumes(unit=rng.choice(vol_units + [None]))
                subs = list(tgt.get_substances()) or self.subs[:1]
                pick = rng.choice([rng.choice(subs), rng.sample(subs, min(2, len(subs))), rng.choice(self.subs)])
                tgt.get_volumes(pick, rng.choice(vol_units + ['mg', 'g', 'umol', 'ng', 'dag', 'U']))
                tgt.get_volumes()                                     # documented defaults
                # any iterable of substances, the empty one included ("the enzymes present" where there are none: zero everywhere)
                some = rng.sample(subs, min(2, len(subs)))
                tgt.get_volumes(rng.choice([[], (), tuple(some), set(some), iter(some)]), rng.choice(vol_units))
                tgt.get_moles(rng.choice([[], tuple(some), set(some)]), rng.choice(mol_units))
                mine = tgt.get_substances()
                if isinstance(mine, set) and rng.random() < 0.5:
                    mine |= set(self.subs)           # (the caller's own copy)
                if isinstance(tgt, pp.Plate) and rng.random() < 0.3:
                    try:
                        tgt.get_volume(rng.choice(['umol', 'mmol', 'mg']))                   # not a volume: refused
                    except (ValueError, TypeError):
                        pass
                tgt.get_moles(pick, rng.choice(mol_units))
                if isinstance(tgt, pp.Plate):
                    tgt.get_moles(pick)
                    tgt.get_volume(rng.choice(vol_units))
        self.do('observe', step, fn)

    # ---- a mixed history
    def history_step(self, weights=None):
        rng = self.rng
        ops = {
            'cc': self.transfer_cc, 'cp': self.transfer_cp, 'pc': self.transfer_pc, 'pp': self.transfer_pp,
            'remove': self.remove, 'fill': self.fill_to, 'observe': self.observe,
            'newc': self.add_container, 'kept': self.reuse_kept_slice,
        }
        w = weights or {'cc': 4, 'cp': 4, 'pc': 2, 'pp': 3, 'remove': 1, 'fill': 2, 'observe': 1, 'newc': 1}
        if rng.random() < 0.04:
            self.twin()
        k = rng.choices(list(w.keys()), list(w.values()))[0]
        return k, ops[k]()

    def look_first(self, *slicers, p=0.25):
        """Users look at a slice before they use it: query the very slice objects that are then handed to an operation
        (shape, size, per-well volumes, substances) - a slice object must not behave differently for having been read."""
        pp = PP()
        if self.rng.random() >= p:
            return
        for sl in slicers:
            if not isinstance(sl, pp.PlateSlicer):
                continue
            M.bucket('C04/slice_queried_before_use')
            with M.active(self.case):
                try:
                    k = self.rng.randrange(4)
                    if k == 0:
                        sl.get_volumes()
                    elif k == 1:
                        _ = sl.shape, sl.size
                    elif k == 2:
                        sl.get_substances()
                    else:
                        sl.get()
                except (MonitorBug, InjectedFault):
                    raise
                except Exception:   # noqa
                    pass

    def twin(self):
        """A replicate: a second, distinct object with the same name and - for now - the same state as an existing plate or
        container (what running the same preparation twice gives).  Equal is not identical: operations between the two,
        and on one of them, must treat them as two objects."""
        import copy
        rng = self.rng
        names = [n for n in self.objs if '~' not in n]
        if not names or sum(1 for n in self.objs if '~' in n) >= 2:
            return None
        n = rng.choice(self.plates() or names) if rng.random() < 0.7 else rng.choice(names)
        if '~' in n:
            return None
        with M.oracle():
            self.objs[n + '~twin'] = copy.deepcopy(self.objs[n])
        M.bucket('twin/' + type(self.objs[n]).__name__)
        self.log.append({'op': 'twin', 'of': n})
        return self.objs[n + '~twin']

    def populate(self, n_containers=None, n_plates=None, fill_plates=True):
        rng = self.rng
        for _ in range(n_containers if n_containers is not None else rng.randint(2, 4)):
            self.add_container(n_subs=rng.choice([1, 2, 2, 3, 4]))
        for _ in range(n_plates if n_plates is not None else rng.randint(1, 2)):
            self.add_plate()
        if fill_plates:
            # make well contents non-uniform the way users do: several partial dispensings
            for _ in range(rng.randint(1, 4)):
                self.transfer_cp(mode='feasible')
