"""Operation-specific monitors, part 2: remove, fill_to, dilute, plate/slice broadcasts, observers,
recipe argument tracking, Unit monitors; and the handler table."""
from __future__ import annotations

import math

import numpy

from . import refmodel as R
from . import fingerprint as F
from .monitors import M, Handler
from . import handlers as H1

K = R.K


def PP():
    import pyplate.pyplate as pp
    return pp


# ==================================================================================================
# REMOVE (C17)

def selected_by(what, contents):
    """Reference selection: a substance (by equality) or a class of substances."""
    pp = PP()
    if isinstance(what, pp.Substance):
        return [s for s in contents if R.ident(s) == R.ident(what)]       # by what identifies a substance, spelt out
    if isinstance(what, int) and not isinstance(what, bool) and what in (R.SOLID, R.LIQUID, R.ENZYME):
        return [s for s in contents if s._type == what]
    return None


def check_remove(before, what, after, where):
    M.count('REMOVE')
    sel = selected_by(what, before.contents)
    if sel is None:
        M.count('REMOVE.unjudged_selector')
        return
    bad = None
    # the books are keyed by R.ident (never by the library's own equality of substances)
    sel_ids = {R.ident(s) for s in sel}
    after_by = {}
    for s, a in after.contents.items():
        after_by.setdefault(R.ident(s), []).append(a)
    before_ids = {R.ident(s) for s in before.contents}
    for k_ in sel_ids:
        if any(a != 0 for a in after_by.get(k_, [])):
            bad = ('selected_still_present', k_[0], after_by[k_])
    for s, a in before.contents.items():
        k_ = R.ident(s)
        if k_ in sel_ids:
            continue
        if after_by.get(k_) != [a] and a not in after_by.get(k_, []):
            bad = ('survivor_changed', s.name, (a, after_by.get(k_)))
    for k_ in after_by:
        if k_ not in before_ids:
            bad = ('substance_appeared', k_[0], after_by[k_])
    if after.name != before.name or after.max_volume != before.max_volume:
        bad = ('identity_changed', None, (after.name, after.max_volume))
    if bad:
        wk = 'class' if isinstance(what, int) else 'substance'
        M.violate(['C17'], 'REMOVE', f'C17:{bad[0]}:{wk}:{where}',
                  {'what': getattr(what, 'name', what), 'substance': bad[1], 'value': bad[2],
                   'before': F.snap_contents(before), 'after': F.snap_contents(after)})
    # reduced volume: BOOK on the result (run under C17's tag too)
    exp = R.volume_storage(after.contents)
    q = R.cfg().q
    tol = K * q * (len(after.contents) + 2) * (1 + sum(abs(H1.vol_per_stored(s)) for s in after.contents)) + 1e-9 * abs(exp)
    if not M.ratio('REMOVE.volume', after.volume, exp, tol):
        M.violate(['C17', 'C10'], 'REMOVE', f'C17:volume_not_reduced_sum:{where}',
                  {'stored_volume': after.volume, 'sum_of_contents': exp, 'before_volume': before.volume,
                   'what': getattr(what, 'name', what), 'after': F.snap_contents(after)})
    wk = ('class:' + R.KIND_NAME.get(what, '?')) if isinstance(what, int) else 'substance:' + R.kind(what)
    M.bucket(f'C17/{where}/{wk}/' + ('hit' if sel else 'miss'))
    if sel and len(before.contents) >= 2:
        M.note_nontrivial('C17', ('rm', where, wk, tuple(sorted(H1.cdesc(before.contents).items()))))
        M.sample('C17', {'op': 'remove', 'where': where, 'what': getattr(what, 'name', what),
                         'before': H1.cdesc(before.contents), 'after': H1.cdesc(after.contents)})


class HContainerRemove(Handler):
    def post(self, ctx, args, kwargs, result, exc):
        self_ = args[0]
        what = args[1] if len(args) > 1 else kwargs.get('what', R.LIQUID)
        if exc is not None:
            if selected_by(what, self_.contents) is not None:
                M.violate(['C17'], 'REMOVE', f'C17:remove_raised:{type(exc).__name__}',
                          {'what': getattr(what, 'name', what), 'exc': repr(exc)[:300],
                           'before': F.snap_contents(self_)})
            return
        check_remove(self_, what, result, 'container' if M.depth == 1 else 'well')
        H1.check_returned(result, 'Container.remove')


# ==================================================================================================
# FILL (C11, C03 B3/B4)

def classify_fill(c, solvent, value, base):
    """Reference feasibility of fill_to.  -> (verdict, reason, canonical amount of solvent to add)"""
    cf = R.cfg()
    if base not in ('L', 'g', 'mol'):
        return 'infeasible', 'unit', 0.0
    if not (value > 0):
        return 'infeasible', 'non_positive', 0.0
    if not math.isfinite(value):
        return 'infeasible', 'infinite_amount', 0.0          # no vessel holds an infinite amount, whatever its stated capacity
    cur = R.measure(c.contents, base)
    pb = R.per(solvent, base)
    if pb == 0:
        # a solvent without measure in the unit of the target can never move the total: refused (the former finding KF03) -
        # except that a target the container is at already needs nothing, whatever is named as the solvent
        rq0 = H1.request_quantum(base, c.contents) + K * H1.storage_noise_in(c.contents, base) + cf.q * (cf.mol_prefix if base != 'L' else cf.vol_prefix)
        if abs(value - cur) <= 1e-6 * cur + K * rq0:
            return 'boundary', 'at_current', 0.0
        return 'infeasible', 'solvent_has_no_measure', 0.0
    # the fill requirement is honoured to one request quantum
    rq = H1.request_quantum(base, c.contents) + K * H1.storage_noise_in(c.contents, base) + cf.q * (cf.mol_prefix if base != 'L' else cf.vol_prefix)
    need = value - cur
    if need < -(1e-6 * cur + K * rq):
        return 'infeasible', 'below_current', 0.0
    if need < (1e-6 * cur + K * rq):
        return 'boundary', 'at_current', 0.0
    if pb == 0:
        return 'infeasible', 'solvent_has_no_measure', 0.0
    x = need / pb
    v_after = (R.measure(c.contents, 'L') + x * R.per(solvent, 'L')) / cf.vol_prefix
    cap = c.max_volume
    vq = cf.q * K * (len(c.contents) + 3) * (1 + sum(abs(H1.vol_per_stored(s)) for s in c.contents) + abs(H1.vol_per_stored(solvent)))
    if v_after > cap * (1 + 1e-6) + vq:
        return 'infeasible', 'capacity', x
    if v_after > cap * (1 - 1e-6) - vq:
        if base == 'L' and abs(v_after - cap) <= 1e-12 * cap + vq:
            return 'exact', 'capacity', x
        return 'boundary', 'capacity', x
    return 'feasible', '', x


def check_fill(c, solvent, quantity, result, exc, where):
    cf = R.cfg()
    req = H1.request(quantity)
    if req is None:
        if exc is None:
            M.violate(['C14'], 'PARSE', 'C14:malformed_quantity_accepted:fill_to', {'quantity': quantity})
        return
    value, base = req
    verdict, reason, x = classify_fill(c, solvent, value, base)
    expect = M.take_expect('Container.fill_to') if where == 'container' else None
    M.count('FEAS.fill_to')
    M.bucket(f'C03/fill_to/{base}/{verdict}:{reason}/' + ('refused' if exc is not None else 'accepted'))
    has_enz = any(R.is_enzyme(s) and a > 0 for s, a in c.contents.items())
    if exc is not None:
        et = type(exc).__name__
        if verdict == 'feasible' or (expect and expect.get('must') == 'accept'):
            mech = (f'C03:exact_capacity_fill_refused:{et}' if verdict == 'exact'
                    else f'C03:feasible_fill_refused:{base}:{et}')
            if verdict == 'exact' and c.max_volume >= 1e5 and et == 'ValueError':
                from copy import deepcopy
                try:
                    with M.oracle():
                        c2 = deepcopy(c)
                        c2.max_volume = c.max_volume * (1 + 1e-9)
                        c2.fill_to(solvent, quantity)
                    mech = 'C03:exact_capacity_fill_refused:large_volume_float_noise'
                except Exception:
                    mech = f'C03:near_capacity_fill_refused_even_with_margin:{et}'

            M.violate(['C03', 'C11'], 'FEAS', mech,
                      {'quantity': quantity, 'solvent': solvent.name, 'verdict': verdict,
                       'exc': repr(exc)[:300], 'container': F.snap_contents(c)})
        elif verdict == 'infeasible' and not H1.is_value_error(exc):
            M.violate(['C03'], 'FEAS', f'C03:refusal_not_ValueError:fill_to:{reason}:{et}',
                      {'quantity': quantity, 'exc': repr(exc)[:300], 'container': F.snap_contents(c)})
        return
    if verdict == 'infeasible':
        if reason == 'solvent_has_no_measure':
            # the (possibly non-finite) result is the recorded finding's own outcome: keep the object so that SANE does
            # not report it again at the nested or at the plate level
            if len(M.kf03_objects) > 500:
                M.kf03_objects.clear()
            M.kf03_objects[id(result)] = result
        M.violate(['C03', 'C11'], 'FEAS', f'C03:infeasible_fill_accepted:{reason}:{base}' +
                  (':enzymes_present' if has_enz and reason == 'below_current' else ''),
                  {'quantity': quantity, 'solvent': solvent.name, 'reason': reason,
                   'container': F.snap_contents(c), 'result': F.snap_contents(result)})
        return
    # ---- postconditions (C11)
    M.count('FILL')
    total = R.measure(result.contents, base)
    tol = K * (H1.storage_noise_in(result.contents, base) + H1.request_quantum(base, result.contents)) + 1e-9 * abs(value)
    if verdict == 'boundary' and reason == 'at_current':
        tol += 1e-6 * abs(value) + K * cf.q      # a target within the quanta of the current quantity: no-op allowed
    if not M.ratio('FILL', total, value, tol):
        M.violate(['C11'], 'FILL', f'C11:fill_total_ne_target:{base}' + (':enzymes_present' if has_enz else ''),
                  {'target': value, 'unit': base, 'result_total': total, 'tol': tol, 'quantity': quantity,
                   'solvent': solvent.name, 'container': F.snap_contents(c), 'result': F.snap_contents(result)})
    only_solvent_increased(c, solvent, result, 'C11', 'fill_to')
    M.bucket(f'C11/fill_to/{base}/{H1.kinds_key(c.contents)}/' + ('cap' if math.isfinite(c.max_volume) else 'nocap'))
    if x > 0:
        M.note_nontrivial('C11', ('fill', base, solvent.name, tuple(sorted(H1.cdesc(c.contents).items())), quantity))
        M.sample('C11', {'op': 'fill_to', 'quantity': quantity, 'solvent': solvent.name,
                         'before': H1.cdesc(c.contents), 'after': H1.cdesc(result.contents)})


def only_solvent_increased(before, solvent, after, prop, op):
    bad = None
    for s, a in before.contents.items():
        if s == solvent:
            continue
        if s not in after.contents or after.contents[s] != a:
            bad = ('non_solvent_changed', s.name, (a, after.contents.get(s)))
    for s in after.contents:
        if s != solvent and s not in before.contents:
            bad = ('substance_appeared', s.name, after.contents[s])
    if after.contents.get(solvent, 0.0) < before.contents.get(solvent, 0.0) - R.cfg().q * K:
        bad = ('solvent_decreased', solvent.name, (before.contents.get(solvent, 0.0), after.contents.get(solvent, 0.0)))
    if after.max_volume != before.max_volume:
        bad = ('capacity_changed', None, (before.max_volume, after.max_volume))
    if bad:
        M.violate([prop], op.upper(), f'{prop}:{op}:{bad[0]}',
                  {'substance': bad[1], 'value': bad[2], 'before': F.snap_contents(before),
                   'after': F.snap_contents(after), 'solvent': solvent.name})


class HContainerFillTo(Handler):
    def post(self, ctx, args, kwargs, result, exc):
        pp = PP()
        self_ = args[0]
        solvent = args[1] if len(args) > 1 else kwargs.get('solvent')
        quantity = args[2] if len(args) > 2 else kwargs.get('quantity')
        if not isinstance(solvent, pp.Substance) or not isinstance(quantity, str):
            return
        check_fill(self_, solvent, quantity, result, exc, 'container' if M.depth == 1 else 'well')
        if exc is None and id(result) in M.kf03_objects:
            return
        if exc is None:
            H1.check_returned(result, 'Container.fill_to')
            from . import instr
            instr.check_fill(self_, solvent, quantity, result)


# ==================================================================================================
# DILUTE (C11, C03 B5)

def classify_dilute(c, solute, conc, solvent):
    """-> (verdict, reason, x canonical solvent to add, (value, num, den))"""
    cf = R.cfg()
    try:
        value, num, den = R.parse_concentration(conc)
    except R.Reject:
        return 'reject', 'grammar', 0.0, None
    if solute not in c.contents or c.contents.get(solute, 0) <= 0:
        return 'infeasible', 'no_solute', 0.0, (value, num, den)
    if R.is_enzyme(solute):
        return 'unjudged', 'enzyme_solute', 0.0, (value, num, den)
    if R.per(solute, num) == 0 or den == 'U':
        return 'unjudged', 'unit', 0.0, (value, num, den)
    if not (value > 0):
        return 'infeasible', 'non_positive', 0.0, (value, num, den)
    top = R.canon(solute, c.contents[solute]) * R.per(solute, num)
    bottom = R.measure(c.contents, den)
    if bottom <= 0:
        return 'unjudged', 'zero_denominator', 0.0, (value, num, den)
    c0 = top / bottom
    cq = R.conc_quantum(value)  # concentration quantum (absolute, in base-unit ratio)
    t = R.per(solvent, num) if solvent == solute else 0.0
    b = R.per(solvent, den)
    rel = (value - c0) / c0
    # how well the container's own concentration is known (the zone in which no-op, refusal and a minute dilution are all right):
    # the stated digits, half a stored digit of the solute (its amount was rounded once - a whole digit hides a 1 % dilution of
    # 10 fmol), a stored digit of everything in the denominator, and of the stored volume per litre (get_concentration reads it)
    den_digits = sum(abs(R.stored_quantum_in(s_, den)) for s_ in c.contents) / bottom
    vol_digit = cf.q / c.volume if den == 'L' and c.volume > 0 else 0.0
    relq = 4 * cq / value + 1e-9 + 0.55 * cf.q / max(c.contents[solute], cf.q) + K * (den_digits + vol_digit)
    if rel > relq:
        return 'infeasible', 'above_current', 0.0, (value, num, den)
    if rel > -relq:
        return 'boundary', 'at_current', 0.0, (value, num, den)
    denom = value * b - t
    if denom <= 0:
        return 'infeasible', 'solvent_cannot_dilute', 0.0, (value, num, den)
    x = (top - value * bottom) / denom
    v_after = (R.measure(c.contents, 'L') + x * R.per(solvent, 'L')) / cf.vol_prefix
    cap = c.max_volume
    # the parsed target is honoured to the concentration quantum q/c only, and the solvent to add scales with 1/c
    slack = 1e-6 + K * (cq / value) * abs(v_after)
    if v_after > cap * (1 + 1e-6) + slack:
        return 'infeasible', 'capacity', x, (value, num, den)
    if v_after > cap * (1 - 1e-6) - slack:
        return 'boundary', 'capacity', x, (value, num, den)
    return 'feasible', '', x, (value, num, den)


def composition_class(c, solute, solvent):
    others = [s for s, a in c.contents.items() if a > 0 and s != solute and s != solvent]
    enz = any(R.is_enzyme(s) for s in others)
    non = [s for s in others if not R.is_enzyme(s)]
    has_solvent = c.contents.get(solvent, 0) > 0
    if not others:
        return 'binary' if has_solvent else 'solute_only'
    if non:
        return 'multi' + ('+enz' if enz else '') + ('' if has_solvent else '/no_solvent')
    return 'binary+enz' + ('' if has_solvent else '/no_solvent')


def check_dilute(c, solute, conc, solvent, name, result, exc):
    cf = R.cfg()
    verdict, reason, x, parsed = classify_dilute(c, solute, conc, solvent)
    expect = M.take_expect('Container.dilute')
    M.count('FEAS.dilute')
    comp = composition_class(c, solute, solvent) if solute in c.contents else 'no_solute'
    M.bucket(f'C03/dilute/{verdict}:{reason}/' + ('refused' if exc is not None else 'accepted'))
    if verdict == 'reject':
        if exc is None:
            M.violate(['C14'], 'PARSE', 'C14:malformed_concentration_accepted:dilute', {'concentration': conc})
        return
    if verdict == 'unjudged':
        return
    if exc is not None and R.is_enzyme(solvent):
        # an enzyme as the *diluent*: the formulas need the solvent's molar mass and a density in g/mL; the library has always
        # refused it, and says so with ValueError - the refusal is not judged, its kind is
        M.count('FEAS.dilute_enzyme_diluent_refused')
        if not H1.is_value_error(exc):
            M.violate(['C03'], 'FEAS', f'C03:refusal_not_ValueError:dilute:enzyme_diluent:{type(exc).__name__}',
                      {'concentration': conc, 'exc': repr(exc)[:300]})
        return
    if exc is not None:
        et = type(exc).__name__
        if verdict == 'feasible':
            M.violate(['C11', 'C03'], 'FEAS', f'C11:feasible_dilution_refused:{comp}:{et}',
                      {'concentration': conc, 'solute': solute.name, 'solvent': solvent.name,
                       'composition': comp, 'exc': repr(exc)[:300], 'container': F.snap_contents(c),
                       'solvent_to_add_canonical': x})
        elif verdict == 'infeasible' and not H1.is_value_error(exc):
            M.violate(['C03'], 'FEAS', f'C03:refusal_not_ValueError:dilute:{reason}:{et}',
                      {'concentration': conc, 'exc': repr(exc)[:300], 'container': F.snap_contents(c)})
        return
    if verdict == 'infeasible':
        M.violate(['C11', 'C03'], 'FEAS', f'C11:infeasible_dilution_accepted:{reason}:{comp}',
                  {'concentration': conc, 'solute': solute.name, 'solvent': solvent.name, 'reason': reason,
                   'container': F.snap_contents(c), 'result': F.snap_contents(result)})
        return
    value, num, den = parsed
    M.count('DILUTE')
    only_solvent_increased(c, solvent, result, 'C11', 'dilute')
    want_name = name if name else c.name
    if result.name != want_name:
        M.violate(['C11'], 'DILUTE', 'C11:dilute:result_name', {'got': result.name, 'want': want_name})
    if verdict == 'boundary' and reason == 'at_current':
        M.bucket('C11/dilute/at_current')
        return
    got = R.concentration(result.contents, solute, num, den)
    # tolerance: concentration quantum q/c, storage quanta on solute and on the added solvent
    amt_solute = max(abs(c.contents[solute]), cf.q)
    amt_solv = max(abs(result.contents.get(solvent, 0.0)), cf.q)
    rel_tol = K * (R.conc_quantum(value) / value + cf.q / amt_solute + cf.q / amt_solv) + 1e-7
    if not M.ratio('DILUTE', got, value, rel_tol * value):
        M.violate(['C11'], 'DILUTE', f'C11:dilute_misses_target:{comp}:{num}/{den}',
                  {'target': value, 'unit': f'{num}/{den}', 'result_concentration': got, 'rel_tol': rel_tol,
                   'composition': comp, 'concentration': conc, 'solute': solute.name, 'solvent': solvent.name,
                   'container': F.snap_contents(c), 'result': F.snap_contents(result)})
    M.bucket(f'C11/dilute/{comp}/{num}/{den}/' + ('cap' if math.isfinite(c.max_volume) else 'nocap'))
    if result.contents.get(solvent, 0.0) > c.contents.get(solvent, 0.0):
        M.note_nontrivial('C11', ('dil', comp, num, den, conc, tuple(sorted(H1.cdesc(c.contents).items()))))
        M.sample('C11', {'op': 'dilute', 'concentration': conc, 'solute': solute.name, 'solvent': solvent.name,
                         'composition': comp, 'before': H1.cdesc(c.contents), 'after': H1.cdesc(result.contents),
                         'result_concentration': got})


class HContainerDilute(Handler):
    def post(self, ctx, args, kwargs, result, exc):
        pp = PP()
        names = ['self', 'solute', 'concentration', 'solvent', 'name']
        a = dict(zip(names, args))
        a.update(kwargs)
        c, solute, conc, solvent, name = a.get('self'), a.get('solute'), a.get('concentration'), a.get('solvent'), a.get('name')
        if not (isinstance(solute, pp.Substance) and isinstance(solvent, pp.Substance) and isinstance(conc, str)):
            return
        check_dilute(c, solute, conc, solvent, name, result, exc)
        if exc is None:
            H1.check_returned(result, 'Container.dilute')
            from . import instr
            instr.check_dilute(c, solvent, result)


# ==================================================================================================
# plate / slice remove and fill_to: WELLWISE by folding the container operation (C07)

def check_broadcast(target, opname, opargs, result, exc, op):
    """target: Plate or PlateSlicer (the argument); opname: 'remove'|'fill_to'."""
    pp = PP()
    from copy import deepcopy
    sl = H1.as_slicer(target)
    try:
        idx, shape = H1.addressed(sl)
    except Exception:
        return
    plate = sl.plate
    M.count('WELLWISE.' + opname)
    if 'Recipe.bake' in M.opstack:
        M.count('WELLWISE.recipe_step')
        M.bucket('C07/recipe/' + opname)
    exp = {}
    fold_exc = None
    with M.oracle():
        try:
            for ij in idx:
                w = deepcopy(plate.wells[ij])
                exp[ij] = getattr(w, opname)(*opargs)
        except Exception as e:   # noqa
            fold_exc = e
    whole = len(set(idx)) == plate.wells.size
    geom = 'whole' if whole else ('list' if isinstance(sl.slices, list) else 'part')
    M.bucket(f'C07/{opname}/{geom}/' + ('refused' if exc is not None else 'accepted'))
    if exc is not None:
        if not idx and opname == 'fill_to':
            # no wells to fold over: the request is still refused when its quantity is not one (fix 710321e)
            try:
                v_, b_ = R.parse_quantity(opargs[1])
                if not (v_ > 0) or b_ not in ('L', 'g', 'mol'):
                    return
            except Exception:   # noqa
                return
        if fold_exc is None:
            M.violate(['C07'] + (['C11', 'C03'] if opname == 'fill_to' else []), 'WELLWISE', f'C07:legal_plate_{opname}_refused:{type(exc).__name__}',
                      {'exc': repr(exc)[:300], 'target': F.describe(target)})
        return
    if fold_exc is not None:
        M.violate(['C07', 'C03'], 'WELLWISE', f'C07:plate_{opname}_accepted_but_per_well_refused',
                  {'fold_exc': repr(fold_exc)[:300], 'target': F.describe(target)})
        return
    if not isinstance(result, pp.Plate) or result.wells.shape != plate.wells.shape:
        M.violate(['C07'], 'WELLWISE', f'C07:plate_{opname}_result_not_same_shape_plate', {'got': repr(result)[:100]})
        return
    H1.check_returned(result, op)
    tset = set(idx)
    for ij, w in H1._enum(plate.wells):
        got = result.wells[ij]
        if ij in tset:
            M.count('WELLWISE.well')
            d = H1.same_container_state(got, exp[ij])
            if d:
                M.violate(['C07'] + (['C17'] if opname == 'remove' else ['C11']), 'WELLWISE',
                          f'C07:well_ne_standalone_operation:{opname}:{geom}',
                          {'well': ij, 'diff': d, 'got': F.snap_contents(got), 'expected': F.snap_contents(exp[ij]),
                           'idx': idx[:16]})
                break
        else:
            M.count('LOCAL')
            if F.fp_container(w) != F.fp_container(got):
                M.violate(['C07'] + (['C17'] if opname == 'remove' else ['C11']), 'WELLWISE',
                          f'C07:unaddressed_well_changed:{opname}:{geom}',
                          {'well': ij, 'before': F.snap_contents(w), 'after': F.snap_contents(got), 'idx': idx[:16]})
                break
    distinct = len({tuple(sorted(H1.cdesc(plate.wells[ij].contents).items())) for ij in idx})
    if len(idx) >= 2 and distinct >= 2 and not whole:
        M.note_nontrivial('C07', (opname, tuple(idx), repr(opargs[-1])[:30],
                                  tuple(sorted(H1.cdesc(plate.wells[idx[0]].contents).items()))))
        M.sample('C07', {'op': op, 'selector': repr(sl.item), 'plate_shape': list(plate.wells.shape),
                         'addressed': idx[:8], 'args': [getattr(a, 'name', a) for a in opargs]})


class HBroadcast(Handler):
    def __init__(self, opname):
        self.opname = opname

    def post(self, ctx, args, kwargs, result, exc):
        target = args[0]
        rest = list(args[1:])
        if self.opname == 'remove':
            what = rest[0] if rest else kwargs.get('what', R.LIQUID)
            check_broadcast(target, 'remove', (what,), result, exc, self.op)
        else:
            solvent = rest[0] if rest else kwargs.get('solvent')
            quantity = rest[1] if len(rest) > 1 else kwargs.get('quantity')
            check_broadcast(target, 'fill_to', (solvent, quantity), result, exc, self.op)


# ==================================================================================================
# OBS (C10 b): observers equal their definition evaluated on .contents

def check_get_volume(c, unit, result, exc):
    cf = R.cfg()
    if unit is None:
        unit = cf.volume_display_unit
    if not isinstance(unit, str):
        return
    try:
        p, b = R.split_unit(unit)
    except R.Reject:
        return
    if b != 'L':
        # a volume cannot be stated in moles, grams or activity units: the question is refused, not answered with some number
        M.count('OBS.get_volume_wrong_kind_of_unit')
        M.bucket('C10/get_volume/wrong_kind_of_unit')
        if exc is None and c.contents and R.measure(c.contents, 'L') > 0:
            M.violate(['C10', 'C06', 'C18'], 'OBS', f'C10:volume_answered_in_a_unit_that_is_not_a_volume:{b}',
                      {'unit': unit, 'got': result, 'container': F.snap_contents(c)})
        return
    M.count('OBS.get_volume')
    if exc is not None:
        M.violate(['C10', 'C18'], 'OBS', f'C10:get_volume_raised:{type(exc).__name__}',
                  {'unit': unit, 'exc': repr(exc)[:200], 'storage_unit': cf.vol_unit})
        return
    exp = R.measure(c.contents, 'L') / R.PREFIX[p]
    n = len(c.contents)
    # (the answer keeps what the storage unit resolves: q storage units, or q of the requested unit if that is finer)
    tol = (K * cf.q * (n + 2) * (1 + sum(abs(H1.vol_per_stored(s)) for s in c.contents)) * cf.vol_prefix / R.PREFIX[p]
           + K * cf.q * min(1.0, cf.vol_prefix / R.PREFIX[p]) + 1e-9 * abs(exp))
    if not M.ratio('OBS.get_volume', result, exp, tol):
        M.violate(['C10'], 'OBS', 'C10:get_volume_ne_definition',
                  {'unit': unit, 'got': result, 'expected': exp, 'tol': tol, 'container': F.snap_contents(c)})
    M.bucket(f'C10/get_volume/{p or "-"}L')


def check_get_concentration(c, solute, units, result, exc):
    cf = R.cfg()
    if units is None:
        units = cf.concentration_display_unit          # (the documented default of get_concentration)
    try:
        mult, num, den = R.parse_concentration('1 ' + units)
    except R.Reject:
        return
    if den == 'U':
        return
    if den == 'L' and 0 <= R.measure(c.contents, 'L') <= 1e3 * (cf.q * cf.vol_prefix * (len(c.contents) + 2) + H1.storage_noise_in(c.contents, 'L')):
        # what the container holds is within a thousand *storage* quanta of nothing (the residue of an emptied vessel): its
        # stored volume may be 0 while a few quanta of content remain - a concentration per volume means nothing there
        M.count('OBS.below_storage_resolution')
        return
    M.count('OBS.get_concentration')
    exp = R.concentration(c.contents, solute, num, den)
    if exc is not None:
        if math.isfinite(exp) and mult < 0.5 * cf.q and isinstance(exc, ZeroDivisionError):
            # (KF32, repaired: the unit itself is parsed as the concentration '1 <unit>'; when that was rounded to ten decimals
            # in base units the multiplier of ng/kg, nmol/kL became 0)
            M.violate(['C10'], 'OBS', 'C10:get_concentration_unit_multiplier_rounds_to_zero:ZeroDivisionError',
                      {'units': units, 'multiplier_to_base_units': mult, 'exc': repr(exc)[:200]})
        elif math.isfinite(exp):
            M.violate(['C10'], 'OBS', f'C10:get_concentration_raised:{type(exc).__name__}',
                      {'units': units, 'exc': repr(exc)[:200], 'container': F.snap_contents(c)})
        return
    if not math.isfinite(exp):
        return
    exp_u = exp / mult
    # observer quanta: numerator/denominator storage quanta, get_volume rounding (q in the output
    # volume unit), result rounding q
    amt = abs(c.contents.get(solute, 0.0))
    bottom = R.measure(c.contents, den)
    if bottom <= 0:
        return
    rel = K * cf.q * (1.0 / max(amt, cf.q))
    if den == 'L':
        # the stored volume is kept by the operations' own bookkeeping: it follows the contents to one storage quantum of
        # each substance (for a macromolecule 1e-10 umol is 1e-8 uL) and of the volume per operation
        rel += K * (cf.q * (len(c.contents) + 2) * cf.vol_prefix + 3 * H1.storage_noise_in(c.contents, 'L')) / bottom
    tol = abs(exp_u) * (rel + 1e-9) + K * R.conc_quantum(exp_u)        # (the answer carries ten significant digits)
    if not M.ratio('OBS.get_concentration', result, exp_u, tol):
        M.violate(['C10'], 'OBS', f'C10:get_concentration_ne_definition:{num}/{den}',
                  {'units': units, 'solute': solute.name, 'got': result, 'expected': exp_u, 'tol': tol,
                   'container': F.snap_contents(c)})
    M.bucket(f'C10/get_concentration/{num}/{den}/{R.kind(solute)}' +
             ('/enz_present' if any(R.is_enzyme(s) and a > 0 for s, a in c.contents.items()) else ''))
    if len([a for a in c.contents.values() if a > 0]) >= 2 and exp > 0:
        M.note_nontrivial('C10', ('gc', units, solute.name, tuple(sorted(H1.cdesc(c.contents).items()))))
        M.sample('C10', {'observer': 'get_concentration', 'units': units, 'solute': solute.name,
                         'contents': H1.cdesc(c.contents), 'got': result, 'by_definition': exp_u})


class HGetVolume(Handler):
    def post(self, ctx, args, kwargs, result, exc):
        unit = args[1] if len(args) > 1 else kwargs.get('unit')
        check_get_volume(args[0], unit, result, exc)


class HGetConcentration(Handler):
    def post(self, ctx, args, kwargs, result, exc):
        pp = PP()
        solute = args[1] if len(args) > 1 else kwargs.get('solute')
        units = args[2] if len(args) > 2 else kwargs.get('units', None)
        if isinstance(solute, pp.Substance) and isinstance(units, str):
            check_get_concentration(args[0], solute, units, result, exc)


def _wells_of(target):
    pp = PP()
    if isinstance(target, pp.Plate):
        return target.wells, list(H1._enum(target.wells))
    sl = target
    idx, shape = H1.addressed(sl)
    return None, [(ij, sl.plate.wells[ij]) for ij in idx]


class HPlateObserver(Handler):
    def __init__(self, which):
        self.which = which

    def post(self, ctx, args, kwargs, result, exc):
        pp = PP()
        cf = R.cfg()
        target = args[0]
        which = self.which
        try:
            _, wells = _wells_of(target)
        except Exception:
            return
        names = {'get_volumes': ['substance', 'unit'], 'get_moles': ['substance', 'unit'],
                 'get_volume': ['unit'], 'get_substances': []}[which]
        a = dict(zip(names, args[1:]))
        a.update(kwargs)
        M.count('OBS.' + which)
        if which == 'get_substances':
            if exc is not None:
                return
            exp = set()
            for _, w in wells:
                exp |= set(w.contents.keys())
            if set(result) != exp:
                M.violate(['C10'], 'OBS', 'C10:get_substances_ne_key_set',
                          {'got': sorted(s.name for s in result), 'expected': sorted(s.name for s in exp)})
            M.bucket('C10/get_substances')
            return
        unit = a.get('unit')
        subst = a.get('substance')
        if which == 'get_volume':
            unit = unit if unit is not None else cf.volume_display_unit      # (the configured unit, like get_volumes: fix 2ef3f96)
        elif which == 'get_volumes':
            unit = unit if unit is not None else cf.volume_display_unit
        else:
            unit = unit if unit is not None else cf.moles_display_unit      # (a slice like the plate: fix 9457100)
        if not isinstance(unit, str):
            return
        try:
            p, b = R.split_unit(unit)
        except R.Reject:
            return
        if isinstance(subst, pp.Substance):
            only = [subst]
        elif subst is None:
            only = None
        else:
            try:
                only = list(subst)
            except TypeError:
                return
            if not all(isinstance(s, pp.Substance) for s in only):
                return
        if which == 'get_moles' and b != 'mol':
            # moles asked for in a unit of another dimension: refused (ValueError), never answered in that dimension
            M.count('OBS.get_moles_wrong_kind_of_unit')
            if exc is None and any(R.measure(w_.contents, b, only) > 0 for _, w_ in wells):
                M.violate(['C10', 'C06', 'C18'], 'OBS', f'C10:moles_answered_in_a_unit_that_is_not_moles:{b}',
                          {'unit': unit, 'got': repr(result)[:120]})
            elif exc is not None and not isinstance(exc, ValueError):
                M.violate(['C10'], 'OBS', f'C10:{which}_raised:{type(exc).__name__}', {'unit': unit, 'exc': repr(exc)[:200]})
            return
        if which in ('get_volume', 'get_volumes') and b != 'L':
            M.count('OBS.get_volume_wrong_kind_of_unit')
            if exc is None and any(R.measure(w_.contents, b if only is not None else 'L', only) > 0 for _, w_ in wells):
                M.violate(['C10', 'C06', 'C18'], 'OBS', f'C10:volume_answered_in_a_unit_that_is_not_a_volume:{b}:{which}',
                          {'unit': unit, 'got': repr(result)[:120]})
            elif exc is not None and not isinstance(exc, ValueError):
                M.violate(['C10'], 'OBS', f'C10:{which}_raised:{type(exc).__name__}', {'unit': unit, 'exc': repr(exc)[:200]})
            return
        if exc is not None:
            M.violate(['C10', 'C18'], 'OBS', f'C10:{which}_raised:{type(exc).__name__}',
                      {'unit': unit, 'exc': repr(exc)[:200]})
            return
        prec = cf.precision(unit)
        half = 0.5 * 10.0 ** (-prec)
        vals = []
        for ij, w in wells:
            base = b
            v = R.measure(w.contents, base, only) / R.PREFIX[p]
            tol_w = (K * cf.q * (len(w.contents) + 2) * (1 + sum(abs(H1.vol_per_stored(s)) for s in w.contents))
                     * (cf.vol_prefix if base == 'L' else cf.mol_prefix if base == 'mol' else 1.0) / R.PREFIX[p]
                     + K * cf.q + 1e-9 * abs(v))
            vals.append((v, tol_w))
        if which == 'get_volume':
            exp = sum(v for v, _ in vals)
            tol = sum(t for _, t in vals) + half        # the total is rounded for display once
            got = float(result)
            # "rounded to the configured precision": the total carries no more digits than configured for its unit, whether the
            # unit was named or defaulted (seeded s-C10-h: the unit's own digits only when it was defaulted)
            x_ = got * 10.0 ** prec
            if math.isfinite(x_) and abs(x_ - round(x_)) > 1e-6 * max(1.0, abs(x_)):
                M.violate(['C10'], 'OBS', 'C10:get_volume_not_rounded_to_the_configured_precision',
                          {'unit': unit, 'unit_argument': a.get('unit'), 'configured_digits': prec, 'got': got})
            if not M.ratio('OBS.plate', got, exp, tol):
                M.violate(['C10'], 'OBS', 'C10:plate_get_volume_ne_sum_of_wells',
                          {'unit': unit, 'got': got, 'expected': exp, 'tol': tol})
        else:
            arr = numpy.asarray(result, dtype=float).flatten()
            if arr.size != len(vals):
                M.violate(['C10'], 'OBS', f'C10:{which}_wrong_shape', {'got': arr.size, 'wells': len(vals)})
                return
            # "rounded to the configured precision": a reported value carries no more digits than configured for its unit
            scale = 10.0 ** prec
            for g in arr:
                x_ = float(g) * scale
                if math.isfinite(x_) and abs(x_ - round(x_)) > 1e-6 * max(1.0, abs(x_)):
                    M.violate(['C10'], 'OBS', f'C10:{which}_not_rounded_to_the_configured_precision',
                              {'unit': unit, 'unit_argument': a.get('unit'), 'configured_digits': prec, 'got': float(g)})
                    break
            for k, ((v, t), g) in enumerate(zip(vals, arr)):
                if not M.ratio('OBS.plate', float(g), v, t + half):
                    M.violate(['C10'], 'OBS', f'C10:{which}_ne_definition:{b}',
                              {'unit': unit, 'well': wells[k][0], 'got': float(g), 'expected': v, 'tol': t + half,
                               'substances': [s.name for s in only] if only else None,
                               'well_contents': H1.cdesc(wells[k][1].contents)})
                    break
        enz = any(R.is_enzyme(s) and x > 0 for _, w in wells for s, x in w.contents.items())
        M.bucket(f'C10/{which}/{unit}' + ('/enz' if enz else '') + ('/subst' if only else ''))
        if any(len(w.contents) >= 2 for _, w in wells):
            M.note_nontrivial('C10', (which, unit, tuple(s.name for s in only) if only else None,
                                      tuple(tuple(sorted(H1.cdesc(w.contents).items())) for _, w in wells[:6])))


# ==================================================================================================
# Recipe: IMMUT is done by the core on the arguments; here we keep every object handed to a recipe
# and re-verify all of them after every later recipe call (C04 third clause).

class HRecipe(Handler):
    def __init__(self, method):
        self.method = method

    def pre(self, args, kwargs):
        pp = PP()
        r = args[0]
        handed = M.recipes.setdefault(id(r), [])
        known = {id(o) for o, _ in handed}

        def visit(o):
            if isinstance(o, (pp.Container, pp.Plate, pp.PlateSlicer)):
                if id(o) not in known:
                    known.add(id(o))
                    handed.append((o, F.fingerprint(o)))
                    if isinstance(o, pp.PlateSlicer) and id(o.plate) not in known:
                        known.add(id(o.plate))
                        handed.append((o.plate, F.fingerprint(o.plate)))
            elif isinstance(o, (list, tuple)):
                for x in o:
                    visit(x)
        for a in list(args[1:]) + list(kwargs.values()):
            visit(a)
        return handed

    def post(self, ctx, args, kwargs, result, exc):
        handed = ctx
        outcome = 'returned' if exc is None else 'raised'
        for o, fb in handed:
            M.count('IMMUT.recipe_handed')
            fa = F.fingerprint(o)
            if fa != fb:
                M.violate('C04', 'IMMUT', f'C04:object_handed_to_recipe_changed:Recipe.{self.method}:{outcome}',
                          {'method': self.method, 'object': H1._short(o), 'diff': F.diff(fb, fa)})
        M.bucket(f'C04/recipe_handed/{self.method}/{outcome}')
        if self.method == 'bake' and exc is None:
            H1.check_returned(result, 'Recipe.bake')


# ==================================================================================================
# handler table

def handler_table(unit_monitors=False):
    from . import handlers3 as H3
    t = {
        ('Container', '__init__'): H1.HContainerInit(),
        ('Plate', '__init__'): H1.HPlateInit(),
        ('Container', 'transfer'): H1.HContainerTransfer(),
        ('Plate', 'transfer'): H1.HPlateTransfer(),
        ('Container', 'remove'): HContainerRemove(),
        ('Container', 'fill_to'): HContainerFillTo(),
        ('Container', 'dilute'): HContainerDilute(),
        ('Container', 'create_solution'): H3.HCreateSolution(),
        ('Container', 'create_solution_from'): H3.HCreateSolutionFrom(),
        ('Container', 'get_volume'): HGetVolume(),
        ('Container', 'get_concentration'): HGetConcentration(),
        ('Plate', 'remove'): HBroadcast('remove'),
        ('Plate', 'fill_to'): HBroadcast('fill_to'),
        ('PlateSlicer', 'remove'): HBroadcast('remove'),
        ('PlateSlicer', 'fill_to'): HBroadcast('fill_to'),
        ('Plate', 'get_volumes'): HPlateObserver('get_volumes'),
        ('Plate', 'get_moles'): HPlateObserver('get_moles'),
        ('Plate', 'get_volume'): HPlateObserver('get_volume'),
        ('Plate', 'get_substances'): HPlateObserver('get_substances'),
        ('PlateSlicer', 'get_volumes'): HPlateObserver('get_volumes'),
        ('PlateSlicer', 'get_moles'): HPlateObserver('get_moles'),
        ('PlateSlicer', 'get_substances'): HPlateObserver('get_substances'),
    }
    for m in ('uses', 'transfer', 'create_container', 'create_solution', 'create_solution_from', 'remove',
              'dilute', 'fill_to', 'start_stage', 'end_stage', 'bake'):
        t[('Recipe', m)] = HRecipe(m)
    if unit_monitors:
        t.update(H3.unit_handlers())
    return t
