"""Operation-specific monitors (DESIGN.md section 3.2).  Part 1: value checks and transfers."""
from __future__ import annotations

import math

from . import refmodel as R
from . import fingerprint as F
from .monitors import M, Handler, InjectedFault, MonitorBug

K = R.K


def PP():
    import pyplate.pyplate as pp
    return pp


# ==================================================================================================
# helpers

def vol_per_stored(sub):
    """storage-volume units per one storage unit of sub (e.g. uL per umol)."""
    return R.canon(sub, 1.0) * R.per(sub, 'L') / R.cfg().vol_prefix


def subs_of(*contents):
    out = []
    for c in contents:
        for s in c:
            if s not in out:
                out.append(s)
    return out


def cname(s):
    return s.name


def cdesc(contents):
    return {s.name: a for s, a in contents.items()}


def kinds_key(contents):
    ks = sorted({R.kind(s)[0] for s, a in contents.items() if a != 0})
    return ''.join(ks) or '-'


def is_value_error(exc):
    return isinstance(exc, ValueError)


# ==================================================================================================
# SANE (C03a) and BOOK (C10a) on every returned container / well

def check_container_value(c, where):
    if id(c) in M.kf03_objects:
        return
    cf = R.cfg()
    q = cf.q
    M.count('SANE')
    bad = None
    for s, a in c.contents.items():
        if not isinstance(a, (int, float)) or not math.isfinite(a):
            bad = ('nonfinite_amount', s.name, a)
        elif a < -(K * q + R.noise(a)):
            bad = ('negative_amount', s.name, a)
    v = c.volume
    if not isinstance(v, (int, float)) or math.isnan(v) or math.isinf(v):
        bad = ('nonfinite_volume', None, v)
    elif v < -(K * q):
        bad = ('negative_volume', None, v)
    elif v > c.max_volume * (1 + 1e-9) + K * q * (len(c.contents) + 2) * (1 + sum(abs(vol_per_stored(s)) for s in c.contents)):
        # (one storage quantum of an amount is up to 1e-7 uL of volume - an enzyme at 1 U/mL: a volume recomputed from the
        #  rounded amounts may exceed a capacity it was within by that much)
        bad = ('volume_over_capacity', None, (v, c.max_volume))
    if bad:
        M.violate(['C03', 'C01', 'C02'] if bad[0].startswith('nonfinite') else 'C03', 'SANE', f'C03:impossible_state:{bad[0]}:{where}',
                  {'where': where, 'what': bad[0], 'substance': bad[1], 'value': bad[2],
                   'container': F.snap_contents(c)})
    # BOOK: stored volume = sum of the volumes of the contents
    M.count('BOOK')
    exp = R.volume_storage(c.contents)
    n = len(c.contents)
    tol = K * q * (n + 2) * (1 + sum(abs(vol_per_stored(s)) for s in c.contents)) + 1e-9 * abs(exp) + R.noise(exp)
    if isinstance(v, (int, float)) and math.isfinite(v) and math.isfinite(exp):
        if not M.ratio('BOOK', v, exp, tol):
            M.violate('C10', 'BOOK', f'C10:volume_ne_sum_of_contents:{where}',
                      {'where': where, 'stored_volume': v, 'sum_of_contents': exp, 'tol': tol,
                       'container': F.snap_contents(c)})


def check_returned(value, where):
    pp = PP()
    if isinstance(value, pp.Container):
        check_container_value(value, where)
    elif isinstance(value, pp.Plate):
        for w in value.wells.flatten():
            check_container_value(w, where + ':well')
    elif isinstance(value, (tuple, list)):
        for x in value:
            check_returned(x, where)
    elif isinstance(value, dict):
        for x in value.values():
            check_returned(x, where)


# ==================================================================================================
# transfer semantics by the reference model

def request(quantity):
    """Reference reading of a quantity string -> (value in base unit, base) or None if rejected."""
    try:
        return R.parse_quantity(quantity)
    except R.Reject:
        return None


def request_quantum(base, contents=None):
    """Quantum with which a request in `base` is honoured (DESIGN.md section 4), in base units.
    Volume requests are taken as a fraction of the *stored* volume, which may differ from the sum of the
    contents' volumes by the bookkeeping quanta (one storage quantum of an enzyme can be 1e-7 uL)."""
    cf = R.cfg()
    if isinstance(contents, int):
        contents = None
    if base == 'L':
        n = len(contents) if contents else 1
        drift = 1 + (sum(abs(vol_per_stored(s)) for s in contents) if contents else 0.0)
        return cf.q * cf.vol_prefix * (n + 3) * drift
    if base == 'g':
        return 0.0      # a mass has no storage unit: the request keeps the digits a float carries (fix 31962f1); what the stored
                        # amounts of the contents cannot resolve is added by the callers (storage_noise_in)
    if base == 'mol':
        return cf.q * cf.mol_prefix
    if base == 'U':
        return cf.q          # activity amounts are stored, and requests compared, at 1e-10 U
    return 0.0


def storage_noise_in(contents, base):
    """Effect of one storage quantum per substance on the total in `base`."""
    return sum(abs(R.stored_quantum_in(s, base)) for s in contents)


def classify_transfer(src_contents, dst_contents, dst_cap, value, base):
    """Reference feasibility of a container->container transfer.
    -> ('feasible'|'infeasible'|'boundary', reason, f, margins)"""
    cf = R.cfg()
    m = R.measure(src_contents, base)
    rq = request_quantum(base, src_contents) + storage_noise_in(src_contents, base) * K
    if math.isnan(value):
        return 'infeasible', 'nan', 0.0, {}
    if value < -rq:
        return 'infeasible', 'negative', 0.0, {}
    if m <= 0:
        if value > rq:
            return 'infeasible', 'zero_measure', 0.0, {}
        return 'boundary', 'zero_measure', 0.0, {}
    f = value / m
    over = value - m
    src_state = 'ok'
    if over > 1e-6 * m + K * rq:
        return 'infeasible', 'overdraw', f, {'measure': m}
    if over > -(1e-6 * m + K * rq):
        src_state = 'boundary'
    v_after = (R.measure(dst_contents, 'L') + f * R.measure(src_contents, 'L')) / cf.vol_prefix
    vq = cf.q * K * (len(src_contents) + len(dst_contents) + 2) * (
        1 + sum(abs(vol_per_stored(s)) for s in subs_of(src_contents, dst_contents)))
    # the request quantum (e.g. 1e-10 g for a request by mass) seen as a volume arriving at the destination
    vq += K * (rq / m) * R.measure(src_contents, 'L') / cf.vol_prefix
    if v_after > dst_cap * (1 + 1e-6) + vq:
        return 'infeasible', 'capacity', f, {'v_after': v_after, 'cap': dst_cap}
    if v_after > dst_cap * (1 - 1e-6) - vq:
        return 'boundary', 'capacity', f, {'v_after': v_after, 'cap': dst_cap, 'src': src_state}
    if src_state == 'boundary':
        return 'boundary', 'whole_content', f, {'measure': m}
    if value < rq:
        return 'boundary', 'tiny', f, {}
    return 'feasible', '', f, {'measure': m}


def check_container_transfer(src, dst, quantity, result, exc, nested):
    """CONS + ALIQ + FEAS for one container->container transfer.  src/dst are the *arguments*
    (IMMUT guards them), result = (src', dst') or None."""
    cf = R.cfg()
    q = cf.q
    req = request(quantity)
    where = 'nested' if nested else 'top'
    if req is None or (not R.quantity_prefix_is_judged(quantity)):
        M.count('transfer.unjudged_quantity')
        if req is None and exc is None and isinstance(quantity, str):
            # not a quantity by the documented grammar, yet a result came back: whatever it holds was not asked for
            M.violate(['C14', 'C03', 'C01', 'C02'], 'PARSE', 'C14:malformed_quantity_accepted:Container.transfer',
                      {'quantity': quantity, 'src': F.snap_contents(src), 'src_after': F.snap_contents(result[0]) if result else None})
        return
    value, base = req
    sc, dc = src.contents, dst.contents
    verdict, reason, f, info = classify_transfer(sc, dc, dst.max_volume, value, base)
    expect = M.take_expect('Container.transfer')
    self_transfer = src is dst

    # ---------------- FEAS (C03 b, c)
    M.count('FEAS.transfer')
    M.bucket(f'C03/transfer/{base}/{verdict}:{reason}/' + ('refused' if exc is not None else 'accepted'))
    if exc is not None:
        et = type(exc).__name__
        if isinstance(exc, (TypeError,)) and verdict != 'feasible':
            pass
        if verdict == 'feasible' or (expect and expect.get('must') == 'accept'):
            tag = (expect or {}).get('tag', '')
            if verdict == 'boundary' and reason == 'capacity':
                # exact-capacity transfer refused: recorded finding only in its specific form
                mech = refine_exact_capacity(src, dst, quantity, exc, info)
            else:
                mech = f'C03:feasible_transfer_refused:{base}:{tag or reason or "plain"}:{et}'
            M.violate(['C03'], 'FEAS', mech,
                      {'quantity': quantity, 'verdict': verdict, 'reason': reason, 'info': info,
                       'exc': repr(exc)[:300], 'src': F.snap_contents(src), 'dst': F.snap_contents(dst)})
        elif not is_value_error(exc):
            if reason == 'zero_measure' and isinstance(exc, ZeroDivisionError):
                mech = f'C03:zero_measure_source:{base}:ZeroDivisionError'
            else:
                mech = f'C03:refusal_not_ValueError:transfer:{base}:{reason}:{et}'
            M.violate(['C03'], 'FEAS', mech,
                      {'quantity': quantity, 'verdict': verdict, 'reason': reason,
                       'exc': repr(exc)[:300], 'src': F.snap_contents(src), 'dst': F.snap_contents(dst)})
        return
    # accepted
    s2, d2 = result
    if verdict == 'infeasible' or (expect and expect.get('must') == 'refuse'):
        M.violate(['C03'], 'FEAS', f'C03:infeasible_transfer_accepted:{base}:{reason}',
                  {'quantity': quantity, 'reason': reason, 'info': info, 'src': F.snap_contents(src),
                   'dst': F.snap_contents(dst), 'src_after': F.snap_contents(s2),
                   'dst_after': F.snap_contents(d2)})
        # an impossible request has no defined aliquot: CONS still applies, ALIQ does not
        aliq = False
    else:
        aliq = True

    # ---------------- CONS (C01)
    M.count('CONS.container')
    if self_transfer:
        M.bucket('C01/self_transfer')
        # a container transferred into itself: the only conserving outcome is "unchanged" totals for
        # whichever of the two returned objects the caller keeps.
        depleted = all(abs(s2.contents.get(s, 0) - (a - a * f)) <= K * q + 1e-9 * abs(a) for s, a in sc.items())
        enriched = all(abs(d2.contents.get(s, 0) - (a + a * f)) <= K * q + 1e-9 * abs(a) for s, a in sc.items())
        if f > 0 and any(a > 0 for a in sc.values()):
            outcome = 'depleted_enriched_pair' if (depleted and enriched) else 'other'
            M.violate(['C01'], 'CONS', f'C01:self_transfer:{outcome}',
                      {'quantity': quantity, 'src': F.snap_contents(src), 'src_after': F.snap_contents(s2),
                       'dst_after': F.snap_contents(d2)})
        return
    moved_any = False
    for s in subs_of(sc, dc, s2.contents, d2.contents):
        b = sc.get(s, 0.0) + dc.get(s, 0.0)
        a = s2.contents.get(s, 0.0) + d2.contents.get(s, 0.0)
        tol = K * q + R.noise(b) + 1e-12 * abs(b)
        if not M.ratio('CONS', a, b, tol):
            M.violate(['C01'], 'CONS', f'C01:container_transfer_not_conserved:{base}',
                      {'substance': s.name, 'before_total': b, 'after_total': a, 'tol': tol,
                       'quantity': quantity, 'src': F.snap_contents(src), 'dst': F.snap_contents(dst),
                       'src_after': F.snap_contents(s2), 'dst_after': F.snap_contents(d2)})
        if sc.get(s, 0.0) != s2.contents.get(s, 0.0):
            moved_any = True
    # the same balance with the books keyed by what identifies a substance (R.ident), not by the library's own equality
    bi, ai = R.ident_totals(sc, dc), R.ident_totals(s2.contents, d2.contents)
    for k_ in set(bi) | set(ai):
        b, a = bi.get(k_, 0.0), ai.get(k_, 0.0)
        tol = K * q + R.noise(b) + 1e-12 * abs(b)
        if abs(a - b) > tol:
            M.violate(['C01'], 'CONS', f'C01:container_transfer_not_conserved:{base}',
                      {'substance_identity': list(k_), 'before_total': b, 'after_total': a, 'tol': tol,
                       'quantity': quantity, 'src': F.snap_contents(src), 'dst': F.snap_contents(dst),
                       'src_after': F.snap_contents(s2), 'dst_after': F.snap_contents(d2)})
            break
    form = 'C->C' if not nested else 'nested'
    M.bucket(f'C01/unit={base}/form={form}')
    if moved_any:
        M.note_nontrivial('C01', ('ct', base, tuple(sorted(cdesc(sc).items())), quantity))

    # ---------------- ALIQ (C02)
    if not aliq:
        return
    M.count('ALIQ')
    m = info.get('measure') if info else None
    if m is None:
        m = R.measure(sc, base)
    if m <= 0:
        return
    rq = request_quantum(base, sc)
    rq_rel = rq / m
    if reason == 'whole_content':
        # within the boundary zone of "everything": the aliquot is at most the whole content
        rq_rel += abs(f - 1.0)
        rq += abs(value - m)
        f = min(f, 1.0)
    ok = True
    for s, a in sc.items():
        exp_src = a - f * a
        tol = K * (q + abs(a) * rq_rel) + R.noise(a) + 1e-9 * abs(f * a)
        got_src = s2.contents.get(s, 0.0)
        if not M.ratio('ALIQ', got_src, exp_src, tol):
            ok = False
            M.violate(['C02'], 'ALIQ', f'C02:not_uniform_aliquot:source:{base}',
                      {'substance': s.name, 'before': a, 'after': got_src, 'expected_after': exp_src,
                       'fraction': f, 'tol': tol, 'quantity': quantity, 'src': F.snap_contents(src),
                       'src_after': F.snap_contents(s2)})
        exp_dst = dc.get(s, 0.0) + f * a
        got_dst = d2.contents.get(s, 0.0)
        if not M.ratio('ALIQ', got_dst, exp_dst, tol + R.noise(exp_dst)):
            ok = False
            M.violate(['C02'], 'ALIQ', f'C02:aliquot_not_added:destination:{base}',
                      {'substance': s.name, 'before': dc.get(s, 0.0), 'after': got_dst,
                       'expected_after': exp_dst, 'fraction': f, 'tol': tol, 'quantity': quantity,
                       'src': F.snap_contents(src), 'dst': F.snap_contents(dst),
                       'dst_after': F.snap_contents(d2)})
    for s in d2.contents:
        if s not in sc and d2.contents[s] != dc.get(s, 0.0):
            ok = False
            M.violate(['C02'], 'ALIQ', f'C02:bystander_changed:destination:{base}',
                      {'substance': s.name, 'before': dc.get(s, 0.0), 'after': d2.contents[s]})
    # size of the aliquot in the unit of the request
    size_src = m - R.measure(s2.contents, base)
    size_dst = R.measure(d2.contents, base) - R.measure(dc, base)
    tol = K * (storage_noise_in(sc, base) + rq) + 1e-9 * abs(value) + R.noise(m, R.measure(dc, base))
    if reason == 'whole_content':
        value = min(value, m)
    for side, size in (('source', size_src), ('destination', size_dst)):
        if not M.ratio('ALIQ.size', size, value, tol):
            ok = False
            M.violate(['C02'], 'ALIQ', f'C02:aliquot_size_ne_request:{side}:{base}',
                      {'requested': value, 'unit': base, 'measured': size, 'tol': tol, 'quantity': quantity,
                       'src': F.snap_contents(src), 'src_after': F.snap_contents(s2),
                       'dst': F.snap_contents(dst), 'dst_after': F.snap_contents(d2)})
    nz = [s for s, a in sc.items() if a > 0]
    excl = any((R.per(s, base) == 0) for s in nz)
    M.bucket(f'C02/unit={base}/' + ('f=0' if f == 0 else 'f=1' if reason == 'whole_content' else 'partial'))
    if excl:
        M.bucket(f'C02/unit={base}/unit_excludes_part')
    if len(nz) >= 2 and 0 < f < 1:
        M.note_nontrivial('C02', ('al', base, tuple(sorted(cdesc(sc).items())), quantity))
        if ok:
            M.sample('C02', {'op': 'Container.transfer', 'quantity': quantity, 'fraction': f,
                             'source': cdesc(sc), 'source_after': cdesc(s2.contents)})


def refine_exact_capacity(src, dst, quantity, exc, info):
    """Row 10: an exact-capacity transfer refused.  Matches the recorded finding only if the same
    request against a capacity enlarged by 1e-9 relative is accepted."""
    from copy import deepcopy
    pp = PP()
    et = type(exc).__name__
    try:
        with M.oracle():
            d = deepcopy(dst)
            d.max_volume = d.max_volume * (1 + 1e-9) + 4 * R.cfg().q
            pp.Container.transfer(src, d, quantity)
        v, cap = info.get('v_after', 0), info.get('cap', 1)
        if abs(v - cap) <= 1e-9 * cap + R.cfg().q * 40 and et == 'ValueError':
            return 'C03:exact_capacity_transfer_refused:float_noise'
        return f'C03:near_capacity_transfer_refused:{et}'
    except Exception:
        return f'C03:near_capacity_transfer_refused_even_with_margin:{et}'


# ==================================================================================================
# addressing helpers for plate-level monitors

def addressed(slicer):
    """Index list [(i, j)] addressed by a PlateSlicer, from the *reference* addressing model applied
    to the original selector; falls back to identity with plate.wells for sub-sliced slicers."""
    plate = slicer.plate
    ov = M.addr_override.get(id(slicer))
    if ov is not None and ov[2] is slicer:
        M.count('addr.subslice_by_numpy_grid')
        return list(ov[0]), tuple(ov[1])
    ann = getattr(slicer, '__dict__', {}).get('_pv_addr')
    if ann is not None:
        M.count('addr.subslice_by_annotation')
        return list(ann[0]), tuple(ann[1])
    if isinstance(slicer.slices, list) and (not isinstance(slicer.item, list) or len(slicer.slices) != len(slicer.item)):
        pass      # (a list selection indexed again: no longer what the original selector says - by identity below)
    elif not hasattr(slicer, 'items'):
        try:
            idx, shape = R.ref_address(list(plate.row_names), list(plate.column_names), slicer.item)
            M.count('addr.reference')
            return idx, shape
        except (R.Reject, R.Unjudged):
            M.count('addr.reference_rejects_but_slicer_exists')
    M.count('addr.identity_fallback')
    got = slicer.get()
    pos = {id(w): (i, j) for (i, j), w in _enum(plate.wells)}
    return [pos[id(w)] for w in got.flatten()], got.shape


def _enum(arr):
    for i in range(arr.shape[0]):
        for j in range(arr.shape[1]):
            yield (i, j), arr[i, j]


def as_slicer(x):
    pp = PP()
    if isinstance(x, pp.Plate):
        with M.oracle():
            return x[:]
    return x


def plate_totals(plate):
    t = {}
    for w in plate.wells.flatten():
        for s, a in w.contents.items():
            t[s] = t.get(s, 0.0) + a
    return t


def same_container_state(a, b, tolmul=1.0):
    """Compare two containers on contents, volume, capacity and name with the section 4 tolerance."""
    q = R.cfg().q
    if a.name != b.name or a.max_volume != b.max_volume:
        return f'name/capacity {a.name!r},{a.max_volume} vs {b.name!r},{b.max_volume}'
    for s in subs_of(a.contents, b.contents):
        x, y = a.contents.get(s, 0.0), b.contents.get(s, 0.0)
        if abs(x - y) > tolmul * K * q + 1e-9 * abs(y) + R.noise(x, y):
            return f'{s.name}: {x} vs {y}'
        if (s in a.contents) != (s in b.contents) and max(abs(x), abs(y)) > 0:
            return f'{s.name}: presence differs'
    tv = tolmul * K * q * (len(a.contents) + 2) * (1 + sum(abs(vol_per_stored(s)) for s in a.contents))
    if abs(a.volume - b.volume) > tv + 1e-9 * abs(b.volume):
        return f'volume: {a.volume} vs {b.volume}'
    return None


# ==================================================================================================
# handlers: Container.__init__, Container.transfer, Plate.transfer

class HPlateInit(Handler):
    """A constructed plate is what was asked for: every well is an empty container whose capacity is the stated
    per-well capacity (by the reference reading of the string, in the storage unit of the configuration file)."""
    skip_immut_first = True

    def post(self, ctx, args, kwargs, result, exc):
        import math
        if exc is not None:
            return
        plate = args[0]
        cap = args[2] if len(args) > 2 else kwargs.get('max_volume_per_well')
        M.count('PLATE.ctor')
        try:
            v, b = R.parse_quantity(cap)
        except Exception:   # noqa
            return
        if b != 'L':
            return
        want = v / R.cfg().vol_prefix
        tol = K * R.cfg().q + 1e-12 * abs(want)
        bad = None
        for ij, w in _enum(plate.wells):
            if not (abs(w.max_volume - want) <= tol) or w.contents or w.volume != 0:
                bad = (ij, w.max_volume, w.volume, len(w.contents))
                break
        if bad is None and not (abs(plate.max_volume_per_well - want) <= tol):
            bad = ('plate.max_volume_per_well', plate.max_volume_per_well, None, None)
        if bad is not None:
            M.violate(['C03', 'C07'], 'SANE', 'C03:well_of_new_plate_ne_stated_capacity_or_not_empty',
                      {'stated': cap, 'expected_storage_units': want, 'well': bad[0], 'max_volume': bad[1], 'volume': bad[2],
                       'n_contents': bad[3]})
        else:
            M.bucket('C03/plate_ctor/wells_as_stated')


class HContainerInit(Handler):
    skip_immut_first = True

    def post(self, ctx, args, kwargs, result, exc):
        self_ = args[0]
        name = args[1] if len(args) > 1 else kwargs.get('name')
        max_volume = args[2] if len(args) > 2 else kwargs.get('max_volume', 'inf L')
        init = args[3] if len(args) > 3 else kwargs.get('initial_contents')
        if M.depth > 1 and not init:
            M.count('ctor.empty_nested')
            return
        expect = M.take_expect('Container.__init__')
        # argument validation (wrong types, empty name) is not what FEAS judges
        pp_ = PP()
        if not isinstance(name, str) or not name or not isinstance(max_volume, str):
            M.count('ctor.unjudged_arguments')
            return
        if init is not None:
            try:
                ok_init = all(isinstance(e, (tuple, list)) and len(e) == 2 and isinstance(e[0], pp_.Substance)
                              and isinstance(e[1], str) for e in init)
            except TypeError:
                ok_init = False
            if not ok_init:
                M.count('ctor.unjudged_arguments')
                return
        cf = R.cfg()
        # reference reading
        try:
            cap_v, cap_b = R.parse_quantity(max_volume) if isinstance(max_volume, str) else (None, None)
        except R.Reject:
            cap_v, cap_b = None, 'REJECT'
        entries = []
        rejected = cap_b == 'REJECT'
        infeasible = None
        if cap_b not in (None, 'REJECT') and cap_b != 'L':
            infeasible = 'capacity_not_a_volume'
        if cap_v is not None and not (cap_v > 0):
            infeasible = 'capacity_not_positive'
        unjudged = False
        for ent in (init or []):
            try:
                s, qs = ent
                v, b = R.parse_quantity(qs)
                if not R.quantity_prefix_is_judged(qs):
                    unjudged = True
                if b == 'U' and not R.is_enzyme(s):
                    infeasible = infeasible or 'non_enzyme_in_U'
                if b == 'mol' and R.is_enzyme(s) and v != 0:
                    infeasible = infeasible or 'enzyme_in_moles'      # (moles do not measure an enzyme: stored as nothing until 91d2819)
                entries.append((s, v, b))
            except (R.Reject, TypeError, ValueError):
                rejected = True
        if unjudged:
            return
        M.count('FEAS.ctor')
        if rejected:
            if exc is None:
                M.violate(['C14'], 'PARSE', 'C14:malformed_quantity_accepted:Container.__init__',
                          {'max_volume': max_volume, 'init': [(getattr(e[0], 'name', '?'), e[1]) for e in (init or [])
                                                             if isinstance(e, (tuple, list)) and len(e) == 2]})
            return
        total = {}
        neg = False
        vol = 0.0
        for s, v, b in entries:
            if v < -request_quantum(b):
                neg = True
            if math.isnan(v):
                neg = True
            if math.isinf(v):
                infeasible = infeasible or 'infinite_amount'      # (a capacity may be infinite, an amount may not)
            pb = R.per(s, b)
            amt = (v / pb) if pb else 0.0      # canonical
            total[s] = total.get(s, 0.0) + amt
            vol += amt * R.per(s, 'L')
        if neg:
            infeasible = infeasible or 'negative_quantity'
        cap = cap_v if cap_v is not None else float('inf')
        vq = cf.q * cf.vol_prefix * K * (len(entries) + 2)
        cap_state = 'ok'
        if infeasible is None and math.isfinite(cap) and cap_b == 'L':
            if vol > cap * (1 + 1e-6) + vq:
                infeasible = 'capacity'
            elif vol > cap * (1 - 1e-6) - vq:
                cap_state = 'exact' if abs(vol - cap) <= 1e-12 * cap + vq else 'boundary'
        M.bucket(f'C03/ctor/{infeasible or cap_state}/' + ('refused' if exc is not None else 'accepted'))
        if exc is not None:
            et = type(exc).__name__
            must = bool(expect and expect.get('must') == 'accept')
            # exactly-at-capacity is demanded only for the round-number requests the workload flags; with
            # 16-digit random values the capacity itself is quantised and "exact" is three-valued
            if infeasible is None and (cap_state == 'ok' or (cap_state == 'exact' and must)):
                mech = (f'C03:exact_capacity_construction_refused:{et}' if cap_state == 'exact'
                        else f'C03:feasible_construction_refused:{et}')
                if cap_state == 'exact' and cap / cf.vol_prefix >= 1e5 and et == 'ValueError':
                    # above ~1e5 storage units a double no longer resolves the 10th decimal
                    try:
                        with M.oracle():
                            type(self_)(name or 'x', f'{cap * (1 + 1e-9)!r} L', init)
                        mech = 'C03:exact_capacity_construction_refused:large_volume_float_noise'
                    except Exception:
                        mech = f'C03:near_capacity_construction_refused_even_with_margin:{et}'

                M.violate(['C03'], 'FEAS', mech,
                          {'max_volume': max_volume, 'init': [(s.name, v, b) for s, v, b in entries],
                           'volume_L': vol, 'cap_L': cap, 'exc': repr(exc)[:300]})
            elif infeasible and not is_value_error(exc):
                M.violate(['C03'], 'FEAS', f'C03:refusal_not_ValueError:ctor:{infeasible}:{et}',
                          {'max_volume': max_volume, 'exc': repr(exc)[:300]})
            return
        if infeasible:
            props = ['C14'] if infeasible == 'capacity_not_a_volume' else ['C03']
            M.violate(props, 'FEAS', f'{props[0]}:infeasible_construction_accepted:{infeasible}',
                      {'max_volume': max_volume, 'init': [(s.name, v, b) for s, v, b in entries],
                       'volume_L': vol, 'cap_L': cap, 'result': F.snap_contents(self_)})
            return
        # postconditions of construction (C10/C14 through the API): contents = stated amounts
        M.count('CTOR.post')
        for s, amt in total.items():
            got = R.canon(s, self_.contents.get(s, 0.0))
            tol = K * (R.canon(s, cf.q) * (len(entries) + 1)) + 1e-9 * abs(amt) + \
                sum(request_quantum(b) / R.per(s2, b) for s2, v, b in entries if s2 == s and R.per(s2, b))
            if not M.ratio('CTOR', got, amt, tol):
                M.violate(['C14', 'C06'], 'CTOR', 'C14:constructed_amount_ne_stated',
                          {'substance': s.name, 'stated_canonical': amt, 'stored_canonical': got, 'tol': tol,
                           'init': [(x.name, v, b) for x, v, b in entries]})
        if cap_b == 'L':
            expcap = cap / cf.vol_prefix
            if not (self_.max_volume == expcap or abs(self_.max_volume - expcap) <= cf.q + 1e-12 * expcap):
                M.violate(['C14'], 'CTOR', 'C14:capacity_ne_stated',
                          {'stated_L': cap, 'stored': self_.max_volume})
        check_container_value(self_, 'Container.__init__')
        from . import instr
        instr.check_ctor(self_, entries, total)


class HContainerTransfer(Handler):
    def pre(self, args, kwargs):
        return None

    def post(self, ctx, args, kwargs, result, exc):
        pp = PP()
        a = dict(zip(('source', 'destination', 'quantity'), args))
        a.update(kwargs)
        if set(a) != {'source', 'destination', 'quantity'}:
            return
        src, dst, quantity = a['source'], a['destination'], a['quantity']
        if not isinstance(dst, pp.Container) or not isinstance(quantity, str):
            return
        nested = M.depth > 1
        if isinstance(src, pp.Container):
            check_container_transfer(src, dst, quantity, result, exc, nested)
            if exc is None:
                check_returned(result, 'Container.transfer')
                from . import instr
                instr.check_transfer(src, dst, quantity, result)
        elif isinstance(src, (pp.Plate, pp.PlateSlicer)):
            check_plate_transfer(src, dst, quantity, result, exc, 'Container.transfer')


class HPlateTransfer(Handler):
    def post(self, ctx, args, kwargs, result, exc):
        pp = PP()
        a = dict(zip(('source', 'destination', 'quantity'), args))
        a.update(kwargs)
        if set(a) != {'source', 'destination', 'quantity'}:
            return
        src, dst, quantity = a['source'], a['destination'], a['quantity']
        if not isinstance(dst, (pp.Plate, pp.PlateSlicer)) or not isinstance(quantity, str):
            return
        check_plate_transfer(src, dst, quantity, result, exc, 'Plate.transfer')


def well_list(obj):
    """-> (kind, plate or None, [(index or None, container)], shape)"""
    pp = PP()
    if isinstance(obj, pp.Container):
        return 'C', None, [(None, obj)], None
    sl = as_slicer(obj)
    idx, shape = addressed(sl)
    # invariant at a hook: the shape and size a selection *reports* (the pairing rule of transfers reads them) are those of the
    # wells it selects - asked of a copy without the cached values, so that the caller's object is left as it is
    try:
        import copy as _copy
        with M.oracle():
            probe = _copy.copy(sl)
            probe.__dict__.pop('shape', None)
            probe.__dict__.pop('size', None)
            rep_shape, rep_size = tuple(probe.shape), int(probe.size)
        M.count('SHAPE')
        if rep_size != len(idx) or (len(shape) == 2 and len(rep_shape) == 2 and rep_shape != tuple(shape)):
            M.violate(['C13', 'C07', 'C02'], 'SHAPE', 'C13:selection_reports_wrong_shape_or_size',
                      {'selection': getattr(sl, 'name', '?'), 'reported_shape': rep_shape, 'reported_size': rep_size, 'wells_selected': len(idx), 'shape_of_selection': tuple(shape)})
    except MonitorBug:
        raise
    except Exception:   # noqa
        M.count('SHAPE.unreadable')
    return 'S', sl.plate, [(ij, sl.plate.wells[ij]) for ij in idx], shape


def check_plate_transfer(src, dst, quantity, result, exc, op):
    """CONS (plate level), WELLWISE and the shape rule for any transfer with a plate/slice on either
    side.  Expected wells come from folding the real Container.transfer over copies of the addressed
    wells (reference addressing) inside an oracle section."""
    pp = PP()
    cf = R.cfg()
    q = cf.q
    req = request(quantity)
    if req is None or not R.quantity_prefix_is_judged(quantity):
        return
    value, base = req
    direct_plate_source = isinstance(src, pp.Plate)
    try:
        sk, splate, swells, sshape = well_list(src)
        dk, dplate, dwells, dshape = well_list(dst)
    except Exception as e:  # a malformed slicer: not ours to judge here
        M.count('plate_transfer.unaddressable')
        return
    ns, nd = len(swells), len(dwells)
    if ns == 0 or nd == 0:
        M.count('plate_transfer.no_wells')      # (a selection of no wells: nothing to pair; C04 and C08 judge the rest)
        return
    same_plate = splate is not None and splate is dplate
    # ---- pairing by the documented rule
    if sk == 'C' and dk == 'S':
        form, pairs, legal = 'C->N', [(0, k) for k in range(nd)], True
    elif sk == 'S' and dk == 'C':
        form, pairs, legal = 'N->C', [(k, 0) for k in range(ns)], True
    elif ns == 1:
        form, pairs, legal = '1->N', [(0, k) for k in range(nd)], True
    elif nd == 1:
        form, pairs, legal = 'N->1', [(k, 0) for k in range(ns)], True
    elif sshape == dshape:
        form, pairs, legal = 'N->N', [(k, k) for k in range(ns)], True
    else:
        form, pairs, legal = 'illegal', [], False
    M.count('WELLWISE.transfer')
    if 'Recipe.bake' in M.opstack:
        M.count('WELLWISE.recipe_step')
        M.bucket('C07/recipe/transfer')
    geom = ('same_plate' if same_plate else 'two_objects')
    src_idx = [ij for ij, _ in swells] if sk == 'S' else []
    dst_idx = [ij for ij, _ in dwells] if dk == 'S' else []
    overlap = same_plate and bool(set(src_idx) & set(dst_idx))
    list_slices = any(isinstance(getattr(x, 'slices', None), list) for x in (src, dst))
    M.bucket(f'C07/transfer/{form}/{geom}{"/overlap" if overlap else ""}/' +
             ('refused' if exc is not None else 'accepted'))
    expect = M.take_expect(op)

    # ---- expected result by folding the stand-alone container operation
    from copy import deepcopy
    exp_src = [deepcopy(w) for _, w in swells]
    exp_dst = [deepcopy(w) for _, w in dwells]
    if same_plate:
        # wells addressed on both sides share state
        shared = {}
        for k, (ij, _) in enumerate(swells):
            shared[ij] = ('s', k)
    fold_exc = None
    if legal and not overlap:
        with M.oracle():
            try:
                for a, b in pairs:
                    exp_src[a], exp_dst[b] = pp.Container.transfer(exp_src[a], exp_dst[b], quantity)
            except Exception as e:   # noqa
                fold_exc = e

    if exc is not None:
        et = type(exc).__name__
        if not legal:
            M.bucket('C07/shape_rule/illegal_refused')
            return
        if overlap:
            M.count('WELLWISE.overlap_refused')
            return
        if fold_exc is None:
            # every per-well operation is feasible stand-alone, yet the plate operation was refused
            mech = f'C07:legal_plate_transfer_refused:{form}:{et}'
            if form == 'N->1' and et == 'TypeError':
                mech = 'C07:many_to_one_transfer:TypeError'
            elif direct_plate_source and et == 'AttributeError':
                mech = 'C07:whole_plate_as_direct_source:AttributeError'
            elif list_slices and form == 'N->N' and et == 'IndexError':
                mech = 'C07:list_slices_elementwise:IndexError'
            elif list_slices and form == '1->N' and et == 'RuntimeError':
                mech = 'C07:one_element_list_source:RuntimeError'
            elif list_slices and form == 'N->1' and et == 'RuntimeError':
                mech = 'C07:one_element_list_destination:RuntimeError'
            kf06 = mech in ('C07:list_slices_elementwise:IndexError', 'C07:one_element_list_source:RuntimeError',
                            'C07:one_element_list_destination:RuntimeError')
            tags = ['C07', 'C02'] if (form == 'N->1' and not kf06) else ['C07']
            if mech.startswith('C07:legal_plate_transfer_refused:'):
                tags = tags + ['C03']          # every per-well request fits, yet the request was refused
            M.violate(tags, 'WELLWISE', mech,
                      {'form': form, 'quantity': quantity, 'src': F.describe(src), 'dst': F.describe(dst),
                       'exc': repr(exc)[:300]})
        else:
            if type(fold_exc) is not type(exc) and not (is_value_error(exc) and is_value_error(fold_exc)):
                M.count('WELLWISE.refusal_type_differs')
            if not is_value_error(exc) and is_value_error(fold_exc):
                fkey = form
                if list_slices and form in ('1->N', 'N->1') and et == 'RuntimeError':
                    fkey = 'one_element_list'        # the refusal comes from finding KF06, whatever the feasibility
                M.violate(['C03'], 'FEAS', f'C03:refusal_not_ValueError:plate_transfer:{fkey}:{et}',
                          {'quantity': quantity, 'exc': repr(exc)[:300], 'fold_exc': repr(fold_exc)[:300]})
        return

    # ---- accepted
    if not legal:
        M.violate(['C07'], 'WELLWISE', f'C07:illegal_shape_combination_accepted:{sshape}->{dshape}',
                  {'src_shape': sshape, 'dst_shape': dshape, 'quantity': quantity})
        return
    try:
        r_src, r_dst = result
    except Exception:
        M.violate(['C07'], 'WELLWISE', 'C07:transfer_result_not_a_pair', {'result': repr(result)[:200]})
        return
    check_returned(result, op)

    # ---- CONS at plate level (C01)
    M.count('CONS.plate')

    def totals(o):
        if isinstance(o, pp.Container):
            return dict(o.contents)
        if isinstance(o, pp.PlateSlicer):
            return plate_totals(o.plate)
        return plate_totals(o)

    src_obj_before = src if sk == 'C' else splate
    dst_obj_before = dst if dk == 'C' else dplate
    bt = totals(src_obj_before)
    if not same_plate:
        for s, a in totals(dst_obj_before).items():
            bt[s] = bt.get(s, 0.0) + a
    at = totals(r_src)
    r_src_plate = r_src.plate if isinstance(r_src, pp.PlateSlicer) else r_src
    if not (same_plate and r_src_plate is r_dst):
        if same_plate:
            # same plate before, two different objects after: each must carry the whole state
            pass
        for s, a in totals(r_dst).items():
            at[s] = at.get(s, 0.0) + a
    if same_plate and r_src_plate is not r_dst:
        # the two returned plates must be the same state; count one of them
        at = totals(r_dst)
        if F.fp_plate(r_src_plate, with_ids=False) != F.fp_plate(r_dst, with_ids=False):
            M.violate(['C01'], 'CONS', 'C01:same_plate_transfer_returns_divergent_plates',
                      {'quantity': quantity, 'form': form})
    npairs = max(len(pairs), 1)
    bad_cons = None
    moved = False
    for s in subs_of(bt, at):
        b, a = bt.get(s, 0.0), at.get(s, 0.0)
        tol = (npairs + 1) * K * q + R.noise(b) * npairs + 1e-12 * abs(b)
        if not M.ratio('CONS.plate', a, b, tol):
            bad_cons = (s.name, b, a, tol)
    if bad_cons is None and not overlap:
        # the same balance keyed by what identifies a substance (see R.ident), from the wells themselves
        def wells_of(o):
            if isinstance(o, pp.Container):
                return [o.contents]
            pl = o.plate if isinstance(o, pp.PlateSlicer) else o
            return [w_.contents for w_ in pl.wells.flatten()]
        befores = wells_of(src_obj_before) + ([] if same_plate else wells_of(dst_obj_before))
        afters = wells_of(r_dst) + ([] if (same_plate) else wells_of(r_src))
        bi, ai = R.ident_totals(*befores), R.ident_totals(*afters)
        for k_ in set(bi) | set(ai):
            b, a = bi.get(k_, 0.0), ai.get(k_, 0.0)
            tol = (npairs + 1) * K * q + R.noise(b) * npairs + 1e-12 * abs(b)
            if abs(a - b) > tol:
                bad_cons = (k_[0] + ' (by identity)', b, a, tol)
                break
    if bad_cons:
        if overlap:
            mech = f'C01:same_plate_overlapping_regions:{form}:material_not_conserved'
        else:
            mech = f'C01:plate_transfer_not_conserved:{form}:{geom}:{base}'
        M.violate(['C01'], 'CONS', mech,
                  {'substance': bad_cons[0], 'before_total': bad_cons[1], 'after_total': bad_cons[2],
                   'tol': bad_cons[3], 'quantity': quantity, 'form': form, 'src': F.describe(src),
                   'dst': F.describe(dst), 'src_idx': src_idx, 'dst_idx': dst_idx})
    M.bucket(f'C01/unit={base}/form={form}')
    if same_plate and not overlap:
        M.bucket('C01/same_plate_disjoint')
    if overlap:
        M.bucket('C01/same_plate_overlap')

    # ---- locality: wells that are neither source nor destination bit-identical (C01, C07)
    def untouched(before_plate, after_plate, touched, role):
        if before_plate is None:
            return
        if not isinstance(after_plate, pp.Plate) or after_plate.wells.shape != before_plate.wells.shape:
            M.violate(['C07'], 'WELLWISE', f'C07:result_plate_shape_changed:{role}',
                      {'before': before_plate.wells.shape, 'after': getattr(getattr(after_plate, 'wells', None), 'shape', None)})
            return
        tset = set(touched)
        for ij, w in _enum(before_plate.wells):
            if ij in tset:
                continue
            M.count('LOCAL')
            if F.fp_container(w) != F.fp_container(after_plate.wells[ij]):
                M.violate(['C01', 'C07'], 'WELLWISE', f'C07:unaddressed_well_changed:transfer:{role}:{form}',
                          {'well': ij, 'before': F.snap_contents(w), 'after': F.snap_contents(after_plate.wells[ij]),
                           'quantity': quantity, 'src_idx': src_idx, 'dst_idx': dst_idx})
                break

    touched_all = src_idx + dst_idx if same_plate else None
    if sk == 'S':
        untouched(splate, r_src_plate, touched_all if same_plate else src_idx, 'source')
    if dk == 'S':
        untouched(dplate, r_dst, touched_all if same_plate else dst_idx, 'destination')
    # returned types: T of the source, Plate for the destination
    if sk == 'C' and not isinstance(r_src, pp.Container):
        M.violate(['C07'], 'WELLWISE', 'C07:container_source_not_returned_as_container', {'got': type(r_src).__name__})

    if overlap:
        return   # expected wells are not defined by a per-well fold when regions overlap (finding 2)
    if fold_exc is not None:
        # per-well fold refuses but the plate operation went through
        M.violate(['C07', 'C03'], 'WELLWISE', f'C07:plate_transfer_accepted_but_per_well_refused:{form}',
                  {'fold_exc': repr(fold_exc)[:300], 'quantity': quantity, 'form': form})
        return

    # ---- WELLWISE: each addressed well equals the stand-alone fold
    def getw(obj_after, kind_, idxs, k):
        if kind_ == 'C':
            return obj_after
        return obj_after.wells[idxs[k]]

    mism = None
    r_src_obj = r_src if sk == 'C' else r_src_plate
    for k in range(ns):
        M.count('WELLWISE.well')
        got = getw(r_src_obj, sk, src_idx, k)
        d = same_container_state(got, exp_src[k], tolmul=max(1, nd if ns == 1 else 1))
        if d:
            mism = ('source', k, d, got, exp_src[k])
            break
    if mism is None:
        for k in range(nd):
            M.count('WELLWISE.well')
            got = getw(r_dst, dk, dst_idx, k)
            d = same_container_state(got, exp_dst[k], tolmul=max(1, ns if nd == 1 else 1))
            if d:
                mism = ('destination', k, d, got, exp_dst[k])
                break
    if mism:
        # a well whose *amounts* differ from the stand-alone transfer did not give / receive the requested aliquot (C02 too)
        amounts_differ = not str(mism[2]).startswith('name/capacity')
        M.violate(['C07', 'C02'] if amounts_differ else ['C07'], 'WELLWISE', f'C07:well_ne_standalone_operation:transfer:{form}:{mism[0]}',
                  {'role': mism[0], 'k': mism[1], 'diff': mism[2], 'got': F.snap_contents(mism[3]),
                   'expected': F.snap_contents(mism[4]), 'quantity': quantity, 'form': form,
                   'src_idx': src_idx, 'dst_idx': dst_idx})
    # ---- C19: between two plates the line a destination well gains names the source well *and the plate it is on* (round 17,
    # seeded s-C19-i: the many-to-one form named the destination plate)
    if sk == 'S' and dk == 'S' and not same_plate and exc is None and splate.name != dplate.name:
        M.count('INSTR.plate_transfer_source_named')
        for ks, kd in pairs:
            before_lines = (dwells[kd][1].instructions or '').splitlines()
            after_lines = (getw(r_dst, dk, dst_idx, kd).instructions or '').splitlines()
            new_lines = after_lines[len(before_lines):] if after_lines[:len(before_lines)] == before_lines else after_lines
            want = f'{splate.name} {swells[ks][1].name}'
            if not any(want in ln for ln in new_lines):
                M.violate(['C19'], 'INSTR', f'C19:plate_transfer_line_does_not_name_the_source_plate_and_well:{form}',
                          {'form': form, 'expected_to_read': want, 'new_lines': new_lines[-4:], 'source_plate': splate.name, 'destination_plate': dplate.name})
                break
        M.bucket(f'C19/plate_transfer_source_named/{form}')
    # ---- C02 broadcast clause: container side changes by n*q in the request's unit
    if sk == 'C' or dk == 'C':
        M.count('ALIQ.broadcast')
        n = len(pairs)
        cont_before = src if sk == 'C' else dst
        cont_after = r_src if sk == 'C' else r_dst
        delta = R.measure(cont_after.contents, base) - R.measure(cont_before.contents, base)
        exp = -n * value if sk == 'C' else n * value
        wells_c = swells if sk == 'S' else []
        tol = n * K * (storage_noise_in(subs_of(cont_before.contents, cont_after.contents), base) +
                       request_quantum(base, cont_before.contents)) + 1e-9 * abs(exp) + R.noise(R.measure(cont_before.contents, base)) * n
        if not M.ratio('ALIQ.broadcast', delta, exp, tol):
            M.violate(['C02'], 'ALIQ', f'C02:broadcast_container_side_ne_n_times_q:{form}:{base}',
                      {'n': n, 'requested_each': value, 'unit': base, 'container_delta': delta,
                       'expected': exp, 'tol': tol, 'quantity': quantity})
        M.bucket(f'C02/broadcast/{form}/{base}')
    distinct_contents = len({tuple(sorted(cdesc(w.contents).items())) for _, w in (swells if sk == 'S' else dwells)})
    plate_ = splate if sk == 'S' else dplate
    n_other = plate_.wells.size - len(set(src_idx + dst_idx if same_plate else (src_idx if sk == 'S' else dst_idx)))
    if max(ns, nd) >= 2 and n_other >= 1 and (distinct_contents >= 2 or (sk == 'S' and dk == 'S')):
        M.note_nontrivial('C07', ('pt', form, geom, tuple(src_idx), tuple(dst_idx), quantity,
                                  tuple(sorted(cdesc(swells[0][1].contents).items()))))
    M.note_nontrivial('C01', ('pt', form, geom, tuple(src_idx), tuple(dst_idx), quantity,
                              tuple(sorted(cdesc(swells[0][1].contents).items()))))
    if moved or True:
        M.sample('C07', {'op': op, 'form': form, 'geometry': geom, 'quantity': quantity,
                         'src': _short(src), 'dst': _short(dst), 'src_idx': src_idx[:8], 'dst_idx': dst_idx[:8]})
        M.sample('C01', {'op': op, 'form': form, 'geometry': geom, 'quantity': quantity,
                         'src': _short(src), 'dst': _short(dst),
                         'totals_before': {s.name: a for s, a in bt.items()},
                         'totals_after': {s.name: a for s, a in at.items()}})


def _short(o):
    pp = PP()
    if isinstance(o, pp.Container):
        return {'container': o.name, 'contents': cdesc(o.contents)}
    if isinstance(o, pp.Plate):
        return {'plate': o.name, 'shape': list(o.wells.shape)}
    if isinstance(o, pp.PlateSlicer):
        return {'slice_of': o.plate.name, 'shape_of_plate': list(o.plate.wells.shape), 'selector': repr(o.item)}
    return repr(o)[:80]


from .handlers2 import handler_table   # noqa: E402  (part 2 builds the table)
