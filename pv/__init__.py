"""pv - runtime monitoring machinery for ekwan/PyPlate (see /verif/DESIGN.md)."""
