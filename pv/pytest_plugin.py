"""pytest plugin: runs the repository's own tests *under the monitors* as one more workload
(-p pv.pytest_plugin).  Result JSON goes to $PV_PLUGIN_OUT."""
import json
import os


def pytest_sessionstart(session):
    from pv import monitors
    monitors.install(unit_monitors=bool(os.environ.get('PV_UNIT_MONITORS')))
    monitors.M.enabled = True
    monitors.M.case = {'kind': 'repo_suite', 'idx': 0}


def pytest_runtest_setup(item):
    from pv import monitors
    monitors.M.case = {'kind': 'repo_suite', 'idx': 0, 'test': item.nodeid}


def pytest_sessionfinish(session, exitstatus):
    from pv import monitors
    M = monitors.M
    M.enabled = False
    out = os.environ.get('PV_PLUGIN_OUT')
    if out:
        with open(out, 'w') as f:
            json.dump({'counters': dict(M.counters), 'buckets': dict(M.buckets), 'violations': M.violations,
                       'bugs': M.bugs[:5], 'max_ratio': dict(M.max_ratio), 'exitstatus': int(exitstatus)}, f, default=repr)
