"""Developer tool: run cases of a property in-process and print every violation mechanism seen (all
properties), with one example each.  PYTHONPATH=/repo:/verif PYPLATE_CONFIG=/repo/pyplate python -m pv.debug C01 history 0 50"""
import collections, importlib, json, sys, os
def main():
    prop, kind, lo, hi = sys.argv[1], sys.argv[2], int(sys.argv[3]), int(sys.argv[4])
    seed = int(os.environ.get('VERIF_SEED', '0'))
    params = json.loads(sys.argv[5]) if len(sys.argv) > 5 else {}
    mod = importlib.import_module('pv.props.' + prop.lower())
    from pv import monitors
    monitors.install(unit_monitors=getattr(mod, 'UNIT_MONITORS', False))
    job = {'prop': prop, 'tier': os.environ.get('VERIF_TIER', 'quick'), 'seed': seed, 'kind': kind, 'lo': lo, 'hi': hi, 'params': params}
    extra = mod.run_job(job)
    M = monitors.M
    by = collections.OrderedDict()
    for v in M.violations:
        by.setdefault(v['mech'], []).append(v)
    only = os.environ.get('ONLY')
    for mech, vs in by.items():
        if only and only not in mech: continue
        print(f'== {mech} x{len(vs)}  props={vs[0]["props"]} case={vs[0]["case"]["kind"]}:{vs[0]["case"]["idx"]}')
        print('   ', json.dumps(vs[0]['detail'], default=repr)[:int(os.environ.get('W', '900'))])
    print('bugs:', len(M.bugs))
    for b in M.bugs[:2]: print(b)
    print('extra', extra)
    print('max_ratio', dict(M.max_ratio))
main()
