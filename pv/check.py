"""CLI:  /venv/bin/python -m pv.check C07 [--tier quick|thorough] [--seed N] [--replay FILE]"""
from __future__ import annotations

import argparse
import os
import sys

from . import driver


def main():
    ap = argparse.ArgumentParser()
    ap.add_argument('prop')
    ap.add_argument('--tier', default=os.environ.get('VERIF_TIER', 'quick'))
    ap.add_argument('--seed', type=int, default=int(os.environ.get('VERIF_SEED', '0')))
    ap.add_argument('--replay')
    a = ap.parse_args()
    sys.exit(driver.run(a.prop.upper(), a.tier, a.seed, a.replay))


if __name__ == '__main__':
    main()
