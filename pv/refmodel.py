"""Independent reference model, written from PyPlate's documentation (units_and_concentrations.rst,
locations.rst, solution_formulas.md, usage_tracking/*.rst), not from its expressions.

Everything here is plain arithmetic on (kind, molecular weight, density, specific activity) and on the
`.contents` dictionaries of real objects.  Nothing here calls into pyplate.Unit.
"""
from __future__ import annotations

import math
import re

# --------------------------------------------------------------------------------------------------
# SI prefixes and base units

PREFIX = {'p': 1e-12, 'n': 1e-9, 'u': 1e-6, 'µ': 1e-6, 'm': 1e-3, 'c': 1e-2, 'd': 1e-1, '': 1.0, 'da': 1e1,
          'k': 1e3, 'M': 1e6}
BASES = ('mol', 'g', 'L', 'U')


class Reject(Exception):
    """The reference grammar / model rejects this input."""


def split_unit(unit: str):
    """'mL' -> ('m', 'L').  Longest base first so that 'mol' is not read as 'mo'+'l'."""
    if not isinstance(unit, str):
        raise Reject('unit not a string')
    for base in ('mol', 'g', 'L', 'U'):
        if unit.endswith(base):
            prefix = unit[:-len(base)]
            if prefix in PREFIX:
                return prefix, base
            raise Reject(f'unknown prefix {prefix!r}')
    raise Reject(f'unknown unit {unit!r}')


# --------------------------------------------------------------------------------------------------
# substances

SOLID, LIQUID, ENZYME = 1, 2, 3
KIND_NAME = {SOLID: 'solid', LIQUID: 'liquid', ENZYME: 'enzyme'}


def kind(sub) -> str:
    return KIND_NAME[sub._type]


def is_enzyme(sub) -> bool:
    return sub._type == ENZYME


def ident(sub):
    """What identifies a substance, spelt out (name, kind, molar mass, density, molar concentration, specific activity): the
    oracles key their own books by this tuple, never by the library's `==` / `hash` of the object, so that two substances the
    library wrongly takes for one another stay two in the books."""
    return (sub.name, sub._type, sub.mol_weight, sub.density, sub.concentration, getattr(sub, 'specific_activity', None))


def ident_totals(*contents):
    t = {}
    for c in contents:
        for s, a in c.items():
            k = ident(s)
            t[k] = t.get(k, 0.0) + a
    return t


def specific_activity_of(sub) -> float:
    """U per g: as declared (the harness notes its own reading of the declaration string on enzymes it creates), else as
    stored by the library."""
    sa = getattr(sub, '__dict__', {}).get('_pv_sa')
    return sa if sa is not None else sub.specific_activity


def density_of(sub) -> float:
    """Density used by the reference: a liquid's own; for solids and enzymes that carry the library's default, the
    default *as configured in the file* (a substance built with an explicit other density keeps it)."""
    if sub._type == LIQUID:
        return sub.density
    c = cfg()
    lib = c.raw
    if sub._type == ENZYME:
        return c.enzyme_density if _same(sub.density, lib.default_enzyme_density) else sub.density
    return c.solid_density if _same(sub.density, lib.default_solid_density) else sub.density


def _same(a, b):
    return a == b or (a != a and b != b)


def per(sub, base: str) -> float:
    """Size of one canonical unit of `sub` (1 mol for solids/liquids, 1 U for enzymes) in `base`.

    1 mol = MW g = MW/rho mL ;  1 U = 1/a g = 1/rho_e mL  (rho_e in U/mL, a in U/g).
    Enzymes carry no moles; non-enzymes no activity.
    """
    if sub._type == ENZYME:
        if base == 'U':
            return 1.0
        if base == 'mol':
            return 0.0
        if base == 'g':
            return 1.0 / specific_activity_of(sub)
        if base == 'L':
            d = density_of(sub)
            return 0.0 if math.isinf(d) else 1.0 / d / 1000.0
    else:
        if base == 'mol':
            return 1.0
        if base == 'U':
            return 0.0
        if base == 'g':
            return float(sub.mol_weight)
        if base == 'L':
            d = density_of(sub)
            return 0.0 if math.isinf(d) else sub.mol_weight / d / 1000.0
    raise Reject(f'bad base {base!r}')


def convert(sub, amount: float, from_unit: str, to_unit: str) -> float:
    """Reference for Unit.convert_from.  Raises Reject where the property says 'rejected'."""
    pf, bf = split_unit(from_unit)
    pt, bt = split_unit(to_unit)
    if bf == 'U' and sub._type != ENZYME:
        raise Reject('non-enzyme measured in U')
    a = per(sub, bf)
    b = per(sub, bt)
    if a == 0.0 and bf == 'L':
        return float('nan')   # a volume of a zero-volume substance: the factor is not finite, nothing is claimed
    if a == 0.0:
        return 0.0  # enzyme given in mol: carries nothing
    if b == 0.0:
        return 0.0
    return amount * PREFIX[pf] * (b / a) / PREFIX[pt]


# --------------------------------------------------------------------------------------------------
# configuration in effect (read from the real module so that C18 can vary it)

class _FileConfig:
    """The configuration as the *file* states it (read here with yaml, independently of the library's loader): the
    workers always run with PYPLATE_CONFIG pointing at the file the driver wrote."""
    def __init__(self, lib):
        import os
        d = os.environ.get('PYPLATE_CONFIG')
        y = None
        if d and os.path.isfile(os.path.join(d, 'pyplate.yaml')):
            import yaml
            with open(os.path.join(d, 'pyplate.yaml')) as f:
                y = yaml.safe_load(f)
        self.from_file = y is not None
        for k in ('internal_precision', 'moles_storage_unit', 'volume_storage_unit', 'moles_display_unit',
                  'volume_display_unit', 'concentration_display_unit', 'default_weight_volume_units', 'precisions'):
            setattr(self, k, y[k] if y is not None else getattr(lib, k))
        for k in ('default_solid_density', 'default_enzyme_density'):
            setattr(self, k, float(y[k]) if y is not None else getattr(lib, k))


class Cfg:
    def __init__(self):
        import pyplate.pyplate as pp
        self.raw = pp.config
        c = _FileConfig(pp.config)
        self.from_file = c.from_file
        self.internal_precision = c.internal_precision
        self.q = 10.0 ** (-c.internal_precision)
        self.mol_unit = c.moles_storage_unit
        self.vol_unit = c.volume_storage_unit
        self.mol_prefix = PREFIX[c.moles_storage_unit[:-3]]
        self.vol_prefix = PREFIX[c.volume_storage_unit[:-1]]
        self.precisions = dict(c.precisions)
        self.moles_display_unit = c.moles_display_unit
        self.volume_display_unit = c.volume_display_unit
        self.concentration_display_unit = c.concentration_display_unit
        self.wv_units = c.default_weight_volume_units
        self.solid_density = c.default_solid_density
        self.enzyme_density = c.default_enzyme_density

    def precision(self, unit: str) -> int:
        unit = unit.replace('\u00b5', 'u')      # (the two spellings of micro are one unit: fix 'the display precision of a unit does not depend on how micro is spelt')
        if FOLLOW_LIVE_PRECISIONS:
            # the repository's own tests change display precisions on the live configuration object while they run
            live = self.raw.precisions
            return live[unit] if unit in live else live['default']
        return self.precisions[unit] if unit in self.precisions else self.precisions['default']


_CFG = None
FOLLOW_LIVE_PRECISIONS = False      # set by the repo_suite job only (see Cfg.precision)


def cfg() -> Cfg:
    global _CFG
    if _CFG is None:
        _CFG = Cfg()
    return _CFG


# --------------------------------------------------------------------------------------------------
# contents of containers (storage units -> physical quantities)

def canon(sub, stored: float) -> float:
    """Stored amount -> canonical amount (mol, or U for enzymes)."""
    if sub._type == ENZYME:
        return stored
    return stored * cfg().mol_prefix


def stored_from_canon(sub, amount: float) -> float:
    if sub._type == ENZYME:
        return amount
    return amount / cfg().mol_prefix


def measure(contents, base: str, only=None) -> float:
    """Total of `contents` (dict Substance -> stored amount) in base unit `base`:
    volume and mass over everything, moles over non-enzymes, activity over enzymes."""
    t = 0.0
    for s, a in contents.items():
        if only is not None and s not in only:
            continue
        t += canon(s, a) * per(s, base)
    return t


def measure_unit(contents, unit: str, only=None) -> float:
    p, b = split_unit(unit)
    return measure(contents, b, only) / PREFIX[p]


def volume_storage(contents) -> float:
    """Volume of contents in the storage volume unit."""
    return measure(contents, 'L') / cfg().vol_prefix


def stored_quantum_in(sub, base: str) -> float:
    """One storage quantum (q in storage units) of `sub` expressed in `base`."""
    return canon(sub, cfg().q) * per(sub, base)


def concentration(contents, solute, num: str, den: str) -> float:
    """Concentration of solute by definition: (solute in num) / (whole contents in den), base units."""
    top = canon(solute, contents.get(solute, 0.0)) * per(solute, num)
    if top == 0:
        return 0.0
    bottom = measure(contents, den)
    if bottom == 0:
        return float('inf')
    return top / bottom


# --------------------------------------------------------------------------------------------------
# quantity / concentration grammar (C14)

_NUM = r'[+-]?(?:\d+(?:\.\d*)?|\.\d+)(?:[eE][+-]?\d+)?'
_NUM_RE = re.compile('^' + _NUM + '$', re.ASCII)      # (ASCII digits: float() also reads other scripts' digits and '1_0')


def parse_number(tok: str) -> float:
    if tok in ('inf', '+inf', 'Infinity', 'infinity'):
        return float('inf')
    if not _NUM_RE.match(tok):
        raise Reject(f'not a number {tok!r}')
    return float(tok)


def parse_quantity(s: str):
    """'10 mL' -> (0.01, 'L').  Exactly one space, a number, a prefixed base unit.
    Activity units take no prefix in quantity strings (the library documents only 'U')."""
    if not isinstance(s, str):
        raise Reject('not a string')
    parts = s.split(' ')
    if len(parts) != 2 or not parts[0] or not parts[1]:
        raise Reject('not "<value> <unit>"')
    v = parse_number(parts[0])
    p, b = split_unit(parts[1])
    return v * PREFIX[p], b


def quantity_prefix_is_judged(s: str) -> bool:
    """Prefixed activity units ('mU') are accepted by some entry points and not by others and are not
    documented; they are not judged."""
    return True      # (prefixed activity units are quantities like any other since fix 'quantity strings accept prefixed activity units')


def parse_concentration(s: str, wv_units: str = None):
    """-> (value in num_base/den_base, num_base, den_base).

    '1 M' = 1 mol/L ; '1 m' = 1 mol/kg ; 'x %v/v' = x/100 L/L ; '%w/w' g/g ; '%w/v' configured ;
    'a nu/b du' = (a/b) nu/du ; 'a nu/du' ; prefixes SI.
    """
    if not isinstance(s, str):
        raise Reject('not a string')
    if wv_units is None:
        wv_units = cfg().wv_units
    s0 = s
    percent = False
    if '/' not in s:
        toks = s.split(' ')
        if len(toks) != 2:
            raise Reject('molar/molal needs "<v> <unit>"')
        v = parse_number(toks[0])
        u = toks[1]
        if u.endswith('M'):
            p = u[:-1]
            if p not in PREFIX:
                raise Reject('bad prefix')
            if not math.isfinite(v * PREFIX[p]):
                raise Reject('a concentration is a finite number')
            return v * PREFIX[p], 'mol', 'L'
        if u.endswith('m'):
            p = u[:-1]
            if p not in PREFIX:
                raise Reject('bad prefix')
            return v * PREFIX[p] / 1000.0, 'mol', 'g'  # mol/kg
        raise Reject('only m and M without a slash')
    for tag, repl in (('%v/v', 'L/L'), ('%w/w', 'g/g'), ('%w/v', wv_units)):
        if s.endswith(tag):
            head = s[:-len(tag)]
            if not head.endswith(' '):
                raise Reject('percent needs a space')
            s = head + repl
            percent = True
            break
    num, _, den = s.partition('/')
    if '/' in den:
        raise Reject('two slashes')
    nt = num.split(' ')
    dt = den.split(' ')
    if len(nt) != 2 or not nt[0] or not nt[1]:
        raise Reject('numerator must be "<v> <unit>"')
    v = parse_number(nt[0])
    if percent:
        v /= 100.0
    if len(dt) == 2:
        if not dt[0] or not dt[1]:
            raise Reject('bad denominator')
        dv = parse_number(dt[0])
        du = dt[1]
        if dv == 0 or not math.isfinite(dv):
            raise Reject('zero or infinite denominator')
        v /= dv
    elif len(dt) == 1:
        du = dt[0]
        if not du:
            raise Reject('empty denominator')
    else:
        raise Reject('bad denominator')
    pn, bn = split_unit(nt[1])
    pd, bd = split_unit(du)
    if not math.isfinite(v):
        raise Reject('a concentration is a finite number')     # ('inf L' is how an unbounded capacity is written: quantities only)
    out = v * PREFIX[pn] / PREFIX[pd]
    if not math.isfinite(out):
        raise Reject('a concentration is a finite number')     # ('1e308 kmol/L')
    return out, bn, bd


# --------------------------------------------------------------------------------------------------
# plate addressing (C13) - locations.rst

def default_row_labels(n: int):
    """A..Z, AA, AB, ... (spreadsheet style)."""
    out = []
    for k in range(1, n + 1):
        s = ''
        while k > 0:
            k, r = divmod(k - 1, 26)
            s = chr(ord('A') + r) + s
        out.append(s)
    return out


def default_col_labels(n: int):
    return [str(i) for i in range(1, n + 1)]


def _resolve(x, labels):
    n = len(labels)
    if isinstance(x, bool):
        raise Reject('bool index')
    if isinstance(x, int):
        if not 1 <= x <= n:
            raise Reject('index out of range')
        return x - 1
    if isinstance(x, str):
        if x not in labels:
            raise Reject('label not found')
        return labels.index(x)
    raise Reject('bad index type')


def _axis(sel, labels):
    """-> list of indices on one axis.  Slices are inclusive on both ends, 1-based, open ends run to
    the edge, a positive step k takes every k-th."""
    n = len(labels)
    if isinstance(sel, slice):
        k = 1 if sel.step is None else sel.step
        if isinstance(k, bool) or not isinstance(k, int):
            raise Reject('bad step')
        if k == 0:
            raise Reject('zero step')
        if k < 0:
            # outside the documented grammar ("a positive step k"): either it is refused, or it is a step like any other -
            # both end points included, walking backwards, open ends at the edges (see has_backwards_step)
            st = n - 1 if sel.start is None else _resolve(sel.start, labels)
            sp = 0 if sel.stop is None else _resolve(sel.stop, labels)
            return list(range(st, sp - 1, k))
        st = 0 if sel.start is None else _resolve(sel.start, labels)
        sp = n - 1 if sel.stop is None else _resolve(sel.stop, labels)
        return list(range(st, sp + 1, k))
    return [_resolve(sel, labels)]


def has_backwards_step(item) -> bool:
    """A selector with a negative step: not in the documented grammar, so refusing it is fine; if it is accepted it must select
    what ref_address says (end points included) - anything else is "selecting something else"."""
    parts = item if isinstance(item, tuple) else (item,)
    return any(isinstance(p_, slice) and isinstance(p_.step, int) and not isinstance(p_.step, bool) and p_.step < 0 for p_ in parts)


class Unjudged(Exception):
    """Outside the documented grammar in a way the property does not judge."""


def _single(elem, rows, cols):
    if isinstance(elem, str):
        if elem.count(':') != 1:
            raise Reject('single must be "row:col"')
        a, b = elem.split(':')
        return _resolve(a, rows), _resolve(b, cols)
    if isinstance(elem, tuple) and len(elem) == 2 and all(isinstance(e, (int, str)) and not isinstance(e, bool)
                                                         for e in elem):
        return _resolve(elem[0], rows), _resolve(elem[1], cols)
    raise Reject('bad single')


def ref_address(rows, cols, item):
    """Reference addressing: -> (list of (i, j) in selection order, shape tuple).

    Raises Reject for out-of-range / malformed selectors, Unjudged for things the property does not
    speak about (1-tuples, empty selections).
    """
    if isinstance(item, bool):
        raise Reject('a bool is not an index')      # (malformed: True is an int to Python, not the index 1 of the grammar)
    if isinstance(item, str):
        if ':' in item:
            i, j = _single(item, rows, cols)
            return [(i, j)], (1, 1)
        i = _resolve(item, rows)
        return [(i, j) for j in range(len(cols))], (1, len(cols))
    if isinstance(item, int):
        i = _resolve(item, rows)
        return [(i, j) for j in range(len(cols))], (1, len(cols))
    if isinstance(item, list):
        if not item:
            raise Unjudged('empty list')
        out = [_single(e, rows, cols) for e in item]
        return out, (len(out),)
    if isinstance(item, slice):
        ri = _axis(item, rows)
        ci = list(range(len(cols)))
    elif isinstance(item, tuple):
        if len(item) == 1:
            raise Unjudged('1-tuples are not in the documented grammar')
        elif len(item) == 2:
            for e in item:
                if isinstance(e, bool):
                    raise Reject('a bool is not an index')
                if not isinstance(e, (int, str, slice)):
                    raise Reject('bad tuple element')
            ri = _axis(item[0], rows)
            ci = _axis(item[1], cols)
        else:
            raise Reject('bad tuple length')
    else:
        raise Reject('bad selector type')
    if not ri or not ci:
        raise Unjudged('empty selection')
    return [(i, j) for i in ri for j in ci], (len(ri), len(ci))


# --------------------------------------------------------------------------------------------------
# tolerances (DESIGN.md section 4)

K = 4.0


def round_conc(v) -> float:
    """A stated concentration as the library keeps it: rounded to the internal precision, in significant digits below 1."""
    p = cfg().internal_precision
    if v != 0 and abs(v) < 1 and math.isfinite(v):
        p -= math.floor(math.log10(abs(v))) + 1
    return round(v, p)


def conc_quantum(c) -> float:
    """Resolution of a stated concentration (value in its base-unit ratio): the internal precision in decimals for values of
    1 and above, the same number of *significant* digits below (fix 'a parsed concentration keeps ten significant digits')."""
    cf = cfg()
    c = abs(c)
    if c == 0 or c >= 1 or not math.isfinite(c):
        return cf.q
    return cf.q * 10.0 ** (math.floor(math.log10(c)) + 1)
EPS = 2.220446049250313e-16


def noise(*mags) -> float:
    return 16 * EPS * max([abs(m) for m in mags] + [0.0])


def close(obs, exp, abs_tol, rel=1e-9) -> bool:
    return abs(obs - exp) <= abs_tol + rel * abs(exp) + noise(obs, exp)
