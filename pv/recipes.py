"""Recipe programs: generation (online, against eager state), execution through the Recipe API, eager
replay through the direct operations, prefix-bake ledger, and the history-level checkers for
C08 (bake = eager), C09 (get_substance_used), C15 (flows / remaining), C17 (trash link),
C19 (step instructions) and the recipe part of C07.

The state after step k is what bake() returns for the prefix made of the first k steps (declaring only
the objects that prefix uses): no hook, and no trust in RecipeStep.frm/to, which the queries under test
read themselves."""
from __future__ import annotations

import math

import numpy

from . import refmodel as R
from . import fingerprint as F
from . import handlers as H1
from .monitors import M, MonitorBug, InjectedFault
from .gen import (make_substances, liquids, spell, rand_selector, sel_json, rect_selector, SubSel, subslice)

K = R.K


def PP():
    import pyplate.pyplate as pp
    return pp


# ==================================================================================================
# declarations and objects

def build_decls(rng, subs, n_containers=None, n_plates=None):
    decls = []
    liqs = liquids(subs)
    for i in range(n_containers if n_containers is not None else rng.randint(1, 4)):
        chosen = rng.sample(subs, rng.randint(1, min(3, len(subs))))
        if not any(s.is_liquid() for s in chosen):
            chosen.append(rng.choice(liqs))
        init = []
        trace = rng.random() < 0.25       # trace solutes: nanomolar stocks (concentrations of 1e-9 .. 1e-6 in base units)
        for s in chosen:
            if s.is_enzyme():
                init.append((s, f'{rng.randint(1, 500) / 10} U'))
            elif s.is_liquid():
                init.append((s, f'{rng.randint(5, 100)} mL'))
            elif trace:
                init.append((s, f'{10 ** rng.uniform(-2, 2.9):.3g} {rng.choice(["ng", "ng", "ug", "nmol"])}'))
            else:
                init.append((s, f'{rng.randint(1, 40) * 50} mg'))
        # (round 17) one container in seven lists a solid it holds nothing of ('0 mg' of the salt: a bottle declared that way, or
        # emptied and refilled): present by name, absent by amount. Drawn from a generator of its own, so that the programs of
        # the earlier rounds keep their requests.
        import random as _random
        aux = _random.Random(f'zero-entry:{i}:{init!r}')
        spare = [s for s in subs if not s.is_liquid() and s not in chosen]
        if spare and aux.random() < 0.15:
            z = aux.choice(spare)
            init.insert(aux.randint(0, len(init)), (z, '0 U' if z.is_enzyme() else aux.choice(['0 mg', '0 mol', '0 umol'])))
            M.bucket('recipe/decl/zero_entry')
        cap = rng.choice([None, None, f'{rng.randint(400, 900)} mL'])
        name = f'c{i}'
        if i == 0 and rng.random() < 0.2:
            # a container that happens to carry the name of a substance (a reservoir 'H2O' holding H2O): objects and
            # substances live in different namespaces and must not be confused
            name = rng.choice(liqs).name
        decls.append({'type': 'container', 'name': name, 'max': cap, 'init': init})
    if rng.random() < 0.5:
        decls.append({'type': 'container', 'name': 'e0', 'max': rng.choice([None, '500 mL']), 'init': []})
    for i in range(n_plates if n_plates is not None else rng.randint(1, 3)):
        rows, cols = rng.randint(1, 3), rng.randint(1, 4)
        decls.append({'type': 'plate', 'name': f'p{i}', 'max': f'{rng.choice([100, 200, 500])} uL', 'rows': rows, 'cols': cols})
    return decls


def make_objs(decls):
    pp = PP()
    out = {}
    with M.oracle():
        for d in decls:
            if d['type'] == 'container':
                if d['max']:
                    out[d['name']] = pp.Container(d['name'], d['max'], d['init'] or None)
                else:
                    out[d['name']] = pp.Container(d['name'], initial_contents=d['init'] or None)
            else:
                out[d['name']] = pp.Plate(d['name'], d['max'], rows=d['rows'], columns=d['cols'])
    return out


def ref_of(objs, r):
    name, sel = r
    o = objs[name]
    if sel is None:
        return o
    if isinstance(sel, SubSel):
        return sel.apply(o)
    return o[sel]


def is_plate(o):
    return isinstance(o, PP().Plate)


# ==================================================================================================
# eager semantics: the same operations through the direct container / plate operations

def apply_eager(cur, step, kf05=False):
    pp = PP()
    cur = dict(cur)
    op = step['op']
    if op == 'transfer':
        a, b, q = step['src'], step['dst'], step['q']
        src, dst = ref_of(cur, a), ref_of(cur, b)
        if isinstance(cur[b[0]], pp.Container):
            s2, d2 = pp.Container.transfer(src, dst, q)
        else:
            s2, d2 = pp.Plate.transfer(src, dst, q)
        if a[0] == b[0]:
            cur[a[0]] = d2
        else:
            cur[a[0]] = s2
            cur[b[0]] = d2
    elif op == 'remove':
        t = step['dst']
        cur[t[0]] = ref_of(cur, t).remove(step['what'])
    elif op == 'fill_to':
        t = step['dst']
        if kf05 and t[1] is not None:
            cur[t[0]] = cur[t[0]].fill_to(step['solvent'], step['q'])
        cur[t[0]] = ref_of(cur, t).fill_to(step['solvent'], step['q'])
    elif op == 'create_container':
        if step['max']:
            cur[step['name']] = pp.Container(step['name'], step['max'], step['init'] or None)
        else:
            cur[step['name']] = pp.Container(step['name'], initial_contents=step['init'] or None)
    elif op == 'dilute':
        cur[step['dst']] = cur[step['dst']].dilute(step['solute'], step['conc'], step['solvent'], step.get('new_name'))
    elif op == 'solution':
        solv = step['solvent']
        if isinstance(solv, str):       # name of a container
            cur[solv], cur[step['name']] = pp.Container.create_solution(step['solutes'], cur[solv], step['name'], **step['kw'])
        else:
            cur[step['name']] = pp.Container.create_solution(step['solutes'], solv, step['name'], **step['kw'])
    elif op == 'solution_from':
        cur[step['src']], cur[step['name']] = pp.Container.create_solution_from(
            cur[step['src']], step['solute'], step['conc'], step['solvent'], step['q'], step['name'])
    elif op in ('start_stage', 'end_stage'):
        pass
    else:
        raise KeyError(op)
    return cur


def touched(step):
    """Names used by a step, from the program."""
    op = step['op']
    if op == 'transfer':
        return [step['src'][0], step['dst'][0]]
    if op in ('remove', 'fill_to'):
        return [step['dst'][0]]
    if op == 'dilute':
        return [step['dst']]
    if op == 'create_container':
        return [step['name']]
    if op == 'solution':
        return [step['name']] + ([step['solvent']] if isinstance(step['solvent'], str) else [])
    if op == 'solution_from':
        return [step['src'], step['name']]
    return []


def creates(step):
    return step['name'] if step['op'] in ('create_container', 'solution', 'solution_from') else None


def real_steps(steps):
    return [s for s in steps if s['op'] not in ('start_stage', 'end_stage')]


def stage_ranges(steps):
    """stage name -> (a, b) over the indices of real steps; from the program, open stage closed at the end."""
    rng_ = {}
    idx = 0
    opened = {}
    for s in steps:
        if s['op'] == 'start_stage':
            opened[s['name']] = idx
        elif s['op'] == 'end_stage':
            rng_[s['name']] = (opened.pop(s['name']), idx)
        else:
            idx += 1
    for k, v in opened.items():
        rng_[k] = (v, idx)
    rng_['all'] = (0, idx)
    return rng_


# ==================================================================================================
# Recipe API

def to_recipe(decls, steps, only_names=None, declare=(), hostile=None, subs=None):
    """Build a Recipe for `steps` declaring the objects it uses (+ `declare`).  -> (recipe, handles)
    `hostile`: an rng; between steps, calls that the recipe must refuse are attempted (and their exceptions caught, as
    a user at a prompt would) - a refused call must leave nothing behind, which the downstream comparisons decide."""
    pp = PP()
    objs = make_objs(decls)
    r = pp.Recipe()
    used = set(declare)
    for s in steps:
        used.update(touched(s))
    created = {creates(s) for s in steps if creates(s)}
    declared = [n for n in objs if n in used and n not in created]
    if declared:
        declare_in_some_form(r, [objs[n] for n in declared], len(steps) + 3 * len(declared))
    handles = {n: objs[n] for n in declared}
    open_stage, closed = None, []
    for s in steps:
        add_step(r, handles, s)
        if s['op'] == 'start_stage':
            open_stage = s['name']
        elif s['op'] == 'end_stage':
            closed.append(s['name'])
            open_stage = None
        if hostile is not None and hostile.random() < 0.45:
            refused_attempt(r, handles, hostile, open_stage, closed, subs)
    return r, handles


def declare_in_some_form(r, objects, k):
    """`Recipe.uses` accepts objects and iterables of objects in any mixture: every spelling declares all of them."""
    n = len(objects)
    form = k % 6
    M.bucket(f'C16/uses_form/{form}')
    if form == 0 or n == 1 and form in (3, 4):
        r.uses(*objects)
    elif form == 1:
        r.uses(list(objects))
    elif form == 2:
        for o in objects:
            r.uses(o)
    elif form == 3:
        r.uses(list(objects[:n // 2]), *objects[n // 2:])          # an iterable first, plain objects after it
    elif form == 4:
        r.uses(objects[0], tuple(objects[1:]))
    else:
        r.uses((o for o in objects[:1]), list(objects[1:])) if n > 1 else r.uses(iter(objects))


HOSTILE_KINDS = ['stage_open', 'stage_dup', 'end_wrong', 'dup_container', 'dup_uses', 'dup_solution', 'dup_solution_from',
                 'dup_solution_from_default', 'undeclared_src', 'undeclared_dst', 'undeclared_fill', 'undeclared_remove',
                 'undeclared_dilute']


def refused_attempt(r, handles, rng, open_stage, closed, subs):
    """One call that C16 says the recipe refuses, made with otherwise well-formed arguments so that it gets as far into
    the declaring method as possible before the refusal."""
    pp = PP()
    liqs = [x for x in subs if x.is_liquid()]
    nonenz = [x for x in subs if not x.is_enzyme()]
    conts = [n for n, o in handles.items() if isinstance(o, pp.Container)]
    kind = rng.choice(HOSTILE_KINDS)
    liq = rng.choice(liqs)
    solute = rng.choice([x for x in nonenz if x != liq] or nonenz)
    stray = lambda: pp.Container('zz_undeclared', initial_contents=[(liq, '1 mL'), (solute, '1 mg')])   # noqa
    taken = rng.choice(sorted(handles)) if handles else None
    call = None
    if kind == 'stage_open' and open_stage is not None:
        call = lambda: r.start_stage('zz_other_stage')   # noqa
    elif kind == 'stage_dup' and (closed or open_stage):
        nm = rng.choice(closed + ([open_stage] if open_stage else []))
        call = lambda: r.start_stage(nm)   # noqa
    elif kind == 'end_wrong':
        call = lambda: r.end_stage('zz_no_such_stage')   # noqa
    elif kind == 'dup_container' and taken:
        call = lambda: r.create_container(taken, initial_contents=[(liq, '1 mL')])   # noqa
    elif kind == 'dup_uses' and taken:
        call = lambda: r.uses(pp.Container(taken))   # noqa
    elif kind == 'dup_solution' and taken and solute != liq:
        call = lambda: r.create_solution(solute, liq, name=taken, concentration='0.01 M', total_quantity='1 mL')   # noqa
    elif kind == 'dup_solution_from' and taken and conts and solute != liq:
        src = handles[rng.choice(conts)]
        call = lambda: r.create_solution_from(src, solute, '0.001 M', liq, '1 mL', name=taken)   # noqa
    elif kind == 'dup_solution_from_default' and conts and solute != liq:
        # the default name of the product collides with a declared object of that name
        src = handles[rng.choice(conts)]
        dflt = f'solution of {solute.name} in {liq.name}'
        if dflt in handles:
            call = lambda: r.create_solution_from(src, solute, '0.001 M', liq, '1 mL')   # noqa
    elif kind == 'undeclared_src' and conts:
        dst = handles[rng.choice(conts)]
        call = lambda: r.transfer(stray(), dst, '1 uL')   # noqa
    elif kind == 'undeclared_dst' and conts:
        src = handles[rng.choice(conts)]
        call = lambda: r.transfer(src, stray(), '1 uL')   # noqa
    elif kind == 'undeclared_fill':
        call = lambda: r.fill_to(stray(), liq, '2 mL')   # noqa
    elif kind == 'undeclared_remove':
        call = lambda: r.remove(stray())   # noqa
    elif kind == 'undeclared_dilute' and solute != liq:
        call = lambda: r.dilute(stray(), solute, '0.0001 M', liq)   # noqa
    if call is None:
        return
    M.count('HOSTILE.attempts')
    M.bucket(f'C16/refused_call/{kind}')
    try:
        call()
    except (MonitorBug, InjectedFault):
        raise
    except Exception:   # noqa
        M.count('HOSTILE.refused')
        return
    M.violate(['C16'], 'LIFE', f'C16:call_that_must_be_refused_was_accepted:{kind}', {'kind': kind})


def add_step(r, handles, s):
    op = s['op']
    if op == 'start_stage':
        r.start_stage(''.join(list(s['name'])))      # equal but distinct str objects, as names built at run time are
    elif op == 'end_stage':
        r.end_stage(''.join(list(s['name'])))
    elif op == 'transfer':
        r.transfer(ref_of(handles, s['src']), ref_of(handles, s['dst']), s['q'])
    elif op == 'remove':
        r.remove(ref_of(handles, s['dst']), s['what'])
    elif op == 'fill_to':
        r.fill_to(ref_of(handles, s['dst']), s['solvent'], s['q'])
    elif op == 'create_container':
        if s['max']:
            handles[s['name']] = r.create_container(s['name'], s['max'], s['init'] or None)
        else:
            handles[s['name']] = r.create_container(s['name'], initial_contents=s['init'] or None)
    elif op == 'dilute':
        r.dilute(handles[s['dst']], s['solute'], s['conc'], s['solvent'], s.get('new_name'))
    elif op == 'solution':
        solv = s['solvent']
        handles[s['name']] = r.create_solution(s['solutes'], handles[solv] if isinstance(solv, str) else solv,
                                               name=s['name'], **s['kw'])
    elif op == 'solution_from':
        handles[s['name']] = r.create_solution_from(handles[s['src']], s['solute'], s['conc'], s['solvent'], s['q'],
                                                    name=s['name'])


def snap(o):
    if o is None:
        return None
    if is_plate(o):
        return [[dict(w.contents) for w in row] for row in o.wells]
    return dict(o.contents)


def amount(sn, s):
    if sn is None:
        return 0.0
    if isinstance(sn, dict):
        return sn.get(s, 0.0)
    return sum(w.get(s, 0.0) for row in sn for w in row)


def total_unit(sn, unit):
    """Total content in `unit`: scalar for containers, array for plates."""
    if sn is None:
        return None
    if isinstance(sn, dict):
        return R.measure_unit(sn, unit)
    return numpy.array([[R.measure_unit(w, unit) for w in row] for row in sn], dtype=float)


def prefix_ledger(decls, steps):
    """L_0 .. L_n: name -> snapshot, from bakes of every prefix (monitors suspended)."""
    rs = real_steps(steps)
    init = make_objs(decls)
    ledgers = []
    objects = []
    with M.oracle():
        for k in range(len(rs) + 1):
            state = {n: o for n, o in init.items()}
            if k > 0:
                r, handles = to_recipe(decls, rs[:k])
                res = r.bake()
                state.update(res)
            ledgers.append({n: snap(o) for n, o in state.items()})
            objects.append(state)
    return ledgers, objects


# ==================================================================================================
# program generation (online: each request is drawn from the eager state)

def gen_program(rng, case, focus=None, allow_infeasible=True):
    pp = PP()
    subs = make_substances(rng, rng.randint(3, 5))
    liqs = liquids(subs)
    decls = build_decls(rng, subs)
    cur = make_objs(decls)
    steps = []
    stages = 0
    open_stage = None
    n_target = rng.randint(3, 12)
    tries = 0
    infeasible_at = None
    want_infeasible = allow_infeasible and rng.random() < 0.1
    created = 0

    def cn():
        return [n for n, o in cur.items() if isinstance(o, pp.Container)]

    def pn():
        return [n for n, o in cur.items() if isinstance(o, pp.Plate)]

    def nonempty(n):
        return any(a > 0 for a in cur[n].contents.values())

    def sel_for(pname, partial=None, sub_p=0.35):
        p = cur[pname]
        if partial is False or (partial is None and rng.random() < 0.3):
            return None, [(i, j) for i in range(p.wells.shape[0]) for j in range(p.wells.shape[1])]
        sel, idx, shape = rand_selector(rng, p)
        for _ in range(4):
            if len(idx) > 1 or sub_p <= 0.35:
                break
            sel, idx, shape = rand_selector(rng, p)            # (a part with several wells, so that a part of it can be taken)
        if len(idx) > 1 and rng.random() < sub_p:
            # a slice of a slice as the step's reference (the recipe must act on exactly the sub-selection)
            with M.oracle():
                r = subslice(rng, p, sel, idx, shape)
            if r is not None:
                _sl, idx2, shape2, _desc, item = r
                M.bucket('C07/recipe/subslice_reference')
                return SubSel(sel, item, idx2, shape2), idx2
        return sel, idx

    kinds = ['t_cc', 't_cp', 't_cp', 't_cp', 't_pc', 't_pp', 'remove', 'fill', 'newc', 'dilute', 'solution',
             'solution_c', 'solution_from', 'fill_big']
    if case.get('prop') == 'C08':
        kinds += ['remove']
    if focus == 'remove':
        kinds += ['remove'] * 5 + ['t_cp'] * 2
    if focus == 'plates':
        kinds += ['t_cp', 't_pc', 't_pp', 't_pp', 'remove', 'fill'] * 2
    if focus == 'instructions':
        kinds += ['fill', 'dilute', 'solution', 'solution_from', 't_cp']
    while len(real_steps(steps)) < n_target and tries < 80:
        tries += 1
        if open_stage is None and rng.random() < 0.05:
            # a stage that contains no step at all: a legal timeframe in which nothing was used and nothing flowed
            steps.append({'op': 'start_stage', 'name': f'empty{stages}'})
            steps.append({'op': 'end_stage', 'name': f'empty{stages}'})
            stages += 1
            M.bucket('C09/empty_stage')
        if open_stage is None and rng.random() < 0.25:
            open_stage = f'st{stages}'
            stages += 1
            steps.append({'op': 'start_stage', 'name': open_stage})
        kind = rng.choice(kinds)
        st = None
        C, P = cn(), pn()
        if kind == 't_cc' and len(C) > 1:
            srcs = [n for n in C if nonempty(n)]
            if srcs:
                a = rng.choice(srcs)
                b = rng.choice([n for n in C if n != a])
                base = rng.choice([x for x in R.BASES if R.measure(cur[a].contents, x) > 0])
                m = R.measure(cur[a].contents, base)
                room = H1_room(cur[b])
                vol = R.measure(cur[a].contents, 'L')
                lim = min(m, room / vol * m if vol > 0 and math.isfinite(room) else m)
                st = {'op': 'transfer', 'src': [a, None], 'dst': [b, None], 'q': spell(rng, lim * rng.uniform(0.01, 0.4), base)}
        elif kind == 't_cp' and C and P:
            srcs = [n for n in C if nonempty(n)]
            if srcs:
                a, b = rng.choice(srcs), rng.choice(P)
                sel, idx = sel_for(b)
                base = rng.choice([x for x in R.BASES if R.measure(cur[a].contents, x) > 0])
                m = R.measure(cur[a].contents, base)
                vol = R.measure(cur[a].contents, 'L')
                room = min(H1_room(cur[b].wells[ij]) for ij in idx)
                lim = min(m / len(idx), room / vol * m if vol > 0 else m)
                st = {'op': 'transfer', 'src': [a, None], 'dst': [b, sel], 'q': spell(rng, lim * rng.uniform(0.05, 0.5), base)}
        elif kind == 't_pc' and C and P:
            a, b = rng.choice(P), rng.choice(C)
            sel, idx = sel_for(a)
            wells = [cur[a].wells[ij] for ij in idx]
            vols = [R.measure(w.contents, 'L') for w in wells]
            if min(vols) > 0:
                room = H1_room(cur[b]) / len(idx)
                st = {'op': 'transfer', 'src': [a, sel], 'dst': [b, None],
                      'q': spell(rng, min(min(vols), room) * rng.uniform(0.05, 0.5), 'L')}
        elif kind == 't_pp' and P:
            st = gen_pp(rng, cur, P)
        elif kind == 'remove' and (C or P):
            t = rng.choice(C + P)
            # half of the removals go to a plate that holds something, and most of those to a part of a part of it
            loaded = [p_ for p_ in P if any(w_.contents for w_ in cur[p_].wells.flatten())]
            on_loaded = bool(loaded) and rng.random() < 0.5
            if on_loaded:
                t = rng.choice(loaded)
            o = cur[t]
            present = list(o.get_substances()) if is_plate(o) else list(o.contents)
            what = rng.choice(present) if present and rng.random() < 0.6 else rng.choice([R.SOLID, R.LIQUID, R.ENZYME])
            sel = None
            if is_plate(o):
                sel, idx = sel_for(t, partial=True, sub_p=0.7) if on_loaded else sel_for(t)
                if on_loaded and isinstance(sel, SubSel):
                    M.bucket('C17/recipe/remove_on_part_of_a_part_of_a_loaded_plate')
            st = {'op': 'remove', 'dst': [t, sel], 'what': what}
            if rng.random() < 0.5 and open_stage is None:
                # its own stage, so that the discarded amounts can be queried (C17 trash link)
                steps.append({'op': 'start_stage', 'name': f'rm{stages}'})
                try:
                    cur = apply_eager(cur, st)
                except Exception:
                    steps.pop()
                    continue
                steps.append(st)
                steps.append({'op': 'end_stage', 'name': f'rm{stages}'})
                stages += 1
                continue
        elif kind == 'fill' and (C or P):
            t = rng.choice(C + P)
            o = cur[t]
            solv = rng.choice(liqs)
            base = rng.choice(['L', 'L', 'g', 'mol'])
            if rng.random() < 0.2:
                # an enzyme or a solid as the filler (a target in a unit that measures it)
                others = [s_ for s_ in subs if not s_.is_liquid() and R.per(s_, base) > 0 and R.per(s_, 'L') > 0]
                if others:
                    solv = rng.choice(others)
                    M.bucket('C19/recipe/fill_to/' + ('enzyme' if solv.is_enzyme() else 'solid') + '_filler')
            if is_plate(o):
                # recipe fill_to on a *part* of a plate is the recorded finding KF05 (it fills the whole plate):
                # random programs use the whole plate; parts are exercised by the directed witnesses
                sel, idx = sel_for(t, partial=False) if not (case.get('kf05')) else sel_for(t, partial=True)
                wells = [o.wells[ij] for ij in idx]
            else:
                sel, wells = None, [o]
            curq = max(R.measure(w.contents, base) for w in wells)
            room = min(H1_room(w) for w in wells)
            pb, pl = R.per(solv, base), R.per(solv, 'L')
            maxadd = room / pl * pb if math.isfinite(room) else max(curq, 1e-4) * 2
            if maxadd > 0:
                st = {'op': 'fill_to', 'dst': [t, sel], 'solvent': solv, 'q': spell(rng, curq + maxadd * rng.uniform(0.05, 0.6), base)}
        elif kind == 'fill_big' and C:
            # a container without a stated capacity has none: fill a recipe-created (or declared) unbounded container far
            # beyond every capacity that appears in the program
            unb = [n for n in C if not math.isfinite(cur[n].max_volume) and R.measure(cur[n].contents, 'L') < 1.5]
            made = [n for n in unb if n[0] in 'sfn' and n[1:].isdigit()]
            if made or unb:
                t = rng.choice(made or unb)
                st = {'op': 'fill_to', 'dst': [t, None], 'solvent': rng.choice(liqs), 'q': rng.choice(['2 L', '1.7 L', '2500 mL'])}
                M.bucket('C08/fill_unbounded_container_beyond_every_capacity')
        elif kind == 'newc':
            created += 1
            init = [(rng.choice(liqs), f'{rng.randint(1, 50)} mL')]
            s2 = rng.choice(subs)
            if s2 != init[0][0]:
                init.append((s2, f'{rng.randint(1, 9)} U' if s2.is_enzyme() else f'{rng.randint(1, 900)} mg'))
            st = {'op': 'create_container', 'name': f'n{created}', 'max': rng.choice([None, '200 mL']), 'init': init}
        elif kind == 'dilute' and C:
            cands = [n for n in C if any((not s.is_enzyme()) and a > 0 for s, a in cur[n].contents.items())
                     and R.measure(cur[n].contents, 'L') > 0]
            if cands:
                t = rng.choice(cands)
                solute = rng.choice([s for s, a in cur[t].contents.items() if not s.is_enzyme() and a > 0])
                solv = rng.choice([l for l in liqs if l != solute] or liqs)
                if solv != solute:
                    num, den = rng.choice([('mol', 'L'), ('g', 'L'), ('g', 'g'), ('mol', 'mol')])
                    c0 = R.concentration(cur[t].contents, solute, num, den)
                    if 1e-13 < c0 < 1e6:
                        if c0 < 1e-4:
                            M.bucket('C08/dilute/trace_concentration')
                        st = {'op': 'dilute', 'dst': t, 'solute': solute, 'solvent': solv,
                              'conc': f'{c0 * rng.uniform(0.3, 0.9):.6g} {num}/{den}',
                              'new_name': rng.choice([None, None, f'renamed{len(steps)}'])}
        elif kind in ('solution', 'solution_c'):
            created += 1
            solute = rng.choice([s for s in subs if not s.is_liquid()] or subs)
            kw = {'concentration': f'{rng.randint(1, 20) / 10} ' + ('U/mL' if solute.is_enzyme() else rng.choice(['M', 'g/L', 'mg/mL'])),
                  'total_quantity': f'{rng.randint(5, 40)} mL'}
            if rng.random() < 0.3:
                kw = {'quantity': f'{rng.randint(1, 9)} U' if solute.is_enzyme() else f'{rng.randint(10, 500)} mg',
                      'total_quantity': f'{rng.randint(5, 40)} mL'}
            if kind == 'solution':
                st = {'op': 'solution', 'name': f's{created}', 'solutes': solute, 'solvent': rng.choice([l for l in liqs if l != solute]), 'kw': kw}
            else:
                # (a solvent container that lists the solute with an amount of zero is as good as one that does not list it)
                cands = [n for n in C if any(s.is_liquid() and a > 0 for s, a in cur[n].contents.items())
                         and not cur[n].contents.get(solute, 0)]
                zero_listed = [n for n in cands if solute in cur[n].contents]
                if zero_listed:
                    cands = zero_listed
                    M.bucket('recipe/solution/solvent_container_lists_the_solute_with_zero')
                if cands:
                    st = {'op': 'solution', 'name': f's{created}', 'solutes': [solute], 'solvent': rng.choice(cands), 'kw': kw}
        elif kind == 'solution_from' and C:
            cands = [n for n in C if any(s.is_solid() and a > 0 for s, a in cur[n].contents.items())
                     and R.measure(cur[n].contents, 'L') > 0]
            if cands:
                created += 1
                t = rng.choice(cands)
                solute = rng.choice([s for s, a in cur[t].contents.items() if s.is_solid() and a > 0])
                c0 = R.concentration(cur[t].contents, solute, 'mol', 'L')
                vol = R.measure(cur[t].contents, 'L')
                if c0 > 1e-4:
                    st = {'op': 'solution_from', 'name': f'f{created}', 'src': t, 'solute': solute,
                          'conc': f'{c0 * rng.uniform(0.2, 0.8):.6g} M', 'solvent': rng.choice([l for l in liqs if l != solute]),
                          'q': spell(rng, vol * rng.uniform(0.05, 0.4), 'L')}
        if st is None:
            continue
        if want_infeasible and infeasible_at is None and len(real_steps(steps)) >= 1 and rng.random() < 0.3 \
                and st['op'] == 'transfer':
            v, b = R.parse_quantity(st['q'])
            st = dict(st, q=spell(rng, v * 1e4, b))
        try:
            with M.oracle():
                cur = apply_eager(cur, st)
        except (ValueError,) as e:
            if want_infeasible and infeasible_at is None and st['op'] == 'transfer':
                infeasible_at = len(real_steps(steps))
                steps.append(st)
                break
            continue
        except (MonitorBug, InjectedFault):
            raise
        except Exception:
            continue      # mechanisms of recorded findings (list slices etc.) are not carried into programs
        steps.append(st)
        if st['op'] == 'dilute' and st.get('new_name'):
            # (round 17, seeded s-C08-i) the container that was given a new name is diluted once more, without one: it keeps
            # the new name, in the eager fold and in what bake returns. (Drawn from a generator of its own.)
            import random as _random
            aux = _random.Random(f"again:{st['conc']}:{st['new_name']}")
            if aux.random() < 0.6:
                val_, unit_ = st['conc'].split(' ', 1)
                again = dict(st, conc=f'{float(val_) * aux.choice([0.5, 0.25, 0.8]):.6g} {unit_}', new_name=None)
                try:
                    with M.oracle():
                        cur = apply_eager(cur, again)
                    steps.append(again)
                    M.bucket('C08/dilute/again_after_a_renaming_dilute')
                except (MonitorBug, InjectedFault):
                    raise
                except Exception:   # noqa
                    pass
        if open_stage and rng.random() < 0.35:
            steps.append({'op': 'end_stage', 'name': open_stage})
            open_stage = None
    # declare only what is used
    used = set()
    for s in steps:
        used.update(touched(s))
    decls = [d for d in decls if d['name'] in used]
    return {'subs': subs, 'decls': decls, 'steps': steps, 'infeasible_at': infeasible_at}


def H1_room(container):
    cf = R.cfg()
    if not math.isfinite(container.max_volume):
        return float('inf')
    return max(container.max_volume * cf.vol_prefix - R.measure(container.contents, 'L'), 0.0)


def gen_pp(rng, cur, P):
    """slice -> slice between two plates or within one plate (disjoint regions only: overlap is KF02)."""
    a = rng.choice(P)
    same = rng.random() < 0.3 or len(P) < 2
    b = a if same else rng.choice([n for n in P if n != a])
    pa, pb = cur[a], cur[b]
    form = rng.choice(['1->N', 'N->1', 'N->N'])
    Ra, Ca = pa.wells.shape
    Rb, Cb = pb.wells.shape
    if form == 'N->N':
        h, w = rng.randint(1, min(Ra, Rb)), rng.randint(1, min(Ca, Cb))
        r0, c0 = rng.randint(0, Ra - h), rng.randint(0, Ca - w)
        places = [(x, y) for x in range(Rb - h + 1) for y in range(Cb - w + 1)]
        if same:
            places = [(x, y) for x, y in places if x + h <= r0 or r0 + h <= x or y + w <= c0 or c0 + w <= y]
        if not places:
            return None
        x, y = rng.choice(places)
        ssel = rect_selector(rng, pa, r0, r0 + h - 1, c0, c0 + w - 1)
        dsel = rect_selector(rng, pb, x, x + h - 1, y, y + w - 1)
    elif form == '1->N':
        ij = (rng.randrange(Ra), rng.randrange(Ca))
        ssel = (ij[0] + 1, ij[1] + 1)
        for _ in range(10):
            dsel, didx, _ = rand_selector(rng, pb, ['row', 'two', 'rowslice', 'colslice', 'cell_tuple', 'whole'])
            if not same or ij not in didx:
                break
        else:
            return None
    else:
        ij = (rng.randrange(Rb), rng.randrange(Cb))
        dsel = (ij[0] + 1, ij[1] + 1)
        for _ in range(10):
            ssel, sidx, _ = rand_selector(rng, pa, ['row', 'two', 'rowslice', 'colslice', 'cell_tuple', 'whole'])
            if not same or ij not in sidx:
                break
        else:
            return None
    sidx, _ = R.ref_address(list(pa.row_names), list(pa.column_names), ssel)
    didx, _ = R.ref_address(list(pb.row_names), list(pb.column_names), dsel)
    vols = [R.measure(pa.wells[ij].contents, 'L') for ij in sidx]
    if min(vols) <= 0:
        return None
    ndraw = len(didx) if len(sidx) == 1 else 1
    nfill = len(sidx) if len(didx) == 1 else 1
    room = min(H1_room(pb.wells[ij]) for ij in didx) / nfill
    lim = min(min(vols) / ndraw, room)
    if lim <= 0:
        return None
    return {'op': 'transfer', 'src': [a, ssel], 'dst': [b, dsel], 'q': spell(rng, lim * rng.uniform(0.05, 0.5), 'L')}


def check_two_recipes(prog, pdesc, eager_states, case):
    """The same program as two recipes in sequence: the objects returned by the first bake are declared to a second
    recipe that performs the remaining steps.  Results of a bake are ordinary objects; the second bake must continue
    from their state exactly as the direct operations do (C08; C04: results reused as inputs)."""
    pp = PP()
    steps = prog['steps']
    # cut where no stage is open, with at least one real step on either side
    cuts, open_ = [], None
    n_real = 0
    total_real = len(real_steps(steps))
    for i, s_ in enumerate(steps):
        if s_['op'] == 'start_stage':
            open_ = s_['name']
        elif s_['op'] == 'end_stage':
            open_ = None
        else:
            n_real += 1
        if open_ is None and 0 < n_real < total_real:
            cuts.append(i + 1)
    if not cuts:
        return
    cut = cuts[len(cuts) // 2]
    first, second = steps[:cut], steps[cut:]
    if not real_steps(first) or not real_steps(second):
        return
    M.count('C08.two_recipes')
    M.bucket('C08/two_recipes_in_sequence')
    try:
        r1, h1 = to_recipe(prog['decls'], first)
        res1 = r1.bake()
        used2 = set()
        for s_ in second:
            used2.update(touched(s_))
        created2 = {creates(s_) for s_ in second if creates(s_)}
        objs = make_objs(prog['decls'])
        objs.update(res1)
        declared2 = [n_ for n_ in objs if n_ in used2 and n_ not in created2]
        r2 = pp.Recipe()
        if declared2:
            r2.uses(*[objs[n_] for n_ in declared2])
        h2 = {n_: objs[n_] for n_ in declared2}
        before2 = {n_: F.fingerprint(o_) for n_, o_ in h2.items()}
        for s_ in second:
            add_step(r2, h2, s_)
        res2 = r2.bake()
    except (MonitorBug, InjectedFault):
        raise
    except Exception as e:   # noqa
        M.violate(['C08'], 'BAKE', f'C08:two_recipes_in_sequence_refused:{type(e).__name__}', {'exc': repr(e)[:300], 'cut': cut, 'program': pdesc})
        return
    final = dict(res1)
    final.update(res2)
    want = eager_states[-1]
    for nme in want:
        if nme not in final:
            continue        # a declared object that neither half uses
        d = same_state(want[nme], final[nme])
        if d:
            M.violate(['C08'], 'BAKE', 'C08:two_recipes_in_sequence_ne_eager_fold', {'name': nme, 'diff': d, 'cut': cut, 'program': pdesc})
            return
    for n_, fp in before2.items():
        if n_ in res1 and F.fingerprint(res1[n_]) != fp:
            M.violate(['C08', 'C04'], 'BAKE', 'C04:result_of_first_bake_changed_by_second_recipe', {'name': n_, 'program': pdesc})
            return


def append_remove_chain(rng, prog):
    """Consecutive removals, each in its own stage, on disjoint parts of one plate and then on the whole plate (or on one
    container: an absent selection first): the second removal meets wells that the first one left exactly as they were."""
    steps = prog['steps']
    opened = [s_['name'] for s_ in steps if s_['op'] == 'start_stage']
    closed = {s_['name'] for s_ in steps if s_['op'] == 'end_stage'}
    for nme in opened:
        if nme not in closed:
            steps.append({'op': 'end_stage', 'name': nme})
    plates = [d_ for d_ in prog['decls'] if d_['type'] == 'plate' and d_['rows'] * d_['cols'] >= 2]
    conts = [d_ for d_ in prog['decls'] if d_['type'] == 'container']
    what = rng.choice([R.LIQUID, R.LIQUID, R.SOLID] + list(prog['subs']))
    chain = []
    if plates and (rng.random() < 0.75 or not conts):
        d_ = rng.choice(plates)
        if d_['rows'] >= 2 and rng.random() < 0.6:
            parts = [1, slice(2, None)]
        elif d_['cols'] >= 2:
            parts = [(slice(None), 1), (slice(None), slice(2, None))]
        else:
            parts = [1, slice(2, None)]
        if rng.random() < 0.5:
            parts.reverse()
        chain = [([d_['name'], parts[0]], what), ([d_['name'], parts[1]], what), ([d_['name'], None], rng.choice([R.SOLID, R.ENZYME, R.LIQUID]))]
        M.bucket('C17/recipe/remove_chain/plate')
    elif conts:
        d_ = rng.choice(conts)
        chain = [([d_['name'], None], R.ENZYME), ([d_['name'], None], R.LIQUID), ([d_['name'], None], R.SOLID)]
        rng.shuffle(chain)
        liq_ = liquids(prog['subs'])[0]
        if rng.random() < 0.6 and (d_['max'] is None):
            # wash cycles: the same substance is removed from the same container more than once (refilled in between)
            chain = [([d_['name'], None], R.LIQUID), ('fill', d_['name'], liq_, '300 mL'), ([d_['name'], None], liq_),
                     ('fill', d_['name'], liq_, '250 mL'), ([d_['name'], None], R.LIQUID)]
            M.bucket('C17/recipe/remove_chain/wash_cycles')
        M.bucket('C17/recipe/remove_chain/container')
    for k, item in enumerate(chain):
        if item[0] == 'fill':
            steps.append({'op': 'fill_to', 'dst': [item[1], None], 'solvent': item[2], 'q': item[3]})
            continue
        ref, w_ = item
        steps.append({'op': 'start_stage', 'name': f'zc{k}'})
        steps.append({'op': 'remove', 'dst': ref, 'what': w_})
        steps.append({'op': 'end_stage', 'name': f'zc{k}'})


def describe_program(prog):
    def d(v):
        if hasattr(v, 'name') and hasattr(v, '_type'):
            return v.name
        if isinstance(v, (list, tuple)):
            return [d(x) for x in v]
        if isinstance(v, dict):
            return {k: d(x) for k, x in v.items()}
        if isinstance(v, slice):
            return sel_json(v)
        return v
    steps = []
    for s in prog['steps']:
        s2 = {}
        for k, v in s.items():
            if k in ('src', 'dst') and isinstance(v, list):
                s2[k] = [v[0], sel_json(v[1]) if v[1] is not None else None]
            else:
                s2[k] = d(v)
        steps.append(s2)
    return {'decls': [{k: d(v) for k, v in dd.items()} for dd in prog['decls']], 'steps': steps}


# ==================================================================================================
# the case: run a program in every mode and apply the checkers

def same_state(a, b, tolmul=1.0):
    """None if two objects (containers or plates) agree on contents/volume/capacity within tolerance."""
    pp = PP()
    if isinstance(a, pp.Container) and isinstance(b, pp.Container):
        return H1.same_container_state(a, b, tolmul)
    if isinstance(a, pp.Plate) and isinstance(b, pp.Plate):
        if a.wells.shape != b.wells.shape:
            return 'shape'
        for (ij, wa) in H1._enum(a.wells):
            d = H1.same_container_state(wa, b.wells[ij], tolmul)
            if d:
                return f'well {ij}: {d}'
        return None
    return f'types {type(a).__name__} vs {type(b).__name__}'


def run_recipe_case(rng, case, idx, focus=None):
    pp = PP()
    case = dict(case)
    if focus in ('kf05',):
        case['kf05'] = True
    with M.oracle():
        prog = gen_program(rng, case, focus)
    if not real_steps(prog['steps']):
        return
    # "forgot to use a declared object": one declared container is used by the *last* step only; through the Recipe
    # API that step is added after a first, refused, bake - which must leave the recipe (steps, results, open stage)
    # as it was, so that everything downstream equals the program with that step in place
    forgot = (idx % 4 == 0) and prog['infeasible_at'] is None
    if focus == 'remove' and idx % 3 == 2 and prog['infeasible_at'] is None:
        append_remove_chain(rng, prog)
    fname = 'zz_forgot'
    if forgot:
        # half of the time the forgotten container is named after a substance that the steps mention as an operand
        # (a bottle called 'water' in a recipe that fills with water): names of substances are not names of objects
        opnames = set()
        for s_ in prog['steps']:
            for key in ('solvent', 'solute', 'what'):
                v = s_.get(key)
                if hasattr(v, '_type'):
                    opnames.add(v.name)
            for v in (s_.get('solutes') or []) if isinstance(s_.get('solutes'), (list, tuple)) else [s_.get('solutes')]:
                if hasattr(v, '_type'):
                    opnames.add(v.name)
        opnames -= {d_['name'] for d_ in prog['decls']} | {creates(s_) for s_ in prog['steps'] if creates(s_)}
        if opnames and rng.random() < 0.5:
            fname = sorted(opnames)[0]
            M.bucket('C16/forgotten_object_named_like_operand_substance')
        prog['decls'] = prog['decls'] + [{'type': 'container', 'name': fname, 'max': None,
                                          'init': [(liquids(prog['subs'])[0], '1 mL'), (prog['subs'][0], '2 U' if prog['subs'][0].is_enzyme() else '3 mg')]}]
        prog['steps'] = prog['steps'] + [{'op': 'remove', 'dst': [fname, None], 'what': R.SOLID}]
    rs = real_steps(prog['steps'])
    pdesc = describe_program(prog)
    n = len(rs)
    # refused calls between the steps (every third program): the recipe must come out as if they had not been made
    import random as _random
    hostile = _random.Random(rng.random()) if idx % 3 == 1 else None
    pdesc['hostile'] = hostile is not None
    # ---------------- eager fold (monitors on: the direct operations are watched too)
    eager_states = []
    eager_exc = None
    cur = make_objs(prog['decls'])
    eager_states.append(cur)
    with M.active(case):
        for k, s in enumerate(rs):
            try:
                cur = apply_eager(cur, s)
                eager_states.append(cur)
            except (MonitorBug, InjectedFault):
                raise
            except Exception as e:   # noqa
                eager_exc = (k, e)
                break
    # ---------------- through the Recipe API (monitors on: nested operations inside bake are watched)
    bake_exc = None
    res = None
    r = None
    handles = {}
    placeholders = {}
    recipe_before = None
    with M.active(case):
        try:
            if forgot and eager_exc is None:
                r, handles = to_recipe(prog['decls'], prog['steps'][:-1], declare=[fname], hostile=hostile, subs=prog['subs'])
                M.count('C08.rebake')
                M.bucket('C08/rebake_after_refused_bake')
                try:
                    r.bake()
                    M.violate(['C08', 'C16'], 'BAKE', 'C08:bake_with_unused_declared_object_accepted', {'program': pdesc})
                except ValueError:
                    pass
                add_step(r, handles, prog['steps'][-1])
            else:
                r, handles = to_recipe(prog['decls'], prog['steps'], hostile=hostile, subs=prog['subs'])
            placeholders = {nme: F.fingerprint(o) for nme, o in handles.items()}
            pre_bake = {nme: F.fingerprint(o) for nme, o in handles.items()}
            with M.oracle():
                recipe_before = recipe_state(r)
            res = r.bake()
        except (MonitorBug, InjectedFault):
            raise
        except Exception as e:   # noqa
            bake_exc = e
        # ---------------- a bake that raised part-way: the recipe is as it was, and baking it again is refused again
        if bake_exc is not None and recipe_before is not None:
            rebake_after_refusal(r, recipe_before, bake_exc, pdesc)
    M.count('C08.programs')
    kinds = sorted({s['op'] for s in rs})
    for kd in kinds:
        M.bucket(f'C08/step/{kd}')
    reuse = len(rs) >= 3 and any(sum(1 for s in rs if nme in touched(s)) >= 2 for nme in {x for s in rs for x in touched(s)})
    # ---------------- C08: bake = eager
    check_c08(prog, pdesc, rs, eager_states, eager_exc, res, bake_exc, handles, placeholders, case)
    if reuse and bake_exc is None and eager_exc is None:
        M.note_nontrivial('C08', repr(pdesc)[:3000])
        M.sample('C08', {'program': pdesc, 'result_names': sorted(res)}, cap=3)
    if res is None or eager_exc is not None:
        return
    if idx % 5 == 3 and not forgot and not any(s_.get('new_name') for s_ in rs):
        with M.active(case):
            check_two_recipes(prog, pdesc, eager_states, case)
    conforming = all(same_state(eager_states[-1][nme], res[nme]) is None for nme in res if nme in eager_states[-1])
    # ---------------- ledger from prefix bakes
    try:
        ledger, objects = prefix_ledger(prog['decls'], prog['steps'])
    except (MonitorBug, InjectedFault):
        raise
    except Exception as e:   # noqa
        M.count('ledger.prefix_bake_failed')
        return
    M.count('ledger.built')
    # prefix independence (C08): the state after step k does not depend on steps > k
    for nme in res:
        d = same_state(objects[n].get(nme), res[nme]) if nme in objects[n] else 'missing'
        if d:
            M.violate(['C08'], 'BAKE', 'C08:prefix_bake_of_all_steps_differs_from_bake', {'name': nme, 'diff': d, 'program': pdesc})
            return
    if not conforming:
        # which step first departs from the direct operation?  If it is a plate step and the plate it touches is what
        # differs (everything agreed one step earlier), the step did not act well-by-well on the addressed wells (C07)
        for k in range(1, n + 1):
            badn = [nme for nme, o in objects[k].items() if nme in eager_states[k] and same_state(eager_states[k][nme], o)]
            if badn:
                st_ = rs[k - 1]
                refs = [st_.get('src'), st_.get('dst')] if st_['op'] == 'transfer' else [st_.get('dst')]
                refs = [x for x in refs if isinstance(x, list)]
                on_plate = [nme for nme in badn if is_plate(objects[k][nme]) and nme in touched(st_)]
                kf05_zone = st_['op'] == 'fill_to' and st_['dst'][1] is not None
                if on_plate and st_['op'] in ('transfer', 'remove', 'fill_to') and not kf05_zone:
                    sub = any(isinstance(x[1], SubSel) for x in refs)
                    # (a remove step that departs from the direct removal did not delete exactly the selected substances: C17 too)
                    M.violate(['C07', 'C17'] if st_['op'] == 'remove' else ['C07'], 'BAKE', f'C07:recipe_step_ne_direct_operation:{st_["op"]}' + (':subslice_reference' if sub else ''),
                              {'k': k, 'name': on_plate[0], 'diff': same_state(eager_states[k][on_plate[0]], objects[k][on_plate[0]]),
                               'program': pdesc})
                break
    if conforming:
        for k in range(1, n):
            for nme, o in objects[k].items():
                if nme in eager_states[k]:
                    M.count('C08.prefix_state')
                    d = same_state(eager_states[k][nme], o)
                    if d:
                        M.violate(['C08'], 'BAKE', f'C08:state_after_step_k_depends_on_later_steps_or_differs:{rs[k - 1]["op"]}',
                                  {'k': k, 'name': nme, 'diff': d, 'program': pdesc})
                        break
    with M.active(case):
        # (programs in which a dilute step gives its container a new name included: the tracking queries are asked about the
        # object that was declared)
        if any(s_.get('new_name') for s_ in rs):
            M.bucket('C15/program_with_renaming_dilute')
        check_c09(prog, pdesc, rs, r, res, ledger, case, handles)
        check_c15(prog, pdesc, rs, r, res, ledger, case, handles)
        check_step_tables(prog, pdesc, rs, r, res, ledger, case)
        check_c17_trash(prog, pdesc, rs, r, res, ledger, case, handles)
        check_c19_steps(prog, pdesc, rs, r, res, ledger, objects, case)


# --------------------------------------------------------------------------------------------------

def recipe_state(r):
    """What a recipe lets its user see before bake: its declared objects (by name, with their contents), whether it is locked,
    its stages, and what each step refers to (the kind of object and the wells a slice addresses)."""
    def ref_(x):
        if x is None:
            return None
        if hasattr(x, 'plate'):
            try:
                return ('slice', x.plate.name, tuple(w_.name for w_ in x.get().flatten()) if hasattr(x.get(), 'flatten') else (x.get().name,))
            except Exception as e_:   # noqa
                return ('slice', x.plate.name, repr(e_)[:60])
        return (type(x).__name__, x.name)
    steps = []
    for st_ in r.steps:
        steps.append((st_.operator, tuple(ref_(x) for x in st_.frm), tuple(ref_(x) for x in st_.to), len(st_.trash)))
    return {'results': {nme: F.fingerprint(o) for nme, o in r.results.items()}, 'locked': r.locked,
            'stages': {k: (v.start, v.stop) for k, v in r.stages.items()}, 'open': r.current_stage, 'steps': steps}


def rebake_after_refusal(r, before, bake_exc, pdesc):
    """First bake raised.  (1) nothing the recipe shows has changed, (2) a second bake raises again - the steps are the same
    and so is what they are applied to - instead of returning some result of steps applied twice, or of slice steps carried
    out on whole plates."""
    M.count('C08.rebake_after_refused_step')
    M.bucket('C08/rebake_after_refused_step')
    with M.oracle():
        after = recipe_state(r)
    if after != before:
        what = sorted(k for k in before if before[k] != after.get(k))
        names = sorted(nme for nme in before['results'] if before['results'][nme] != after['results'].get(nme)) if 'results' in what else []
        M.violate(['C04', 'C08', 'C16'], 'BAKE', 'C04:refused_bake_changed_the_recipe:' + '+'.join(what),
                  {'changed': what, 'objects': names[:6], 'first_bake': repr(bake_exc)[:200], 'program': pdesc})
    try:
        res2 = r.bake()
    except (MonitorBug, InjectedFault):
        raise
    except Exception as e2:   # noqa
        if isinstance(e2, ValueError) != isinstance(bake_exc, ValueError) and type(e2) is not type(bake_exc):
            M.violate(['C08', 'C16'], 'BAKE', f'C08:second_bake_refused_differently:{type(bake_exc).__name__}->{type(e2).__name__}',
                      {'first_bake': repr(bake_exc)[:200], 'second_bake': repr(e2)[:200], 'program': pdesc})
        return
    M.violate(['C08', 'C03', 'C16', 'C04', 'C07', 'C01', 'C02'], 'BAKE', 'C08:second_bake_after_refused_bake_returned_a_result',
              {'first_bake': repr(bake_exc)[:200], 'second_bake_returned': sorted(res2), 'program': pdesc})


def check_c08(prog, pdesc, rs, eager_states, eager_exc, res, bake_exc, handles, placeholders, case):
    pp = PP()
    M.count('C08.compare')
    has_slice_fill = any(s['op'] == 'fill_to' and s['dst'][1] is not None for s in rs)
    if eager_exc is not None or bake_exc is not None:
        ek = type(eager_exc[1]).__name__ if eager_exc else None
        bk = type(bake_exc).__name__ if bake_exc is not None else None
        M.bucket(f'C08/outcome/eager={ek}/bake={bk}')
        if (eager_exc is None) != (bake_exc is None) or (eager_exc is not None and not (
                isinstance(eager_exc[1], ValueError) and isinstance(bake_exc, ValueError)) and ek != bk):
            mech = f'C08:bake_and_eager_disagree_on_feasibility:eager={ek}:bake={bk}'
            if has_slice_fill and eager_exc is None and isinstance(bake_exc, ValueError):
                # KF05 in its "refused" form: the whole-plate fill hits a non-addressed well above the target
                try:
                    with M.oracle():
                        cur = make_objs(prog['decls'])
                        for s in rs:
                            cur = apply_eager(cur, s, kf05=True)
                except ValueError:
                    mech = 'C08:recipe_fill_to_slice_fills_whole_plate:refused_at_unaddressed_well'
                except Exception:
                    pass
            M.violate(['C08'] + (['C07'] if 'fills_whole_plate' in mech else []), 'BAKE', mech,
                      {'eager': repr(eager_exc)[:300], 'bake': repr(bake_exc)[:300], 'program': pdesc})
        elif eager_exc is not None:
            M.note_nontrivial('C08', ('infeasible', repr(pdesc)[:2000]))
        return
    final = eager_states[-1]
    M.bucket('C08/outcome/both_ok')
    # key set: exactly the declared and recipe-created names
    want = set(final.keys())
    if set(res.keys()) != want:
        M.violate(['C08'], 'BAKE', 'C08:result_names_ne_declared_and_created',
                  {'got': sorted(res.keys()), 'want': sorted(want), 'program': pdesc})
    # steps have no effect before bake: handles (declared objects and placeholders) unchanged
    for nme, fp in placeholders.items():
        if F.fingerprint(handles[nme]) != fp:
            M.violate(['C08', 'C04'], 'BAKE', 'C08:declared_object_or_placeholder_changed_by_bake', {'name': nme, 'program': pdesc})
    mism = None
    for nme in want & set(res.keys()):
        d = same_state(final[nme], res[nme])
        if d:
            mism = (nme, d)
            break
    if mism:
        mech = 'C08:bake_result_ne_eager_fold'
        kinds = sorted({s['op'] for s in rs})
        if has_slice_fill:
            try:
                with M.oracle():
                    cur = make_objs(prog['decls'])
                    for s in rs:
                        cur = apply_eager(cur, s, kf05=True)
                if all(same_state(cur[nme], res[nme]) is None for nme in want & set(res.keys())):
                    mech = 'C08:recipe_fill_to_slice_fills_whole_plate:whole_plate_filled_to_target'
            except Exception:
                pass
        if mech == 'C08:bake_result_ne_eager_fold':
            solv_c = any(s['op'] == 'solution' and isinstance(s['solvent'], str) for s in rs)
            mech += ':container_solvent_step' if solv_c else ':' + '+'.join(kinds)
        M.violate(['C08'] + (['C07'] if 'fills_whole_plate' in mech else []), 'BAKE', mech,
                  {'name': mism[0], 'diff': mism[1], 'program': pdesc})


# --------------------------------------------------------------------------------------------------

def ledger_noise(ledger, a, b, names, s):
    """Noise bound (storage units) on a sum of per-step deltas of substance s over names."""
    q = R.cfg().q
    n_wells = 0
    for nme in names:
        sn = ledger[-1].get(nme)
        n_wells += 1 if (sn is None or isinstance(sn, dict)) else sum(len(row) for row in sn)
    big = max([abs(amount(ledger[k].get(nme), s)) for k in range(a, b + 1) for nme in names] + [0.0])
    return (b - a + 1) * (n_wells + 1) * K * q + R.noise(big) * (b - a + 1) * 4


def units_for(s, rng=None):
    if R.is_enzyme(s):
        return ['U', 'mg', 'g', 'uL', 'ng', 'nL', None, 'kU', 'mU']
    return ['umol', 'mmol', 'mol', 'mg', 'g', 'uL', 'mL', 'cmol', 'nmol', 'dag', 'ng', 'kL', 'nL', None]


def check_c09(prog, pdesc, rs, r, res, ledger, case, handles):
    pp = PP()
    cf = R.cfg()
    ranges = stage_ranges(prog['steps'])
    names = list(res.keys())
    plates = [nme for nme in names if is_plate(res[nme])]
    rnd = __import__('random').Random(repr(pdesc)[:200])
    dest_sets = [None] + [[nme] for nme in names] + [names]
    if len(names) > 2:
        dest_sets += [rnd.sample(names, rnd.randint(2, len(names) - 1)) for _ in range(2)]
    for tf, (a, b) in ranges.items():
        for s in prog['subs']:
            for dests in dest_sets:
                dn = plates if dests is None else dests
                exp = 0.0
                for k in range(a, b):
                    for nme in dn:
                        exp += amount(ledger[k + 1].get(nme), s) - amount(ledger[k].get(nme), s)
                    if rs[k]['op'] == 'remove':
                        t = rs[k]['dst'][0]
                        exp += amount(ledger[k].get(t), s) - amount(ledger[k + 1].get(t), s)
                unit_arg = rnd.choice(units_for(s))
                unit = unit_arg if unit_arg is not None else ('U' if R.is_enzyme(s) else cf.moles_display_unit)
                noise = ledger_noise(ledger, a, b, list(dn) + [rs[k]['dst'][0] for k in range(a, b) if rs[k]['op'] == 'remove'], s)
                M.count('C09.query')
                try:
                    if unit_arg is None and dests is None and tf == 'all':
                        got = r.get_substance_used(s)                     # every default
                    elif unit_arg is None:
                        got = r.get_substance_used(substance=s, timeframe=tf, destinations='plates' if dests is None else tuple(handles[nme] for nme in dests))
                    elif dests is not None and rnd.random() < 0.3:
                        # destinations is any iterable: a one-shot one (a generator, map, iter) names the same objects
                        M.bucket('C09/destinations_one_shot_iterable')
                        one_shot = rnd.choice([lambda: (handles[nme] for nme in dests), lambda: map(handles.get, dests),
                                               lambda: iter([handles[nme] for nme in dests]), lambda: {handles[nme].name: handles[nme] for nme in dests}.values()])
                        got = r.get_substance_used(s, tf, unit, one_shot())
                    else:
                        got = r.get_substance_used(s, tf, unit, 'plates' if dests is None else [handles[nme] for nme in dests])
                    gexc = None
                except (MonitorBug, InjectedFault):
                    raise
                except Exception as e:   # noqa
                    got, gexc = None, e
                kinds = sorted({rs[k]['op'] for k in range(a, b)})
                dkind = 'default_plates' if dests is None else ('single' if len(dests) == 1 else 'all' if len(dests) == len(names) else 'subset')
                _, ub = R.split_unit(unit)
                M.bucket(f'C09/{dkind}/{ub}/' + ('raise' if exp < -noise else 'zero' if abs(exp) <= noise else 'pos'))
                for kd in kinds:
                    M.bucket(f'C09/steps/{kd}')
                detail = {'substance': s.name, 'timeframe': tf, 'steps': [a, b], 'unit': unit, 'destinations': dests,
                          'expected_storage_units': exp, 'noise': noise, 'program': pdesc}
                if exp < -noise:
                    if not isinstance(gexc, ValueError):
                        M.violate(['C09'], 'LEDGER', 'C09:net_decrease_not_refused_with_ValueError',
                                  dict(detail, got=got, exc=repr(gexc)[:200]))
                    else:
                        M.note_nontrivial('C09', ('neg', s.name, tf, repr(dests), repr(pdesc)[:1500]))
                    continue
                if abs(exp) <= noise:
                    # a timeframe whose steps only move material *within* the destination set (transfers between its members,
                    # removals whose discard is counted) changes nothing, exactly: the answer is 0, never "a net decrease"
                    closed = b > a and all(rs[k]['op'] in ('transfer', 'remove') and set(touched(rs[k])) <= set(dn) for k in range(a, b))
                    if closed:
                        M.bucket('C09/closed_system_stage')
                    if gexc is not None and not isinstance(gexc, ValueError):
                        M.violate(['C09'], 'LEDGER', f'C09:query_raised:{type(gexc).__name__}', dict(detail, exc=repr(gexc)[:200]))
                    elif gexc is not None and closed:
                        has_rm = any(rs[k]['op'] == 'remove' for k in range(a, b))
                        M.violate(['C09', 'C18'] + (['C17'] if has_rm else []), 'LEDGER', 'C09:net_change_of_zero_refused_as_a_decrease' + (':remove' if has_rm else ''),
                                  dict(detail, exc=repr(gexc)[:200]))
                    elif gexc is None:
                        tolz = abs(R.convert(s, noise, 'U' if R.is_enzyme(s) else cf.mol_unit, unit)) + 0.5 * 10.0 ** (-cf.precision(unit)) * 1.000001
                        if abs(got) > tolz:
                            M.violate(['C09'], 'LEDGER', 'C09:amount_ne_ledger:expected_zero', dict(detail, got=got))
                    continue
                if gexc is not None:
                    M.violate(['C09'], 'LEDGER', f'C09:non_decrease_raised:{type(gexc).__name__}',
                              dict(detail, exc=repr(gexc)[:200]))
                    continue
                from_unit = 'U' if R.is_enzyme(s) else cf.mol_unit
                exp_u = R.convert(s, exp, from_unit, unit)
                tol = abs(R.convert(s, noise, from_unit, unit)) + 0.5 * 10.0 ** (-cf.precision(unit)) * 1.000001 + 1e-9 * abs(exp_u)
                if not M.ratio('C09', got, exp_u, tol):
                    rm_part = any(rs[k]['op'] == 'remove' and rs[k]['dst'][1] is not None for k in range(a, b))
                    M.violate(['C09'], 'LEDGER', 'C09:amount_ne_ledger:' + ('+'.join(kinds)) + (':partial_remove' if rm_part else ''),
                              dict(detail, got=got, expected=exp_u, tol=tol))
                else:
                    M.note_nontrivial('C09', ('pos', s.name, tf, repr(dests), unit, repr(pdesc)[:1500]))
                    M.sample('C09', {'substance': s.name, 'timeframe': tf, 'unit': unit, 'destinations': dests,
                                     'reported': got, 'ledger': exp_u, 'program_steps': pdesc['steps']}, cap=3)
    # additivity over a partition into consecutive stages
    stages = sorted([(a, b, nme) for nme, (a, b) in ranges.items() if nme != 'all'])
    cover = 0
    parts = []
    for a, b, nme in stages:
        if a == cover:
            parts.append(nme)
            cover = b
    if parts and cover == len(rs) and len(parts) >= 2:
        for s in prog['subs']:
            unit = 'U' if R.is_enzyme(s) else 'umol'
            try:
                whole = r.get_substance_used(s, 'all', unit, [handles[nme] for nme in names])
                summed = sum(r.get_substance_used(s, nme, unit, [handles[x] for x in names]) for nme in parts)
            except ValueError:
                continue
            M.count('C09.additivity')
            if abs(whole - summed) > (len(parts) + 1) * 0.5 * 10.0 ** (-cf.precision(unit)) + 1e-9 * abs(whole):
                M.violate(['C09'], 'LEDGER', 'C09:stage_amounts_do_not_add_up',
                          {'substance': s.name, 'whole': whole, 'sum_of_stages': summed, 'stages': parts, 'program': pdesc})
            M.bucket('C09/additivity')


# --------------------------------------------------------------------------------------------------

def check_step_tables(prog, pdesc, rs, r, res, ledger, case):
    """RecipeStep.dataframe for steps whose source / destination is a container (the plate form needs a styling package that is
    not installed here): the one-cell table states, in the unit asked for, what the container held of the substance after the step
    ('final') or how that changed ('delta') - by the prefix-bake ledger."""
    cf = R.cfg()
    if len(r.steps) != len(rs):
        return
    rnd = __import__('random').Random(repr(pdesc)[:200] + 'tables')
    for k, (st, step) in enumerate(zip(rs, r.steps)):
        sides = []
        if st['op'] == 'transfer':
            if st['src'][1] is None and not is_plate(res[st['src'][0]]):
                sides.append(('source', st['src'][0]))
            if st['dst'][1] is None and not is_plate(res[st['dst'][0]]):
                sides.append(('destination', st['dst'][0]))
        elif st['op'] in ('fill_to', 'remove') and st['dst'][1] is None and not is_plate(res[st['dst'][0]]):
            sides.append(('destination', st['dst'][0]))
        elif st['op'] == 'dilute':
            sides.append(('destination', st['dst']))
        for side, nme in sides:
            b4, af = ledger[k].get(nme), ledger[k + 1].get(nme)
            if not isinstance(af, dict) or not isinstance(b4, dict):
                continue
            s = rnd.choice(prog['subs'])
            unit = rnd.choice(['U', 'mg', 'uL', 'kU'] if R.is_enzyme(s) else ['umol', 'mg', 'uL', 'mmol', 'ng', 'mL'])
            mode = rnd.choice(['final', 'delta'])
            M.count('C15.step_table')
            M.bucket(f'C15/step_table/{st["op"]}/{side}/{mode}')
            try:
                df = step.dataframe(data_source=side, substance=s, mode=mode, unit=unit)
                got = float(df.iloc[0, 0])
            except (MonitorBug, InjectedFault):
                raise
            except Exception as e:   # noqa
                M.violate(['C15', 'C19'], 'LEDGER', f'C15:step_table_raised:{st["op"]}:{side}:{type(e).__name__}',
                          {'step': k, 'unit': unit, 'mode': mode, 'exc': repr(e)[:200], 'program': pdesc})
                continue
            from_unit = 'U' if R.is_enzyme(s) else cf.mol_unit
            amt = af.get(s, 0.0) - (b4.get(s, 0.0) if mode == 'delta' else 0.0)
            exp = R.convert(s, amt, from_unit, unit)
            tol = abs(R.convert(s, K * cf.q * 2, from_unit, unit)) + 0.5 * 10.0 ** (-cf.precision(unit)) * 1.000001 + 1e-9 * abs(exp)
            if not M.ratio('C15.step_table', got, exp, tol):
                M.violate(['C15', 'C19'], 'LEDGER', f'C15:step_table_ne_ledger:{st["op"]}:{side}:{mode}',
                          {'step': k, 'container': nme, 'substance': s.name, 'unit': unit, 'mode': mode, 'got': got, 'expected': exp, 'tol': tol,
                           'program': pdesc})
            else:
                M.note_nontrivial(case.get('prop', 'C15'), ('table', k, nme, s.name, unit, mode, repr(pdesc)[:600]))


def check_c15(prog, pdesc, rs, r, res, ledger, case, handles):
    pp = PP()
    cf = R.cfg()
    ranges = stage_ranges(prog['steps'])
    rnd = __import__('random').Random(repr(pdesc)[:200] + 'c15')
    for tf, (a, b) in ranges.items():
        for nme in res:
            ks = [k for k in range(a, b) if nme in touched(rs[k])]
            if not ks:
                continue
            plate = is_plate(res[nme])
            solvent_container_only = all(
                rs[k]['op'] == 'solution' and isinstance(rs[k]['solvent'], str) and rs[k]['solvent'] == nme for k in ks)
            for unit_arg in rnd.sample(['uL', 'mL', 'mg', 'g', 'umol', 'mol', 'U', 'nL', 'kL', 'ng', 'dag', 'cmol', 'nmol', None, None, 'kU', 'mU', 'daU'], 4):
                # unit=None: the documented default, the configured volume display unit
                unit = unit_arg if unit_arg is not None else cf.volume_display_unit
                if unit_arg is None:
                    M.bucket('C15/default_unit')
                prec = cf.precision(unit)
                half = 0.5 * 10.0 ** (-prec) * 1.000001
                p_, base = R.split_unit(unit)
                nsub = 6
                noise_u = (len(ks) + 1) * K * nsub * max(abs(R.convert(s, cf.q, 'U' if R.is_enzyme(s) else cf.mol_unit, unit))
                                                         for s in prog['subs'])
                obj = handles[nme]
                # ---- amount remaining
                reported = {}
                for mode, k in (('before', ks[0]), ('after', ks[-1] + 1)):
                    sn = ledger[k].get(nme)
                    exp = total_unit(sn, unit)
                    if exp is None:
                        exp = 0.0 if not plate else None
                    M.count('C15.remaining')
                    try:
                        got = (r.get_amount_remaining(obj, tf, unit, mode) if unit_arg is not None
                               else r.get_amount_remaining(obj, tf, mode=mode))
                        gexc = None
                    except (MonitorBug, InjectedFault):
                        raise
                    except Exception as e:   # noqa
                        got, gexc = None, e
                    M.bucket(f'C15/remaining/{"plate" if plate else "container"}/{base}/{mode}')
                    detail = {'object': nme, 'timeframe': tf, 'unit': unit, 'mode': mode, 'program': pdesc}
                    if gexc is not None:
                        M.violate(['C15'], 'LEDGER', f'C15:amount_remaining_raised:{type(gexc).__name__}:{"plate" if plate else "container"}',
                                  dict(detail, exc=repr(gexc)[:200]))
                        continue
                    if exp is None:
                        continue
                    ok = got is not None and numpy.shape(got) == numpy.shape(exp) and bool(numpy.all(
                        numpy.abs(numpy.asarray(got, dtype=float) - exp) <= noise_u + 1e-9 * numpy.abs(exp) + 1e-12))
                    if not ok:
                        mech = 'C15:amount_remaining_ne_ledger:' + ('plate' if plate else 'container')
                        if solvent_container_only and got is None:
                            mech = 'C15:solvent_container_of_create_solution_not_recorded:remaining_absent'
                        M.violate(['C15'], 'LEDGER', mech,
                                  dict(detail, got=numpy.asarray(got).tolist() if got is not None else None,
                                       expected=numpy.asarray(exp).tolist()))
                    else:
                        reported[mode] = numpy.asarray(got, dtype=float)
                        M.note_nontrivial('C15', ('rem', nme, tf, unit, mode, repr(pdesc)[:1200]))
                # ---- flows
                ein = 0.0
                eout = 0.0
                mag = 0.0
                for k in ks:
                    b4 = total_unit(ledger[k].get(nme), unit)
                    af = total_unit(ledger[k + 1].get(nme), unit)
                    if b4 is None:
                        b4 = 0.0 * af
                    mag = max(mag, float(numpy.max(numpy.abs(af))), float(numpy.max(numpy.abs(b4))))
                    d = af - b4
                    ein = ein + numpy.maximum(d, 0)
                    eout = eout + numpy.maximum(-d, 0)
                M.count('C15.flows')
                try:
                    got = r.get_container_flows(obj, tf, unit) if unit_arg is not None else r.get_container_flows(obj, tf)
                    gexc = None
                except (MonitorBug, InjectedFault):
                    raise
                except Exception as e:   # noqa
                    got, gexc = None, e
                kinds = sorted({rs[k]['op'] for k in ks})
                M.bucket(f'C15/flows/{"plate" if plate else "container"}/{base}')
                detail = {'object': nme, 'timeframe': tf, 'unit': unit, 'step_kinds': kinds, 'program': pdesc}
                if gexc is not None:
                    M.violate(['C15'], 'LEDGER', f'C15:container_flows_raised:{type(gexc).__name__}:{"plate" if plate else "container"}',
                              dict(detail, exc=repr(gexc)[:200]))
                    continue
                # flows are rounded once, at the end; a flow is a difference of totals (here and in the library): with litres in the
                # vessel the last digits of a double are worth more than a storage quantum
                tol = half + noise_u + 32 * 2.3e-16 * mag * len(ks)
                gi, go = numpy.asarray(got['in'], dtype=float), numpy.asarray(got['out'], dtype=float)
                bad = None
                if numpy.shape(gi) != numpy.shape(ein) and plate:
                    bad = 'shape'
                elif bool(numpy.any(gi < -tol)) or bool(numpy.any(go < -tol)):
                    bad = 'negative_flow'
                elif not bool(numpy.all(numpy.abs(gi - ein) <= tol + 1e-9 * numpy.abs(ein))):
                    bad = 'inflow'
                elif not bool(numpy.all(numpy.abs(go - eout) <= tol + 1e-9 * numpy.abs(eout))):
                    bad = 'outflow'
                if bad:
                    mech = f'C15:container_flows_ne_ledger:{bad}:' + ('plate' if plate else 'container') + ':' + '+'.join(kinds)
                    solvent_role = [k for k in ks if rs[k]['op'] == 'solution' and rs[k].get('solvent') == nme]
                    if solvent_role and bad == 'outflow':
                        # recorded finding only in its specific form: the outflow through create_solution steps is
                        # missing entirely, everything else is right
                        miss = 0.0
                        for k in solvent_role:
                            miss = miss + numpy.maximum(total_unit(ledger[k].get(nme), unit) - total_unit(ledger[k + 1].get(nme), unit), 0)
                        if bool(numpy.all(numpy.abs(go + miss - eout) <= tol + 1e-9 * numpy.abs(eout))):
                            mech = 'C15:solvent_container_of_create_solution_not_recorded:outflow_missing'
                    # what a remove step discards is outflow (C17's trash link): a wrong outflow over a timeframe in which
                    # this object was removed from also refutes C17
                    rm_here = bad == 'outflow' and any(rs[k]['op'] == 'remove' and rs[k]['dst'][0] == nme for k in ks)
                    M.violate(['C15', 'C17'] if rm_here else ['C15'], 'LEDGER', mech, dict(detail, got={'in': gi.tolist(), 'out': go.tolist()},
                                                            expected={'in': numpy.asarray(ein).tolist(), 'out': numpy.asarray(eout).tolist()}))
                    continue
                M.note_nontrivial('C15', ('flow', nme, tf, unit, repr(pdesc)[:1200]))
                M.sample('C15', {'object': nme, 'timeframe': tf, 'unit': unit, 'reported': {'in': gi.tolist(), 'out': go.tolist()},
                                 'ledger': {'in': numpy.asarray(ein).tolist(), 'out': numpy.asarray(eout).tolist()},
                                 'program_steps': pdesc['steps']}, cap=3)
                # ---- balance on the reported numbers
                if 'before' in reported and 'after' in reported and ledger[ks[0]].get(nme) is not None:
                    M.count('C15.balance')
                    lhs = gi - go
                    rhs = reported['after'] - reported['before']
                    if not bool(numpy.all(numpy.abs(lhs - rhs) <= 2 * half + 2 * noise_u + 1e-9 * numpy.abs(rhs))):
                        M.violate(['C15'], 'LEDGER', 'C15:inflow_minus_outflow_ne_change_in_remaining',
                                  dict(detail, inflow_minus_outflow=lhs.tolist(), change=rhs.tolist()))


# --------------------------------------------------------------------------------------------------

def check_c17_trash(prog, pdesc, rs, r, res, ledger, case, handles):
    cf = R.cfg()
    ranges = stage_ranges(prog['steps'])
    names = list(res.keys())
    for tf, (a, b) in ranges.items():
        if b - a != 1 or rs[a]['op'] != 'remove':
            continue
        st = rs[a]
        t, sel = st['dst']
        plate = is_plate(res[t])
        M.bucket('C17/recipe/' + ('container' if not plate else 'plate_part' if sel is not None else 'plate_whole'))
        others = [nme for nme in names if nme != t]
        for s in prog['subs']:
            removed0 = amount(ledger[a].get(t), s) - amount(ledger[a + 1].get(t), s)
            if not R.is_enzyme(s):
                removed0 = R.canon(s, removed0) / 1e-6        # stored amount -> umol under any moles storage unit
            for unit, scale_ in ((('U', 1.0), ('mU', 1e3), ('kU', 1e-3)) if R.is_enzyme(s) else (('umol', 1.0), ('mmol', 1e-3))):
                # (the discarded amount is asked for in the plain unit and in prefixed ones: the same amount, rescaled)
                removed = removed0 * scale_
                tol = 0.5 * 10.0 ** (-cf.precision(unit)) * 1.000001 + abs(removed) * 1e-9 + 1e-6 * scale_
                if others:
                    M.count('TRASHLINK')
                    try:
                        got = r.get_substance_used(s, tf, unit, [handles[others[0]]])
                    except ValueError as e:
                        got = e
                    if isinstance(got, Exception) or abs(got - removed) > tol:
                        M.violate(['C17', 'C09'], 'LEDGER', 'C17:discarded_amount_ne_substance_used:' +
                                  ('container' if not plate else 'plate_part' if sel is not None else 'plate_whole'),
                                  {'substance': s.name, 'unit': unit, 'removed_in_that_unit': removed, 'reported': repr(got)[:100],
                                   'stage': tf, 'program': pdesc})
                        break
                    elif removed > 0:
                        M.note_nontrivial('C17', ('trash', s.name, tf, unit, repr(pdesc)[:1500]))
        # flows 'out' of the target
        for unit in ('uL', 'mg'):
            M.count('TRASHLINK')
            b4 = total_unit(ledger[a].get(t), unit)
            af = total_unit(ledger[a + 1].get(t), unit)
            eout = numpy.maximum(b4 - af, 0)
            try:
                got = numpy.asarray(r.get_container_flows(handles[t], tf, unit)['out'], dtype=float)
            except Exception as e:   # noqa
                M.violate(['C17', 'C15'], 'LEDGER', f'C17:flows_of_remove_step_raised:{type(e).__name__}', {'stage': tf, 'program': pdesc})
                continue
            tol = 0.5 * 10.0 ** (-cf.precision(unit)) * 1.000001 + 1e-6
            if numpy.shape(got) != numpy.shape(eout) or not bool(numpy.all(numpy.abs(got - eout) <= tol + 1e-9 * numpy.abs(eout))):
                M.violate(['C17', 'C15'], 'LEDGER', 'C17:discarded_amount_ne_flows_out:' +
                          ('container' if not plate else 'plate_part' if sel is not None else 'plate_whole'),
                          {'unit': unit, 'reported_out': got.tolist(), 'removed': numpy.asarray(eout).tolist(), 'stage': tf,
                           'program': pdesc})


# --------------------------------------------------------------------------------------------------

def named_region(text, plate_name, rows, cols):
    """The wells named by "<plate>[...]" in an instruction line, read back with the *reference* addressing model.
    -> index list, or None when the line does not name a region of that plate (or in a form this reader does not know)."""
    import re
    m = re.search(re.escape(plate_name) + r"\[(.*?)\](?=['\s.,]|$)", text)
    if not m:
        return None
    body = m.group(1).strip()

    def atom(tok):
        tok = tok.strip()
        if tok == '':
            return None
        if tok[0] == tok[-1] == "'":
            return tok[1:-1]
        return int(tok)

    def axis(part):
        part = part.strip()
        if part == ':':
            return slice(None)
        bits = [b_ for b_ in re.split(r":(?=(?:[^']*'[^']*')*[^']*$)", part)]
        if len(bits) == 1:
            return atom(bits[0])
        if len(bits) == 2:
            return slice(atom(bits[0]), atom(bits[1]))
        return slice(atom(bits[0]), atom(bits[1]), atom(bits[2]))
    try:
        if body.startswith('['):
            return None          # list selections: not read back here
        parts = re.split(r",(?=(?:[^']*'[^']*')*[^']*$)", body)
        if len(parts) == 1:
            a_ = axis(parts[0])
            sel = a_ if not (isinstance(a_, str) and ':' in a_) else a_
        else:
            sel = (axis(parts[0]), axis(parts[1]))
        idx, _ = R.ref_address(rows, cols, sel)
        return idx
    except Exception:   # noqa
        return None


def fill_addresses_wrong(text, pl_, b4, af, solv):
    """"... by adding: 50.0 uL to [A1:A3, B1], 40.0 uL to [A4:B4]": every address list names exactly the wells that
    received that amount (a range X:Y is the block of wells between its two corners).  b4 / af: per-well content snapshots
    ([[dict]]) before and after the step.  -> True when the lists are wrong; unreadable text is counted, not judged."""
    import re as _re
    from . import instr as I
    rown, coln = list(pl_.row_names), list(pl_.column_names)

    class Ambiguous(Exception):
        pass
    glued_ok = len({f'{r_}{c_}' for r_ in rown for c_ in coln}) == len(rown) * len(coln)

    def cell_(tok_):
        # every (row, column) whose labels, written side by side, give this token: more than one and the text does not say
        # which well is meant (round 17: rows and columns both labelled 1..12 - '111' is 1:11 and 11:1)
        fits = [(i_, j_) for i_, rn in enumerate(rown) for j_, cn_ in enumerate(coln) if tok_ == f'{rn}{cn_}']
        if len(fits) > 1:
            raise Ambiguous(tok_)
        if fits:
            return fits[0]
        raise KeyError(tok_)

    def colon_cell(tok_):
        rn, _, cn_ = tok_.partition(':')
        return rown.index(rn), coln.index(cn_)
    named = {}
    for m_ in _re.finditer(r"([-+0-9.eE]+)\s+(\S+)\s+to\s+\[(.*?)\]", text):
        cells = set()
        try:
            for part in m_.group(3).split(','):
                part = part.strip()
                if glued_ok or ':' not in part:
                    corners = [cell_(x_) for x_ in part.split(':')]
                else:
                    # labels that glue alike: a well is written 'row:column', a run 'first - last'
                    corners = [colon_cell(x_.strip()) for x_ in part.split(' - ')]
                if len(corners) == 2:
                    (r1, c1), (r2, c2) = corners
                    for i_ in range(min(r1, r2), max(r1, r2) + 1):
                        for j_ in range(min(c1, c2), max(c1, c2) + 1):
                            cells.add((i_, j_))
                elif len(corners) == 1:
                    cells.add(corners[0])
                else:
                    raise KeyError(part)
        except Ambiguous:
            M.count('INSTR.recipe_fill_addresses')
            M.bucket('C19/recipe/fill_addresses/ambiguous_name')
            return True
        except Exception:   # noqa
            M.count('INSTR.recipe_fill_addresses_unreadable')
            return False
        named.setdefault((m_.group(1), m_.group(2)), set()).update(cells)
    M.count('INSTR.recipe_fill_addresses')
    if not named:
        return False
    got_all = set().union(*named.values())
    want_all = {(i, j) for i, row in enumerate(af) for j, wc in enumerate(row)
                if I.by_base({solv: wc.get(solv, 0.0) - b4[i][j].get(solv, 0.0)})['L'] * 1e6 >= 0.5}
    overlap_ = sum(len(v_) for v_ in named.values()) != len(got_all)
    wrong_ = False
    for (val_, unit_), cells in named.items():
        try:
            tk = I.tokens(f'{val_} {unit_} ')[0]
        except Exception:   # noqa
            continue
        for (i_, j_) in cells:
            d_ = af[i_][j_].get(solv, 0.0) - b4[i_][j_].get(solv, 0.0)
            if not I.token_matches(tk, I.by_base({solv: d_})):
                wrong_ = True
    bad_ = overlap_ or wrong_ or not want_all <= got_all
    M.bucket('C19/recipe/fill_addresses/' + ('bad' if bad_ else 'ok'))
    return bad_


def fill_pattern_cases(rng, case, idx):
    """Directed: every pattern of up to three pre-loaded wells on a 3x4 plate, then one recipe fill_to of the whole plate: two
    (or more) groups of wells receive different amounts, and the instruction must list each group exactly."""
    import itertools
    pp = PP()
    water = pp.Substance.liquid('H2O', 18.0153, 1)
    cells = [(i, j) for i in range(3) for j in range(4)]
    subsets = [c_ for k in (1, 2, 3) for c_ in itertools.combinations(cells, k)]
    part, parts = (case.get('params') or {}).get('part', 0), (case.get('params') or {}).get('parts', 1)
    with M.active(case):
        for n_, (sub_, alt_) in enumerate([(x_, a_) for x_ in subsets for a_ in ((0, 5) if len(x_) == 3 else (0,))]):
            if n_ % parts != part:
                continue
            # (round 17: every seventh pattern on a plate whose row and column labels glue alike - '1', '11', '111' both ways)
            digits = n_ % 7 == 3
            plate = pp.Plate('assay', '200 uL', rows=['1', '11', '111'], columns=['1', '11', '111', '2']) if digits \
                else pp.Plate('assay', '200 uL', rows=3, columns=4)
            if digits:
                M.bucket('C19/recipe/fill_addresses/labels_that_glue_alike')
            src = pp.Container('src', initial_contents=[(water, '1 mL')])
            with M.oracle():
                for k_, (i, j) in enumerate(sub_):
                    src, plate = pp.Plate.transfer(src, plate[i + 1, j + 1], f'{10 + alt_ * (k_ % 2)} uL')
            r = pp.Recipe()
            r.uses(plate)
            r.fill_to(plate, water, '50 uL')
            res = r.bake()
            text = r.steps[0].instructions or ''
            b4 = [[dict(w.contents) for w in row] for row in plate.wells]
            af = [[dict(w.contents) for w in row] for row in res['assay'].wells]
            M.count('INSTR.recipe_step')
            if fill_addresses_wrong(text, plate, b4, af, water):
                M.violate(['C19'], 'INSTR', 'C19:recipe_step_instruction_wrong:fill_to:addresses',
                          {'preloaded_wells': [list(x) for x in sub_], 'instruction': text})
            else:
                M.note_nontrivial('C19', ('fillpat', sub_))


def check_c19_steps(prog, pdesc, rs, r, res, ledger, objects, case):
    from . import instr as I
    cf = R.cfg()
    if len(r.steps) != len(rs):
        return
    for k, (st, step) in enumerate(zip(rs, r.steps)):
        text = step.instructions or ''
        op = st['op']
        M.count('INSTR.recipe_step')
        M.bucket(f'C19/recipe/{op}')
        bad = None
        if op == 'transfer':
            a, b = st['src'][0], st['dst'][0]
            v, base = R.parse_quantity(st['q'])
            toks = I.tokens(text)
            if a not in text or b not in text:
                bad = 'names'
            elif not any(I.token_matches(t, {base: v}) for t in toks):
                bad = 'amount'
            else:
                # "... to 'plate[region]'": the region the text names is the region the step addressed (it says how many
                # wells got the amount, hence how much was moved in all)
                import re as _re
                mm_ = _re.search(r"from '(.*)' to '(.*)'\.?\s*$", text)
                halves_ = (mm_.group(1), mm_.group(2)) if mm_ else (text, text)
                for ref, half_ in zip((st['src'], st['dst']), halves_):
                    if ref[1] is None or not is_plate(res[ref[0]]):
                        continue
                    pl_ = res[ref[0]]
                    rows_, cols_ = list(pl_.row_names), list(pl_.column_names)
                    want_ = ref[1].idx if isinstance(ref[1], SubSel) else R.ref_address(rows_, cols_, ref[1])[0]
                    if isinstance(ref[1], list):
                        continue
                    got_ = named_region(half_, ref[0], rows_, cols_)
                    M.count('INSTR.recipe_step_region')
                    if got_ is None:
                        M.count('INSTR.recipe_step_region_unreadable')
                    elif sorted(set(got_)) != sorted(set(want_)):
                        bad = 'region'
                        M.bucket('C19/recipe/region/bad')
                    else:
                        M.bucket('C19/recipe/region/ok')
        elif op in ('dilute', 'fill_to'):
            t = st['dst'] if op == 'dilute' else st['dst'][0]
            solv = st['solvent']
            b4, af = ledger[k].get(t), ledger[k + 1].get(t)
            if solv.name not in text or t not in text:
                bad = 'names'
            elif isinstance(af, dict):
                added = af.get(solv, 0.0) - (b4 or {}).get(solv, 0.0)
                actual = I.by_base({solv: added})
                toks = I.tokens(text)
                # the request itself is restated ("up to 5 mL", "to 0.1 M"); one *other* token must be the amount added
                if added != 0 and not any(I.token_matches(t_, actual) and actual.get(t_[2]) for t_ in toks):
                    bad = 'amount_added'      # (a token in a base in which the amount is zero - '0.0 L' of a solid without volume - states nothing)
            else:
                # plate: every distinct per-well amount must be stated
                deltas = []
                for i, row in enumerate(af):
                    for j, wc in enumerate(row):
                        d = wc.get(solv, 0.0) - b4[i][j].get(solv, 0.0)
                        if d > 0:
                            deltas.append(d)
                toks = I.tokens(text)
                for d in deltas:
                    actual = I.by_base({solv: d})
                    if actual['L'] * 1e6 >= 0.5 and not any(I.token_matches(t_, actual) for t_ in toks):
                        bad = 'per_well_amount'
                        break
                    if actual['L'] == 0 and actual['g'] >= 0.5e-6 and not any(I.token_matches(t_, actual) and actual.get(t_[2]) for t_ in toks):
                        bad = 'per_well_amount'      # (a solvent without volume: stated by mass or activity)
                        break
                if bad is None and st['dst'][1] is None:
                    if fill_addresses_wrong(text, res[t], b4, af, solv):
                        bad = 'addresses'
        elif op == 'solution':
            nme = st['name']
            solutes = st['solutes'] if isinstance(st['solutes'], list) else [st['solutes']]
            if any(s.name not in text for s in solutes):
                bad = 'names'
            else:
                tq = st['kw'].get('total_quantity')
                if tq:
                    v, base = R.parse_quantity(tq)
                    actual = {base: R.measure(ledger[k + 1][nme], base)}
                    if not any(I.token_matches(t_, actual) for t_ in I.tokens(text)):
                        bad = 'total'
        elif op == 'solution_from':
            nme = st['name']
            v, base = R.parse_quantity(st['q'])
            actual = {base: R.measure(ledger[k + 1][nme], base)}
            if st['src'] not in text or st['solute'].name not in text:
                bad = 'names'
            elif not any(I.token_matches(t_, actual, extra_abs=1e-6 * abs(v)) for t_ in I.tokens(text)):
                bad = 'total'
        elif op == 'remove':
            t = st['dst'][0]
            what = st['what']
            if t not in text or (hasattr(what, 'name') and what.name not in text):
                bad = 'names'
            elif is_plate(res[t]):
                # the step says from where: a step on a part of a plate names that part, not the plate (which would say that
                # every well was stripped)
                pl_ = res[t]
                rows_, cols_ = list(pl_.row_names), list(pl_.column_names)
                ref = st['dst']
                everything = [(i_, j_) for i_ in range(len(rows_)) for j_ in range(len(cols_))]
                if ref[1] is None:
                    want_ = everything
                elif isinstance(ref[1], list):
                    want_ = None
                else:
                    want_ = ref[1].idx if isinstance(ref[1], SubSel) else R.ref_address(rows_, cols_, ref[1])[0]
                if want_ is not None:
                    got_ = named_region(text, t, rows_, cols_)
                    M.count('INSTR.recipe_step_region')
                    if got_ is None and (t + '[') in text:
                        M.count('INSTR.recipe_step_region_unreadable')      # (a list of wells: not read back here)
                        got_ = want_
                    elif got_ is None:
                        got_ = everything            # the bare plate name: the whole plate
                    if sorted(set(got_)) != sorted(set(want_)):
                        bad = 'region'
                        M.bucket('C19/recipe/region/bad')
                    else:
                        M.bucket('C19/recipe/region/ok' + ('/remove_on_part' if ref[1] is not None and len(set(want_)) < len(everything) else ''))
        elif op == 'create_container':
            if st['name'] not in text:
                bad = 'names'
            else:
                # what goes into the container is what the step adds: every substance with its amount
                held = ledger[k + 1].get(st['name']) or {}
                for s_, a_ in held.items():
                    if a_ == 0:
                        continue
                    M.count('INSTR.recipe_step_initial_contents')
                    if s_.name not in text:
                        bad = 'initial_contents_not_named'
                        break
                    actual = I.by_base({s_: a_})
                    if not any(I.token_matches(t_, actual) and actual.get(t_[2]) for t_ in I.tokens(text)):
                        bad = 'initial_contents_amount'
                        break
                if held and not bad:
                    M.bucket('C19/recipe/create_container/with_contents')
        if bad:
            M.violate(['C19'], 'INSTR', f'C19:recipe_step_instruction_wrong:{op}:{bad}',
                      {'step': k, 'instruction': text, 'program_step': pdesc['steps'][[i for i, s in enumerate(prog['steps']) if s is st][0]]})
        else:
            M.note_nontrivial('C19', ('rs', text))


# ==================================================================================================
# directed witness of KF05 (recipe fill_to on part of a plate)

def kf05_witness(rng, case):
    pp = PP()
    S = pp.Substance
    water = S.liquid('H2O', 18.0153, 1)
    dmso = S.liquid('DMSO', 78.13, 1.1004)
    for variant in ('below', 'above'):
        decls = [{'type': 'container', 'name': 'c0', 'max': None, 'init': [(water, '50 mL')]},
                 {'type': 'plate', 'name': 'p0', 'max': '200 uL', 'rows': 2, 'cols': 3}]
        steps = [{'op': 'transfer', 'src': ['c0', None], 'dst': ['p0', (2, slice(None))], 'q': '20 uL' if variant == 'below' else '150 uL'},
                 {'op': 'transfer', 'src': ['c0', None], 'dst': ['p0', None], 'q': '10 uL'},
                 {'op': 'fill_to', 'dst': ['p0', (1, slice(None))], 'solvent': dmso, 'q': '100 uL'}]
        prog = {'subs': [water, dmso], 'decls': decls, 'steps': steps, 'infeasible_at': None}
        pdesc = describe_program(prog)
        rs = steps
        eager_states = [make_objs(decls)]
        eager_exc = None
        with M.active(case):
            cur = eager_states[0]
            try:
                for s in rs:
                    cur = apply_eager(cur, s)
                    eager_states.append(cur)
            except Exception as e:   # noqa
                eager_exc = (0, e)
            res = bake_exc = None
            handles, placeholders = {}, {}
            try:
                r, handles = to_recipe(decls, steps)
                placeholders = {nme: F.fingerprint(o) for nme, o in handles.items()}
                res = r.bake()
            except Exception as e:   # noqa
                bake_exc = e
        check_c08(prog, pdesc, rs, eager_states, eager_exc, res, bake_exc, handles, placeholders, case)
