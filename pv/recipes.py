"""placeholder until the recipe interpreter exists"""
def run_recipe_case(rng, case, idx, focus=None):
    return None
