"""Known-findings classifier.  Reads /verif/known_findings.json (never written at run time).

A violation record carries a mechanism key `mech` computed by the monitor from the operation, role,
geometry relation, unit branch and the *specific wrong outcome*.  An open finding lists the exact
mechanism keys (or a regular expression over them) it covers; anything else is an unlisted violation.
"""
from __future__ import annotations

import json
import os
import re

HERE = os.path.dirname(os.path.dirname(os.path.abspath(__file__)))
PATH = os.path.join(HERE, 'known_findings.json')


def load():
    if not os.path.exists(PATH):
        return {'open': [], 'fixed': []}
    with open(PATH) as f:
        return json.load(f)


def match(finding, prop, mech):
    if prop not in finding.get('properties', [finding.get('property')]):
        return False
    for m in finding.get('mech', []):
        if m == mech:
            return True
    for rx in finding.get('mech_regex', []):
        if re.fullmatch(rx, mech):
            return True
    return False


def classify(prop, violations):
    """-> (unlisted violations, {finding id: [violations]})"""
    kf = load()
    unlisted = []
    listed = {}
    for v in violations:
        hit = None
        for f in kf.get('open', []):
            if match(f, prop, v['mech']):
                hit = f
                break
        if hit is None:
            unlisted.append(v)
        else:
            listed.setdefault(hit['id'], []).append(v)
    return unlisted, listed, {f['id']: f for f in kf.get('open', [])}
