"""Operation-specific monitors, part 3: create_solution (SOLN, C05), create_solution_from (FROM, C12),
Unit.* (CONV C06, PARSE C14)."""
from __future__ import annotations

import math

from . import refmodel as R
from . import fingerprint as F
from .monitors import M, Handler
from . import handlers as H1

K = R.K


def PP():
    import pyplate.pyplate as pp
    return pp


def _aslist(x, n):
    if x is None:
        return None
    if isinstance(x, str):
        return [x] * n
    try:
        return list(x)
    except TypeError:
        return None


def uniform_fraction(orig, after):
    """orig, after: contents dicts; -> (f, worst deviation in storage units) such that
    orig - after = f * orig for every substance."""
    tot = sum(abs(a) for a in orig.values())
    if tot == 0:
        return 0.0, 0.0
    # least-squares-free: use the largest component
    s0 = max(orig, key=lambda s: abs(orig[s]))
    f = (orig[s0] - after.get(s0, 0.0)) / orig[s0] if orig[s0] else 0.0
    dev = 0.0
    for s, a in orig.items():
        dev = max(dev, abs((a - after.get(s, 0.0)) - f * a))
    return f, dev


# ==================================================================================================
# SOLN

class HCreateSolution(Handler):
    def post(self, ctx, args, kwargs, result, exc):
        pp = PP()
        cf = R.cfg()
        names = ['solute', 'solvent', 'name']
        a = dict(zip(names, args))
        kw = dict(kwargs)
        for k in names:
            if k in kw:
                a[k] = kw.pop(k)
        solute, solvent = a.get('solute'), a.get('solvent')
        if isinstance(solute, pp.Substance):
            solutes = [solute]
        elif isinstance(solute, list) and all(isinstance(s, pp.Substance) for s in solute) and solute:
            solutes = list(solute)
        else:
            return
        if not isinstance(solvent, (pp.Substance, pp.Container)):
            return
        n = len(solutes)
        concs = _aslist(kw.get('concentration'), n)
        quants = _aslist(kw.get('quantity'), n)
        total = kw.get('total_quantity')
        given = (concs is not None) + (quants is not None) + (total is not None)
        expect = M.take_expect('Container.create_solution')
        M.count('SOLN.calls')
        if given != 2:
            if exc is None:
                M.violate(['C05'], 'SOLN', 'C05:not_two_of_three_accepted', {'kwargs': repr(kw)[:200]})
            return
        # reference reading of the request
        try:
            pc = [R.parse_concentration(c) for c in concs] if concs is not None else None
            pq = [R.parse_quantity(x) for x in quants] if quants is not None else None
            pt = R.parse_quantity(total) if total is not None else None
            rejected = False
        except (R.Reject, TypeError):
            rejected = True
        if rejected or (pc is not None and len(pc) != n) or (pq is not None and len(pq) != n):
            if exc is None:
                M.violate(['C14'], 'PARSE', 'C14:malformed_string_accepted:create_solution',
                          {'concentration': concs, 'quantity': quants, 'total_quantity': total})
            return
        container_solvent = isinstance(solvent, pp.Container)
        solvent_subs = list(solvent.contents.keys()) if container_solvent else [solvent]
        solvent_holds_solute = container_solvent and any(solvent.contents.get(s, 0) > 0 for s in solutes)
        spec = ('conc+total' if (pc and pt) else 'conc+quantity' if (pc and pq) else 'quantity+total')
        skind = ('container' + ('+solute' if solvent_holds_solute else '') +
                 ('+enz' if container_solvent and any(R.is_enzyme(s) and x > 0 for s, x in solvent.contents.items()) else '')
                 + ('/mixed' if container_solvent and len([x for x in solvent.contents.values() if x > 0]) > 1 else '')
                 ) if container_solvent else 'pure'
        M.bucket(f'C05/{spec}/{skind}/n={n}/' + ('refused' if exc is not None else 'accepted'))
        if exc is not None:
            et = type(exc).__name__
            if expect and expect.get('must') == 'accept':
                mech = f'C05:feasible_request_refused:{spec}:{skind}:{et}'
                if spec == 'conc+quantity' and n >= 2 and et == 'ValueError':
                    # the other face of the absolute residual test (KF31): a consistent over-determined request whose
                    # rows have large magnitudes (hundreds of grams) misses the 1e-6 absolute residual by rounding
                    mech = f'C05:overdetermined_consistent_request_refused:{skind}:ValueError'
                M.violate(['C05', 'C03'], 'SOLN', mech,
                          {'solutes': [s.name for s in solutes], 'solvent': H1._short(solvent), 'kwargs': kw,
                           'exc': repr(exc)[:300], 'tag': expect.get('tag')})
            elif not H1.is_value_error(exc):
                if expect and expect.get('must') == 'refuse' or isinstance(exc, (ZeroDivisionError, AttributeError, IndexError, KeyError)):
                    M.violate(['C05', 'C03'], 'SOLN', f'C05:refusal_not_ValueError:{spec}:{skind}:{et}',
                              {'solutes': [s.name for s in solutes], 'solvent': H1._short(solvent), 'kwargs': kw,
                               'exc': repr(exc)[:300]})
            return
        # ---- accepted: postconditions
        if container_solvent:
            try:
                solv_after, res = result
            except Exception:
                M.violate(['C05'], 'SOLN', 'C05:container_solvent_result_not_a_pair', {'result': repr(result)[:200]})
                return
        else:
            solv_after, res = None, result
        if not isinstance(res, pp.Container):
            M.violate(['C05'], 'SOLN', 'C05:result_not_a_container', {'result': repr(result)[:200]})
            return
        H1.check_returned(result, 'Container.create_solution')
        M.count('SOLN')
        if expect and expect.get('must') == 'refuse':
            tag = expect.get('tag')
            if tag == 'inconsistent' and pc is not None and pq is not None:
                # recorded finding only in its specific form: the rows the implementation solves (all
                # concentrations and the first quantity) are met, a later stated quantity is not
                met = True
                for s, (cval, num, den) in zip(solutes, pc):
                    got = R.concentration(res.contents, s, num, den)
                    if abs(got - cval) > (1e-4 + 100 * R.conc_quantum(cval) / max(cval, 1e-300)) * cval:
                        met = False
                qv, qb = pq[0]
                got = R.canon(solutes[0], res.contents.get(solutes[0], 0.0)) * R.per(solutes[0], qb)
                if abs(got - qv) > 1e-4 * abs(qv):
                    met = False
                # ... and only while the contradiction is below the absolute residual test the finding describes (1e-6 in the
                # base unit of the stated quantity); a contradiction the test itself must catch is another failure
                small = True
                for s, (qv_, qb_) in list(zip(solutes, pq))[1:]:
                    got_ = R.canon(s, res.contents.get(s, 0.0)) * R.per(s, qb_)
                    if abs(got_ - qv_) > 1.5e-6:
                        small = False
                expect = dict(expect, tag='inconsistent:' + (('solved_rows_met' if small else 'residual_above_the_absolute_test') if met else 'other'))
            M.violate(['C05', 'C03'], 'SOLN', f'C05:infeasible_request_accepted:{spec}:{skind}:{expect.get("tag")}',
                      {'solutes': [s.name for s in solutes], 'solvent': H1._short(solvent), 'kwargs': kw,
                       'result': F.snap_contents(res)})
            return
        allowed = set(solutes) | set(solvent_subs)
        q = cf.q
        problems = []
        for s, x in res.contents.items():
            if s not in allowed and x != 0:
                problems.append(('foreign_substance', s.name, x))
        for s in solutes:
            if not (res.contents.get(s, 0.0) > 0):
                problems.append(('solute_not_positive', s.name, res.contents.get(s, 0.0)))
        solv_amt = sum(res.contents.get(s, 0.0) for s in solvent_subs if s not in solutes)
        if not solvent_holds_solute and not (solv_amt > 0) and not all(s in solutes for s in solvent_subs):
            problems.append(('solvent_not_positive', None, solv_amt))
        if problems:
            p0 = problems[0]
            M.violate(['C05'], 'SOLN', f'C05:{p0[0]}:{spec}:{skind}',
                      {'problems': problems, 'kwargs': kw, 'result': F.snap_contents(res)})
        amounts = [max(abs(res.contents.get(s, 0.0)), q) for s in res.contents] or [q]
        storage_rel = sum(q / x for x in amounts)
        # concentration + quantity for >= 2 solutes is over-determined: the request is only consistent up to the
        # concentration quanta q/c_i, and whichever rows are solved exactly the others are off by about that much
        overdet = 0.0
        if pc is not None and pq is not None and n >= 2:
            overdet = 100 * sum(R.conc_quantum(cv) / max(cv, 1e-300) for cv, _, _ in pc)
            # ... and by the double-precision error of the smallest unknown (the total follows from one solute's quantity
            # and concentration: if that solute is a trace, its relative error is everybody's)
            overdet += 32 * 2.3e-16 * max(amounts) / max(min(abs(res.contents.get(s_, 0.0)) for s_ in solutes), q)
        if container_solvent:
            # observer quanta: the solvent container's effective molar mass and density are taken from its total
            # moles and its volume, each kept to what the storage unit resolves
            mol_c = R.measure(solvent.contents, 'mol')
            l_c = R.measure(solvent.contents, 'L')
            overdet += K * (q * cf.mol_prefix / max(mol_c, 1e-300) + q * cf.vol_prefix / max(l_c, 1e-300))
        # each stated concentration, in its own unit
        if pc is not None:
            for s, (cval, num, den), cstr in zip(solutes, pc, concs):
                # (per unit of activity is a concentration like any other when the solution holds an enzyme: '0.3 U/U' of one of two)
                if R.per(s, num) == 0 or (den == 'U' and not R.measure(res.contents, 'U') > 0) or not (cval > 0):
                    problems.append(('unreachable_concentration_accepted', s.name, cstr))
                    M.violate(['C05', 'C03'], 'SOLN', f'C05:unreachable_concentration_accepted:{num}/{den}:{R.kind(s)}',
                              {'concentration': cstr, 'solute': s.name, 'result': F.snap_contents(res)})
                    continue
                got = R.concentration(res.contents, s, num, den)
                # the amounts are the solution of a linear system in double precision: an unknown that is 1e12 times smaller
                # than the largest one is only good to about eps x 1e12
                cond = 32 * 2.3e-16 * max(amounts) / max(abs(res.contents.get(s, 0.0)), q)
                rel_tol = K * (R.conc_quantum(cval) / cval + storage_rel) + 1e-8 + overdet + cond
                ok = M.ratio('SOLN.conc', got, cval, rel_tol * cval)
                # (a solvent container that already holds the solute: the stated concentration is that of the returned solution
                # as a whole - a reading "of the solute added only" was tolerated here until the round-9 hunt showed what it hid)
                if not ok:
                    M.violate(['C05', 'C14'], 'SOLN', f'C05:concentration_not_met:{num}/{den}:{R.kind(s)}:{skind}',
                              {'concentration': cstr, 'solute': s.name, 'target': cval, 'unit': f'{num}/{den}',
                               'got': got, 'rel_tol': rel_tol, 'kwargs': kw, 'solvent': H1._short(solvent),
                               'result': F.snap_contents(res)})
                M.bucket(f'C05/conc/{num}/{den}/{R.kind(s)}/{skind}')
        if pq is not None:
            for s, (qv, qb), qstr in zip(solutes, pq, quants):
                if R.per(s, qb) == 0:
                    M.violate(['C05', 'C03'], 'SOLN', f'C05:unmeasurable_quantity_accepted:{qb}:{R.kind(s)}',
                              {'quantity': qstr, 'solute': s.name})
                    continue
                got_total = R.canon(s, res.contents.get(s, 0.0)) * R.per(s, qb)
                # (a stated quantity is taken as stated since 00f7f16: no solver conditioning on these rows - except where the
                # request is over-determined and this quantity follows from another solute's, see overdet)
                tol = K * (abs(R.stored_quantum_in(s, qb)) * 2 + H1.request_quantum(qb)) + (1e-8 + overdet) * abs(qv)
                ok = M.ratio('SOLN.quantity', got_total, qv, tol)
                if not ok:
                    M.violate(['C05'], 'SOLN', f'C05:solute_quantity_not_met:{qb}:{R.kind(s)}:{skind}',
                              {'quantity': qstr, 'solute': s.name, 'target': qv, 'unit': qb, 'got': got_total,
                               'tol': tol, 'kwargs': kw, 'result': F.snap_contents(res)})
                M.bucket(f'C05/quantity/{qb}/{R.kind(s)}')
        if pt is not None:
            tv, tb = pt
            got = R.measure(res.contents, tb)
            tol = K * (H1.storage_noise_in(res.contents, tb) * 2 + H1.request_quantum(tb, res.contents)) + (1e-8 + overdet) * abs(tv)
            if not M.ratio('SOLN.total', got, tv, tol):
                M.violate(['C05'], 'SOLN', f'C05:total_quantity_not_met:{tb}:{skind}',
                          {'total_quantity': total, 'target': tv, 'unit': tb, 'got': got, 'tol': tol,
                           'kwargs': kw, 'solvent': H1._short(solvent), 'result': F.snap_contents(res)})
            M.bucket(f'C05/total/{tb}')
        # container solvent: aliquot + depleted container, nothing lost
        if container_solvent:
            if not isinstance(solv_after, pp.Container):
                M.violate(['C05'], 'SOLN', 'C05:depleted_solvent_not_returned', {'got': repr(solv_after)[:100]})
            else:
                f, dev = uniform_fraction(solvent.contents, solv_after.contents)
                if dev > K * q * 2 + 1e-9 * max(abs(x) for x in solvent.contents.values()):
                    M.violate(['C05'], 'SOLN', 'C05:solvent_portion_not_an_aliquot',
                              {'fraction': f, 'deviation': dev, 'solvent': F.snap_contents(solvent),
                               'solvent_after': F.snap_contents(solv_after)})
                for s, x in solvent.contents.items():
                    if s in solutes:
                        continue
                    tot_after = solv_after.contents.get(s, 0.0) + res.contents.get(s, 0.0)
                    if abs(tot_after - x) > K * q * 2 + 1e-9 * abs(x):
                        M.violate(['C05'], 'SOLN', 'C05:solvent_material_lost_or_created',
                                  {'substance': s.name, 'before': x, 'after_total': tot_after,
                                   'solvent': F.snap_contents(solvent), 'solvent_after': F.snap_contents(solv_after),
                                   'result': F.snap_contents(res)})
                        break
                if solv_after.name != solvent.name or solv_after.max_volume != solvent.max_volume:
                    M.violate(['C05'], 'SOLN', 'C05:depleted_solvent_identity_changed',
                              {'before': solvent.name, 'after': solv_after.name})
        name = a.get('name')
        if name and res.name != name:
            M.violate(['C05'], 'SOLN', 'C05:result_name', {'got': res.name, 'want': name})
        if not problems:
            M.note_nontrivial('C05', (spec, skind, tuple(s.name for s in solutes), repr(sorted(kw.items()))[:200]))
            M.sample('C05', {'solutes': [s.name for s in solutes], 'solvent': H1._short(solvent),
                             'kwargs': kw, 'result': H1.cdesc(res.contents)})
        from . import instr
        instr.check_create_solution(solutes, solvent, res, solv_after if container_solvent else None)


def _aliquot_amount(solvent, solv_after, s):
    if solv_after is None:
        return 0.0
    return solvent.contents.get(s, 0.0) - solv_after.contents.get(s, 0.0)


# ==================================================================================================
# FROM

class HCreateSolutionFrom(Handler):
    def post(self, ctx, args, kwargs, result, exc):
        pp = PP()
        cf = R.cfg()
        q = cf.q
        names = ['source', 'solute', 'concentration', 'solvent', 'quantity', 'name']
        a = dict(zip(names, args))
        a.update(kwargs)
        source, solute, conc, solvent, quantity = (a.get(k) for k in names[:5])
        if not (isinstance(source, pp.Container) and isinstance(solute, pp.Substance) and isinstance(conc, str)
                and isinstance(solvent, (pp.Substance, pp.Container)) and isinstance(quantity, str)):
            return
        expect = M.take_expect('Container.create_solution_from')
        M.count('FROM.calls')
        try:
            cval, num, den = R.parse_concentration(conc)
            qv, qb = R.parse_quantity(quantity)
        except R.Reject:
            if exc is None:
                M.violate(['C14'], 'PARSE', 'C14:malformed_string_accepted:create_solution_from',
                          {'concentration': conc, 'quantity': quantity})
            return
        container_solvent = isinstance(solvent, pp.Container)
        enz = any(R.is_enzyme(s) and x > 0 for s, x in source.contents.items()) or (
            container_solvent and any(R.is_enzyme(s) and x > 0 for s, x in solvent.contents.items()))
        skind = ('container' if container_solvent else 'pure') + ('+enz' if enz else '')
        M.bucket(f'C12/{num}/{den}/q={qb}/{skind}/' + ('refused' if exc is not None else 'accepted'))
        if exc is not None:
            et = type(exc).__name__
            if expect and expect.get('must') == 'accept':
                mech = f'C12:feasible_request_refused:q={qb}:{skind}:{et}'
                M.violate(['C12', 'C03'], 'FROM', mech,
                          {'source': F.snap_contents(source), 'solute': solute.name, 'concentration': conc,
                           'solvent': H1._short(solvent), 'quantity': quantity, 'exc': repr(exc)[:300],
                           'tag': expect.get('tag')})
            elif not H1.is_value_error(exc) and not isinstance(exc, TypeError):
                M.violate(['C12', 'C03'], 'FROM', f'C12:refusal_not_ValueError:q={qb}:{skind}:{et}',
                          {'concentration': conc, 'quantity': quantity, 'exc': repr(exc)[:300],
                           'source': F.snap_contents(source)})
            return
        try:
            if container_solvent:
                src_after, solv_after, new = result
            else:
                src_after, new = result
                solv_after = None
        except Exception:
            M.violate(['C12'], 'FROM', 'C12:result_arity', {'result': repr(result)[:200]})
            return
        H1.check_returned(result, 'Container.create_solution_from')
        M.count('FROM')
        if expect and expect.get('must') == 'refuse':
            M.violate(['C12', 'C03'], 'FROM', f'C12:infeasible_request_accepted:{expect.get("tag")}:{skind}',
                      {'source': F.snap_contents(source), 'solute': solute.name, 'concentration': conc,
                       'solvent': H1._short(solvent), 'quantity': quantity, 'new': F.snap_contents(new)})
            return
        bad = False
        # observer quanta: the stock's (and a solvent container's) molarity is read through its moles and its volume, each
        # kept to what the storage unit resolves
        def obs_rel(c):
            mol_s = R.canon(solute, c.contents.get(solute, 0.0)) if not R.is_enzyme(solute) else 0.0
            lit = R.measure(c.contents, 'L')
            return (q * cf.mol_prefix / mol_s if mol_s > 0 else 0.0) + (q * cf.vol_prefix / lit if lit > 0 else 0.0)
        rel_obs = K * (obs_rel(source) + (obs_rel(solvent) if container_solvent else 0.0))
        # total
        got_total = R.measure(new.contents, qb)
        tol = K * (H1.storage_noise_in(new.contents, qb) * 3 + H1.request_quantum(qb, new.contents) * 3) + (1e-7 + rel_obs) * abs(qv)
        if qb != 'L':
            # the portions are taken by volume, each rounded to what the volume storage unit resolves: under litre storage
            # 0.1 mL of a 56 mol/L stock is known to 1e-10 L = 5.6e-9 mol (follows from the storage units, like item 46 of §15)
            def per_litre(c):
                lit = R.measure(c.contents, 'L')
                return R.measure(c.contents, qb) / lit if lit > 0 else 0.0
            tol += K * H1.request_quantum('L', source.contents) * (per_litre(source) + (per_litre(solvent) if container_solvent else 0.0))
        if not M.ratio('FROM.total', got_total, qv, tol):
            bad = True
            M.violate(['C12'], 'FROM', f'C12:total_quantity_not_met:q={qb}:{skind}',
                      {'target': qv, 'unit': qb, 'got': got_total, 'tol': tol, 'quantity': quantity,
                       'concentration': conc, 'source': F.snap_contents(source), 'solvent': H1._short(solvent),
                       'new': F.snap_contents(new)})
        # concentration
        if R.per(solute, num) != 0 and den != 'U' and cval > 0:
            got_c = R.concentration(new.contents, solute, num, den)
            amounts = [max(abs(x), q) for x in new.contents.values()] or [q]
            # the two portions are taken by volume, each rounded to what the volume storage unit resolves: under litre
            # storage 0.25 nL out of a 2 M container is 2.5 stored digits (follows from the storage units, §4.1)
            def top_per_litre(c):
                lit = R.measure(c.contents, 'L')
                return R.measure({solute: c.contents.get(solute, 0.0)}, num) / lit if lit > 0 else 0.0
            portion_rounding = H1.request_quantum('L', source.contents) * (top_per_litre(source) + (top_per_litre(solvent) if container_solvent else 0.0))
            den_new = R.measure(new.contents, den)
            rel_portions = portion_rounding / (cval * den_new) if den_new > 0 else 0.0
            rel_tol = K * (R.conc_quantum(cval) / cval + sum(q / x for x in amounts) * 2 + rel_portions) + 1e-6 + rel_obs
            if not M.ratio('FROM.conc', got_c, cval, rel_tol * cval):
                bad = True
                M.violate(['C12'], 'FROM', f'C12:concentration_not_met:{num}/{den}:q={qb}:{skind}',
                          {'target': cval, 'unit': f'{num}/{den}', 'got': got_c, 'rel_tol': rel_tol,
                           'quantity': quantity, 'concentration': conc, 'source': F.snap_contents(source),
                           'solvent': H1._short(solvent), 'new': F.snap_contents(new)})
        # aliquot of the source
        f, dev = uniform_fraction(source.contents, src_after.contents)
        big = max([abs(x) for x in source.contents.values()] + [0.0])
        if dev > K * q * 2 + 1e-9 * big or f < -1e-9 or f > 1 + 1e-9:
            bad = True
            M.violate(['C12'], 'FROM', 'C12:source_portion_not_an_aliquot',
                      {'fraction': f, 'deviation': dev, 'source': F.snap_contents(source),
                       'source_after': F.snap_contents(src_after)})
        if container_solvent:
            g, dev2 = uniform_fraction(solvent.contents, solv_after.contents)
            big2 = max([abs(x) for x in solvent.contents.values()] + [0.0])
            if dev2 > K * q * 2 + 1e-9 * big2 or g < -1e-9 or g > 1 + 1e-9:
                bad = True
                M.violate(['C12'], 'FROM', 'C12:solvent_portion_not_an_aliquot',
                          {'fraction': g, 'deviation': dev2, 'solvent': F.snap_contents(solvent),
                           'solvent_after': F.snap_contents(solv_after)})
        # material balance
        for s in H1.subs_of(source.contents, new.contents, src_after.contents,
                            solvent.contents if container_solvent else {}):
            before = source.contents.get(s, 0.0) + (solvent.contents.get(s, 0.0) if container_solvent else 0.0)
            after = src_after.contents.get(s, 0.0) + new.contents.get(s, 0.0) + (
                solv_after.contents.get(s, 0.0) if container_solvent else 0.0)
            tolb = K * q * 3 + 1e-9 * abs(before)
            if (not container_solvent) and s == solvent:
                if after < before - tolb:
                    bad = True
                    M.violate(['C12'], 'FROM', 'C12:material_lost:solvent', {'substance': s.name, 'before': before, 'after': after})
                continue
            if abs(after - before) > tolb:
                bad = True
                M.violate(['C12'], 'FROM', 'C12:material_not_conserved:' + ('container_solvent' if container_solvent else 'pure_solvent'),
                          {'substance': s.name, 'before': before, 'after': after, 'tol': tolb,
                           'source': F.snap_contents(source), 'source_after': F.snap_contents(src_after),
                           'new': F.snap_contents(new)})
                break
        name = a.get('name')
        if name and new.name != name:
            M.violate(['C12'], 'FROM', 'C12:result_name', {'got': new.name, 'want': name})
        if src_after.name != source.name or src_after.max_volume != source.max_volume:
            M.violate(['C12'], 'FROM', 'C12:residual_identity_changed', {'before': source.name, 'after': src_after.name})
        if not bad:
            M.note_nontrivial('C12', (num, den, qb, skind, conc, quantity, tuple(sorted(H1.cdesc(source.contents).items()))))
            M.sample('C12', {'source': H1.cdesc(source.contents), 'solute': solute.name, 'concentration': conc,
                             'solvent': H1._short(solvent), 'quantity': quantity, 'new': H1.cdesc(new.contents),
                             'source_after': H1.cdesc(src_after.contents)})
        from . import instr
        instr.check_solution_from(source, solvent, src_after, new)


# ==================================================================================================
# Unit monitors (optional: they sit on very hot functions)

class HConvertFrom(Handler):
    def post(self, ctx, args, kwargs, result, exc):
        pp = PP()
        names = ['substance', 'quantity', 'from_unit', 'to_unit']
        a = dict(zip(names, args))
        a.update(kwargs)
        s, x, fu, tu = (a.get(k) for k in names)
        if not isinstance(s, pp.Substance) or isinstance(x, bool) or not isinstance(x, (int, float)) \
                or not isinstance(fu, str) or not isinstance(tu, str):
            return
        M.count('CONV')
        try:
            exp = R.convert(s, x, fu, tu)
        except R.Reject as e:
            if exc is None:
                M.violate(['C06'], 'CONV', f'C06:conversion_not_rejected:{R.kind(s)}',
                          {'substance': F.describe(s), 'quantity': x, 'from': fu, 'to': tu, 'got': result,
                           'why': str(e)})
            return
        if exc is not None:
            M.violate(['C06'], 'CONV', f'C06:conversion_raised:{R.kind(s)}:{type(exc).__name__}',
                      {'substance': F.describe(s), 'quantity': x, 'from': fu, 'to': tu, 'exc': repr(exc)[:200]})
            return
        if math.isnan(exp) or (isinstance(result, float) and math.isnan(result)):
            return
        if math.isinf(exp):
            ok = result == exp
        else:
            ok = abs(result - exp) <= 1e-12 * abs(exp) + 1e-300
        if not ok:
            pf, bf = R.split_unit(fu)
            pt, bt = R.split_unit(tu)
            M.violate(['C06'], 'CONV', f'C06:wrong_factor:{R.kind(s)}:{bf}->{bt}',
                      {'substance': F.describe(s), 'quantity': x, 'from': fu, 'to': tu, 'got': result,
                       'expected': exp})


class HConvert(Handler):
    """Unit.convert(substance, '10 mL', unit): grammar + factor."""
    def post(self, ctx, args, kwargs, result, exc):
        pp = PP()
        names = ['substance', 'quantity', 'unit']
        a = dict(zip(names, args))
        a.update(kwargs)
        s, qs, tu = (a.get(k) for k in names)
        if not isinstance(s, pp.Substance) or not isinstance(qs, str) or not isinstance(tu, str):
            return
        M.count('CONV.convert')
        try:
            v, b = R.parse_quantity(qs)
            exp = R.convert(s, v, b, tu)
        except R.Reject:
            return   # judged at parse_quantity / convert_from level
        if exc is None and math.isfinite(exp) and not abs(result - exp) <= 1e-12 * abs(exp) + 1e-300:
            M.violate(['C06'], 'CONV', f'C06:convert_wrong:{R.kind(s)}',
                      {'substance': F.describe(s), 'quantity': qs, 'to': tu, 'got': result, 'expected': exp})


class HStorage(Handler):
    def __init__(self, direction):
        self.direction = direction

    def post(self, ctx, args, kwargs, result, exc):
        names = ['value', 'unit']
        a = dict(zip(names, args))
        a.update(kwargs)
        v, u = a.get('value'), a.get('unit')
        if isinstance(v, bool) or not isinstance(v, (int, float)) or not isinstance(u, str):
            return
        cf = R.cfg()
        try:
            p, b = R.split_unit(u)
        except R.Reject:
            return
        if b not in ('L', 'mol'):
            return
        M.count('CONV.storage')
        sp = cf.vol_prefix if b == 'L' else cf.mol_prefix
        if self.direction == 'to':
            exp = v * R.PREFIX[p] / sp
        else:
            exp = v * sp / R.PREFIX[p]
        if exc is not None:
            M.violate(['C06', 'C18'], 'CONV', f'C06:storage_conversion_raised:{self.direction}:{b}:{type(exc).__name__}',
                      {'value': v, 'unit': u, 'storage': (cf.mol_unit, cf.vol_unit), 'exc': repr(exc)[:200]})
            return
        if not math.isfinite(exp):
            return
        # (what comes out of storage keeps what the storage unit resolves - one stored digit, expressed in the requested unit -
        # where that is finer than a digit of the requested unit: 1.2345e-5 uL is 1.2345e-14 kL, not 1.23e-14; DESIGN 4)
        quantum = cf.q * min(1.0, sp / R.PREFIX[p]) if self.direction == 'from' else cf.q
        if abs(result - exp) > quantum + 1e-12 * abs(exp):
            M.violate(['C06', 'C18'], 'CONV', f'C06:storage_conversion_wrong:{self.direction}:{b}',
                      {'value': v, 'unit': u, 'got': result, 'expected': exp, 'storage': (cf.mol_unit, cf.vol_unit)})


def _lenient(s):
    return ' '.join(s.split())


class HParseQuantity(Handler):
    def post(self, ctx, args, kwargs, result, exc):
        s = args[0] if args else kwargs.get('quantity')
        if not isinstance(s, str):
            return
        M.count('PARSE.quantity')
        try:
            v, b = R.parse_quantity(s)
        except R.Reject as e:
            if exc is None:
                if isinstance(result, tuple) and len(result) == 2 and result[1] == 'M':
                    M.count('PARSE.quantity_base_M_unjudged')
                    return
                M.violate(['C14'], 'PARSE', 'C14:malformed_quantity_accepted:parse_quantity',
                          {'string': s, 'got': repr(result), 'why': str(e)})
            return
        if not R.quantity_prefix_is_judged(s):
            return
        if exc is not None:
            M.violate(['C14'], 'PARSE', f'C14:wellformed_quantity_rejected:{type(exc).__name__}',
                      {'string': s, 'exc': repr(exc)[:200]})
            return
        gv, gb = result
        if gb != b or not (gv == v or abs(gv - v) <= 1e-12 * abs(v)):
            M.violate(['C14'], 'PARSE', 'C14:quantity_value_ne_SI',
                      {'string': s, 'got': [gv, gb], 'expected': [v, b]})


class HParseConcentration(Handler):
    def post(self, ctx, args, kwargs, result, exc):
        s = args[0] if args else kwargs.get('concentration')
        if not isinstance(s, str):
            return
        M.count('PARSE.concentration')
        cf = R.cfg()
        try:
            v, n, d = R.parse_concentration(s)
        except R.Reject as e:
            if exc is None:
                # whitespace-lenient readings that keep the intended meaning are not judged
                try:
                    v, n, d = R.parse_concentration(_lenient(s).replace(' /', '/').replace('/ ', '/'))
                    gv, gn, gd = result
                    if gn == n and gd == d and abs(gv - v) <= cf.q + 1e-9 * abs(v):
                        M.count('PARSE.concentration_lenient_whitespace')
                        return
                except Exception:
                    pass
                M.violate(['C14'], 'PARSE', 'C14:malformed_concentration_accepted:parse_concentration',
                          {'string': s, 'got': repr(result), 'why': str(e)})
            return
        if exc is not None:
            M.violate(['C14'], 'PARSE', f'C14:wellformed_concentration_rejected:{type(exc).__name__}',
                      {'string': s, 'exc': repr(exc)[:200], 'expected': [v, n, d]})
            return
        gv, gn, gd = result
        if gn != n or gd != d or not abs(gv - v) <= cf.q + 1e-12 * abs(v):
            M.violate(['C14'], 'PARSE', 'C14:concentration_value_ne_SI',
                      {'string': s, 'got': [gv, gn, gd], 'expected': [v, n, d]})


def unit_handlers():
    return {
        ('Unit', 'convert_from'): HConvertFrom(),
        ('Unit', 'convert'): HConvert(),
        ('Unit', 'convert_to_storage'): HStorage('to'),
        ('Unit', 'convert_from_storage'): HStorage('from'),
        ('Unit', 'parse_quantity'): HParseQuantity(),
        ('Unit', 'parse_concentration'): HParseConcentration(),
    }
