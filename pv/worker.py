"""Worker process: runs one job (a slice of the cases of one property) against the real library under
the monitors and writes one JSON result.  Short-lived on purpose (functools.cache on Container methods
pins every container it ever hashed)."""
from __future__ import annotations

import importlib
import json
import os
import sys
import time
import traceback


def main():
    jobfile, outfile = sys.argv[1], sys.argv[2]
    with open(jobfile) as f:
        job = json.load(f)
    t0 = time.time()
    out = {'job': job, 'ok': False}
    try:
        mod = importlib.import_module('pv.props.' + job['prop'].lower())
        repo = os.environ.get('VERIF_REPO', '/repo')
        from pv import linecov
        linecov.start(os.path.join(repo, 'pyplate'))
        import pyplate
        import pyplate.pyplate as pp
        src = os.path.realpath(pp.__file__)
        if not src.startswith(os.path.realpath(repo) + os.sep):
            raise RuntimeError(f'pyplate imported from {src}, expected under {repo}')
        from pv import monitors
        from pv import refmodel
        cfgdir = os.environ.get('PYPLATE_CONFIG', '')
        # configuration in effect must be the one we were given
        want = job.get('config_expect')
        if want:
            c = pp.config
            got = {'moles_storage_unit': c.moles_storage_unit, 'volume_storage_unit': c.volume_storage_unit,
                   'internal_precision': c.internal_precision}
            for k, v in want.items():
                if got.get(k) != v:
                    out['config_not_applied'] = {'want': want, 'got': got}
        missing = monitors.install(unit_monitors=getattr(mod, 'UNIT_MONITORS', False) or job.get('unit_monitors', False))
        M = monitors.M
        extra = mod.run_job(job) or {}
        out.update({
            'ok': True,
            'missing': sorted(missing),
            'counters': dict(M.counters),
            'buckets': dict(M.buckets),
            'violations': M.violations,
            'nontrivial': {k: sorted(v) for k, v in M.nontrivial.items()},
            'samples': {k: v for k, v in M.samples.items()},
            'bugs': M.bugs[:5],
            'max_ratio': dict(M.max_ratio),
            'extra': extra,
            'lines': linecov.collected(),
        })
    except BaseException as e:   # noqa
        out['error'] = traceback.format_exc()
    out['wall_s'] = time.time() - t0
    with open(outfile, 'w') as f:
        json.dump(out, f, default=repr)


if __name__ == '__main__':
    main()
