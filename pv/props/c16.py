"""C16 Recipe lifecycle discipline is enforced.
Deciding step: a reference automaton over the abstract recipe state (declared names, names used by a step,
open stage, stage names, locked) steps in lock-step with the real Recipe along ALL call sequences up to a
bound over a 31-symbol alphabet (plus long random sequences); accept/raise pattern (RuntimeError after a
successful bake), len(steps), result key set, and the stability of results and tracking answers under every
refused call after bake are compared."""
from __future__ import annotations

from .common import BASE_ASSUMPTIONS

ID = 'C16'
LEVEL = 'exploration'
DECIDING = ['LIFE.call']
MIN_EVAL = {'quick': 500000, 'thorough': 10000000}
MIN_MONITOR = {'LIFE.bake_ok': 2000, 'LIFE.after_bake_call': 2000, 'LIFE.battery': 500}
RULE = ('ALL sequences of recipe API calls up to length 4 (quick) / 5 (thorough) over an alphabet of 31 symbols on two '
        'containers, one plate and one never-declared container (uses new/duplicate, uses with a list / tuple argument incl. two same-named objects in one list, create_container new/duplicate, '
        'create_solution with pure/declared/undeclared solvent, create_solution_from declared/undeclared, transfer legal / '
        'undeclared source / undeclared destination, remove / dilute / fill_to declared/undeclared, start_stage '
        'new/duplicate/"all", end_stage right/wrong/"all", a renaming dilute onto the name of B, a Container under the name of the '
        'plate, a transfer that can never be carried out, bake), plus random sequences of length 6-14; a sequence stops at the '
        'first deviation; evaluations = API calls compared with the automaton; non-trivial = a sequence reaching a '
        'successful bake or a refusal; distinct by sequence')
ASSUMPTIONS = BASE_ASSUMPTIONS + [
    'bake is three-valued in the automaton once a step may be physically infeasible (after create_container/create_solution '
    'under the name A or remove on A); otherwise the alphabet is feasible in every reachable order (100 mL stock, <= 1 mL amounts)',
    'after a successful bake: declaring and step-adding calls must raise RuntimeError; start_stage / end_stage / bake must raise',
    'a bake refused because a step is infeasible leaves the recipe as it was (not locked, an open stage still open, nothing declared or '
    'undeclared): the automaton simply goes on; a refused uses() declares nothing']
SYMS = ['usesA', 'usesB', 'usesP', 'usesA2', 'usesL_BP', 'usesL_dup', 'usesT_A', 'ccN', 'ccA', 'csM', 'csA', 'csSolvA', 'csSolvX', 'csfA', 'csfX', 'tAB', 'tAP', 'tXA',
        'tAX', 'rmA', 'rmX', 'dilA', 'dilX', 'fillB', 'fillX', 'st1', 'st2', 'stall', 'en1', 'en2', 'bake',
        'enAll', 'dilA_B', 'tKindP', 'tBig']
DECLARING = {'usesA': 'A', 'usesB': 'B', 'usesP': 'P', 'usesA2': 'A', 'ccN': 'N', 'ccA': 'A', 'csM': 'M', 'csA': 'A', 'csSolvA': 'SA',
             'csSolvX': 'SX', 'csfA': 'FA', 'csfX': 'FX'}
NEED = {'tAB': ['A', 'B'], 'tAP': ['A', 'P'], 'tXA': ['X', 'A'], 'tAX': ['A', 'X'], 'rmA': ['A'], 'rmX': ['X'], 'dilA': ['A'],
        'dilX': ['X'], 'fillB': ['B'], 'fillX': ['X'], 'dilA_B': ['A'], 'tBig': ['A', 'B']}


def required_buckets(tier):
    req = [f'C16/sym/{s}/ok' for s in SYMS if s not in ('usesA2', 'usesL_dup', 'csSolvX', 'csfX', 'tXA', 'tAX', 'rmX', 'dilX', 'fillX', 'stall', 'enAll', 'tKindP')]
    req += [f'C16/sym/{s}/refused' for s in SYMS if s not in ()]
    req += [f'C16/after_bake/{s}' for s in SYMS]
    req += ['C16/naming/plain', 'C16/naming/like_substances', 'C16/bake_refused_for_an_infeasible_step', 'C16/second_bake_after_refused_bake']
    return req


def plan(tier, seed):
    L = 4 if tier == 'quick' else 5
    jobs = []
    n = 0
    # split the sequence space by the first two symbols
    firsts = [(a, b) for a in range(len(SYMS)) for b in range(len(SYMS))]
    parts = 32 if tier == 'quick' else 96
    for p in range(parts):
        jobs.append({'kind': 'enumerate', 'lo': n, 'hi': n + 1, 'timeout': 3000,
                     'params': {'L': L, 'part': p, 'parts': parts}})
        n += 1
    nrand = 8 if tier == 'quick' else 32
    for p in range(nrand):
        jobs.append({'kind': 'random', 'lo': n, 'hi': n + 1, 'timeout': 1500, 'params': {'n': 1500 if tier == 'quick' else 4000}})
        n += 1
    return jobs


def run_job(job):
    from .common import run_cases
    return run_cases(job, enumerate_ if job['kind'] == 'enumerate' else random_)


class Model:
    """Reference automaton."""
    def __init__(self):
        self.decl = set()
        self.used = set()
        self.open = None
        self.stages = {'all'}
        self.locked = False
        self.n = 0
        self.maybe_infeasible = False
        self.reserved = set()         # names that dilute steps will give: taken, like declared ones
        self.infeasible = False       # a step that can never be carried out (500 mL out of a 100 mL stock) has been declared
        self.diluted = False
        self.filled = False
        self.partial = False

    def key(self):
        return (frozenset(self.decl), frozenset(self.used), self.open, frozenset(self.stages), self.locked, frozenset(self.reserved))

    def step(self, sym):
        """-> 'ok' | 'raise' | 'runtime' | 'bake?' """
        if sym == 'bake':
            if self.locked:
                return 'raise'
            if self.decl - self.used:
                return 'raise'
            if self.infeasible:
                return 'raise'         # refused by the step itself; the recipe stays as it was and may be baked (= refused) again
            return 'bake?' if self.maybe_infeasible else 'ok'
        if sym in ('st1', 'st2', 'stall', 'en1', 'en2', 'enAll'):
            if self.locked:
                return 'raise'
            if sym == 'enAll':
                return 'raise'          # 'all' is never an open stage (start_stage refuses the name)
            name = {'st1': 's1', 'st2': 's2', 'stall': 'all', 'en1': 's1', 'en2': 's2'}[sym]
            if sym.startswith('st'):
                if name in self.stages or self.open:
                    return 'raise'
                self.open = name
                self.stages.add(name)
                return 'ok'
            if self.open != name:
                return 'raise'
            self.open = None
            return 'ok'
        if self.locked:
            return 'runtime'
        if sym in ('usesL_BP', 'usesL_dup', 'usesT_A'):
            names = {'usesL_BP': ['B', 'P'], 'usesL_dup': ['D', 'D'], 'usesT_A': ['A']}[sym]
            clash = [n for n in names if n in self.decl or n in self.reserved] or (['D'] if sym == 'usesL_dup' else [])
            if clash:
                return 'raise'          # refused: nothing is declared (not even the elements before the clash)
            self.decl.update(names)
            return 'ok'
        if sym in DECLARING:
            nm = DECLARING[sym]
            if sym in ('csSolvA', 'csfA') and 'A' not in self.decl:
                return 'raise'
            if sym in ('csSolvX', 'csfX'):
                return 'raise'
            if nm in self.decl or nm in self.reserved:
                return 'raise'
            self.decl.add(nm)
            if not sym.startswith('uses'):
                self.used.add(nm)
                self.n += 1
                if sym in ('csSolvA', 'csfA'):
                    self.used.add('A')
                if sym in ('ccA', 'csA'):
                    self.maybe_infeasible = True
                if sym == 'csfA' and self.diluted:
                    self.maybe_infeasible = True      # 0.1 M is no longer reachable from the diluted stock
            return 'ok'
        if sym == 'tKindP':
            return 'raise'              # a Container that merely carries the name of the (declared or undeclared) plate P
        need = NEED[sym]
        if any(n not in self.decl for n in need):
            return 'raise'
        if sym == 'dilA_B' and 'B' in self.decl:
            return 'raise'              # the new name is in use
        self.used |= set(need)
        self.n += 1
        if sym == 'rmA':
            self.maybe_infeasible = True
        if sym in ('dilA', 'dilA_B'):
            self.diluted = True
        if sym == 'dilA_B':
            self.reserved.add('B')
        if sym == 'tBig':
            if self.diluted:
                self.maybe_infeasible = True      # diluted to 0.01 M the stock holds litres
            else:
                self.infeasible = True
        if sym == 'fillB':
            if self.filled:
                self.maybe_infeasible = True      # B may hold more than 50 mL by now (fill, transfer in, fill again)
            self.filled = True
        return 'ok'

    def baked(self):
        self.locked = True
        self.open = None


PLAIN = {'B': 'B', 'P': 'P'}
LIKE_SUBSTANCES = {'B': 'H2O', 'P': 'NaCl'}     # objects named exactly like the substances the steps mention as operands


def fresh(pp, water, salt, names=PLAIN):
    C, P = pp.Container, pp.Plate
    return {'A': C('A', initial_contents=[(water, '100 mL'), (salt, '5 g')]), 'B': C(names['B']), 'P': P(names['P'], '1 mL', rows=1, columns=2),
            'XP': P('XP', '1 mL', rows=2, columns=2),          # a plate that is never declared
            'X': C('X', initial_contents=[(water, '10 mL')]),
            'D1': C('D', initial_contents=[(water, '1 mL')]), 'D2': C('D', initial_contents=[(water, '2 mL')])}


def fresh_str(x):
    """An equal but distinct str object (names built at run time - f-strings in a loop - are never the same object as
    the one stored by an earlier call; literals are interned and would be)."""
    return ''.join(list(x))


def do(r, o, sym, water, salt):
    A, B, P, X = o['A'], o['B'], o['P'], o['X']
    if sym == 'usesL_BP':
        r.uses([B, P])
    elif sym == 'usesL_dup':
        r.uses([o['D1'], o['D2']])
    elif sym == 'usesT_A':
        r.uses((A,))
    elif sym in ('usesA', 'usesA2'):
        r.uses(A)
    elif sym == 'usesB':
        r.uses(B)
    elif sym == 'usesP':
        r.uses(P)
    elif sym == 'ccN':
        r.create_container('N', initial_contents=[(water, '1 mL')])
    elif sym == 'ccA':
        r.create_container('A')
    elif sym == 'csM':
        r.create_solution(salt, water, name='M', concentration='1 M', total_quantity='1 mL')
    elif sym == 'csA':
        r.create_solution(salt, water, name='A', concentration='1 M', total_quantity='1 mL')
    elif sym == 'csSolvA':
        # (a solute the solvent container does not hold: one it holds is refused when the step is carried out)
        r.create_solution(type(salt).solid('KCl', 74.5513), A, name='SA', concentration='2 M', total_quantity='1 mL')
    elif sym == 'csSolvX':
        r.create_solution(type(salt).solid('KCl', 74.5513), X, name='SX', concentration='2 M', total_quantity='1 mL')
    elif sym == 'csfA':
        r.create_solution_from(A, salt, '0.1 M', water, '1 mL', name='FA')
    elif sym == 'csfX':
        r.create_solution_from(X, salt, '0.1 M', water, '1 mL', name='FX')
    elif sym == 'tAB':
        r.transfer(A, B, '1 mL')
    elif sym == 'tAP':
        r.transfer(A, P, '10 uL')
    elif sym == 'tXA':
        r.transfer(X, A, '1 mL')
    elif sym == 'tAX':
        r.transfer(A, X, '1 mL')
    elif sym == 'rmA':
        r.remove(A, salt)
    elif sym == 'rmX':
        r.remove(X, salt)
    elif sym == 'dilA':
        r.dilute(A, salt, '0.01 M', water)
    elif sym == 'dilX':
        r.dilute(X, salt, '0.01 M', water)
    elif sym == 'dilA_B':
        r.dilute(A, salt, '0.01 M', water, B.name)          # (the name of B, declared or not)
    elif sym == 'tKindP':
        r.transfer(type(A)(P.name, initial_contents=[(water, '5 mL')]), A, '1 uL')
    elif sym == 'tBig':
        r.transfer(A, B, '500 mL')
    elif sym == 'enAll':
        r.end_stage(fresh_str('all'))
    elif sym == 'fillB':
        r.fill_to(B, water, '50 mL')
    elif sym == 'fillX':
        r.fill_to(X, water, '50 mL')
    elif sym == 'st1':
        r.start_stage(fresh_str('s1'))
    elif sym == 'st2':
        r.start_stage(fresh_str('s2'))
    elif sym == 'stall':
        r.start_stage(fresh_str('all'))
    elif sym == 'en1':
        r.end_stage(fresh_str('s1'))
    elif sym == 'en2':
        r.end_stage(fresh_str('s2'))
    elif sym == 'bake':
        return r.bake()


def battery(r, res, o, water, salt):
    """Fixed battery of results + tracking answers (compared before/after every refused call after bake)."""
    from pv import fingerprint as F
    import numpy
    out = [tuple(sorted(res.keys())), tuple(F.fingerprint(res[k]) for k in sorted(res.keys())), len(r.steps),
           tuple(sorted(r.stages.keys()))]
    # flows and amounts first, usage afterwards: when the battery is asked a second time, every kind of question comes
    # after every other kind has been asked once
    for name in sorted(res.keys()):
        obj = res[name]
        for tf in sorted(r.stages.keys()):
            try:
                fl = r.get_container_flows(obj, tf, 'uL')
                out.append((numpy.asarray(fl['in']).tolist(), numpy.asarray(fl['out']).tolist()))
            except Exception as e:   # noqa
                out.append(type(e).__name__)
            try:
                rem = r.get_amount_remaining(obj, tf, 'uL')
                out.append(numpy.asarray(rem).tolist() if rem is not None else None)
            except Exception as e:   # noqa
                out.append(type(e).__name__)
    for name in sorted(res.keys()):
        obj = res[name]
        for sub in (water, salt):
            for tf in sorted(r.stages.keys()):
                try:
                    out.append(r.get_substance_used(sub, tf, 'umol', [obj]))
                except Exception as e:   # noqa
                    out.append(type(e).__name__)
    return repr(out)


def run_sequence(pp, water, salt, seq, M, stats, states, transitions, check_battery, names=PLAIN):
    r = pp.Recipe()
    o = fresh(pp, water, salt, names)
    stats['naming/' + ('plain' if names is PLAIN else 'like_substances')] += 1
    m = Model()
    res = None
    bat = None
    for i, sym in enumerate(seq):
        if check_battery and not m.locked and (i == 0 or sym == 'bake'):
            # objects that were never declared are refused in every role and in every form (a whole plate, a slice, one well)
            XP_, A_ = o['XP'], o['A']
            undeclared = [('fill_slice', lambda: r.fill_to(XP_[1, :], water, '20 uL')), ('fill_well', lambda: r.fill_to(XP_['A:1'], water, '20 uL')),
                          ('fill_plate', lambda: r.fill_to(XP_, water, '20 uL')), ('remove_slice', lambda: r.remove(XP_[:, 1], water)),
                          ('remove_plate', lambda: r.remove(XP_, water)), ('transfer_to_slice', lambda: r.transfer(A_, XP_[1, :], '1 uL')),
                          ('transfer_from_well', lambda: r.transfer(XP_['B:2'], A_, '1 uL')), ('transfer_to_plate', lambda: r.transfer(A_, XP_, '1 uL'))]
            n_before = len(r.steps)
            for pname, pcall in undeclared:
                stats['LIFE.undeclared_probe'] += 1
                try:
                    pcall()
                except Exception:   # noqa
                    if len(r.steps) != n_before:
                        M.violate(['C16'], 'LIFE', f'C16:refused_call_added_a_step:undeclared:{pname}', {'sequence': list(seq[:i])})
                        return
                    continue
                M.violate(['C16'], 'LIFE', f'C16:undeclared_object_accepted:{pname}', {'sequence': list(seq[:i])})
                return
        before_key = m.key()
        was_locked = m.locked
        exp = m.step(sym)
        n0 = len(r.steps)
        try:
            ret = do(r, o, sym, water, salt)
            got = 'ok'
        except RuntimeError:
            got = 'runtime'
        except Exception as e:   # noqa
            got = 'raise:' + type(e).__name__
        stats['LIFE.call'] += 1
        transitions.add((before_key, sym))
        if was_locked:
            stats['LIFE.after_bake_call'] += 1
            stats[f'after_bake/{sym}'] += 1
        ok = ((exp == 'ok' and got == 'ok') or (exp == 'raise' and got != 'ok') or (exp == 'runtime' and got == 'runtime')
              or (exp == 'bake?' and (got == 'ok' or got.startswith('raise:ValueError'))))
        if not ok:
            phase = 'after_bake' if was_locked else 'before_bake'
            M.violate(['C16'], 'LIFE', f'C16:{phase}:{sym}:expected_{exp}:got_{got}',
                      {'sequence': list(seq[:i + 1]), 'expected': exp, 'got': got})
            return
        stats[f'sym/{sym}/' + ('ok' if got == 'ok' else 'refused')] += 1
        if got != 'ok':
            if len(r.steps) != n0:
                M.violate(['C16'], 'LIFE', f'C16:refused_call_added_a_step:{sym}', {'sequence': list(seq[:i + 1])})
                return
            if sym == 'bake' and not was_locked and (exp == 'bake?' or m.infeasible) and not (m.decl - m.used):
                # a step turned out to be infeasible: the recipe is as it was (not locked, the open stage still open, its
                # declared objects untouched) - the model simply goes on, and a second bake is refused again
                stats['bake_refused_for_an_infeasible_step'] += 1
                if r.locked or (m.open is not None and r.current_stage == 'all') or sorted(r.results) != sorted(names.get(k_, k_) for k_ in m.decl):
                    M.violate(['C16', 'C04'], 'LIFE', 'C16:refused_bake_changed_the_recipe',
                              {'sequence': list(seq[:i + 1]), 'locked': r.locked, 'open_stage': r.current_stage, 'model_open': m.open})
                    return
                if i > 0 and 'bake' in seq[:i] and not was_locked:
                    stats['second_bake_after_refused_bake'] += 1
            if was_locked and check_battery and res is not None:
                stats['LIFE.battery'] += 1
                now = battery(r, res, o, water, salt)
                if now != bat:
                    M.violate(['C16'], 'LIFE', f'C16:results_or_tracking_changed_by_refused_call_after_bake:{sym}',
                              {'sequence': list(seq[:i + 1])})
                    return
            continue
        if sym == 'bake':
            m.baked()
            res = ret
            stats['LIFE.bake_ok'] += 1
            if set(res.keys()) != {names.get(k_, k_) for k_ in m.decl}:
                M.violate(['C16'], 'LIFE', 'C16:bake_result_names_ne_declared', {'sequence': list(seq[:i + 1]), 'got': sorted(res.keys()),
                                                                                 'declared': sorted(m.decl)})
                return
            if r.current_stage != 'all' and hasattr(r, 'current_stage'):
                M.violate(['C16'], 'LIFE', 'C16:open_stage_not_closed_at_bake', {'sequence': list(seq[:i + 1])})
                return
            if check_battery:
                # "after a successful bake every declaring or step-adding call raises RuntimeError" - also a call whose
                # values would have been refused anyway (a zero quantity, a zero concentration, an undeclared object):
                # the lock comes first
                A_, B_, P_, X_ = o['A'], o['B'], o['P'], o['X']
                probes = [('csf_zero_quantity', lambda: r.create_solution_from(A_, salt, '0.1 M', water, '0 mL', name='Z1')),
                          ('csf_negative_quantity', lambda: r.create_solution_from(A_, salt, '0.1 M', water, '-1 mL', name='Z2')),
                          ('csf_zero_concentration', lambda: r.create_solution_from(A_, salt, '0 M', water, '1 mL', name='Z3')),
                          ('cs_two_of_three', lambda: r.create_solution(salt, water, name='Z4', concentration='1 M')),
                          ('dilute_zero_concentration', lambda: r.dilute(A_, salt, '0 M', water)),
                          ('transfer_undeclared', lambda: r.transfer(X_, A_, '1 mL')),
                          ('create_container_negative', lambda: r.create_container('Z5', initial_contents=[(water, '-1 mL')])),
                          ('uses_nothing', lambda: r.uses()),
                          ('start_stage_new', lambda: r.start_stage(fresh_str('zz')))]
                for pname, pcall in probes:
                    stats['LIFE.after_bake_probe'] += 1
                    try:
                        pcall()
                        outcome = 'accepted'
                    except RuntimeError:
                        continue
                    except Exception as e_:   # noqa
                        outcome = type(e_).__name__
                    if pname == 'start_stage_new' and outcome != 'accepted':
                        continue          # start_stage / end_stage / bake must raise; the kind is not specified (see ASSUMPTIONS)
                    M.violate(['C16'], 'LIFE', f'C16:after_bake:{pname}:expected_runtime:got_{outcome}', {'sequence': list(seq[:i + 1])})
                    return
                bat = battery(r, res, o, water, salt)
                # asking is not a recipe call either: the same questions asked again, now after every other question
                # has been asked once, get the same answers
                stats['LIFE.battery'] += 1
                if battery(r, res, o, water, salt) != bat:
                    M.violate(['C16'], 'LIFE', 'C16:tracking_answers_changed_by_asking_them', {'sequence': list(seq[:i + 1])})
                    return
        if len(r.steps) != m.n:
            M.violate(['C16'], 'LIFE', f'C16:number_of_steps_ne_model:{sym}', {'sequence': list(seq[:i + 1]), 'steps': len(r.steps), 'model': m.n})
            return
        states.add(m.key())
    return


def enumerate_(rng, case, idx):
    import collections
    import itertools
    import pyplate.pyplate as pp
    from pv.monitors import M
    P = case['params']
    L, part, parts = P['L'], P['part'], P['parts']
    water = pp.Substance.liquid('H2O', 18.0153, 1)
    salt = pp.Substance.solid('NaCl', 58.4428)
    stats = collections.Counter()
    states, transitions = set(), set()
    n = 0
    nseq = 0
    pairs = list(itertools.product(SYMS, repeat=2))
    for k, head in enumerate(pairs):
        if k % parts != part:
            continue
        for tail in itertools.product(SYMS, repeat=L - 2):
            seq = head + tail
            nseq += 1
            # the battery is evaluated on a sample of the sequences that reach a bake (it is the expensive part)
            run_sequence(pp, water, salt, seq, M, stats, states, transitions, check_battery=(nseq % 7 == 0),
                         names=LIKE_SUBSTANCES if nseq % 2 else PLAIN)
            if len(M.violations) > 200:
                break
    for k, v in stats.items():
        if k.startswith('sym/') or k.startswith('after_bake/') or k.startswith('naming/') or k.startswith('bake_refused') or k.startswith('second_bake'):
            M.bucket('C16/' + k, v)
        else:
            M.count(k, v)
    for i in range(min(nseq, 2000)):
        M.note_nontrivial('C16', (part, i))
    M.sample('C16', {'sequences_enumerated_in_this_shard': nseq, 'length': L,
                     'example': list(pairs[part % len(pairs)]) + ['usesA', 'bake'][:max(0, L - 2)]}, cap=3)
    return {'states': [repr(s) for s in states], 'transitions': len(transitions), 'sequences': nseq}


def random_(rng, case, idx):
    import collections
    import pyplate.pyplate as pp
    from pv.monitors import M
    water = pp.Substance.liquid('H2O', 18.0153, 1)
    salt = pp.Substance.solid('NaCl', 58.4428)
    stats = collections.Counter()
    states, transitions = set(), set()
    n = case['params']['n']
    w = [3 if s in ('usesA', 'usesB', 'usesP', 'tAB', 'tAP', 'fillB', 'dilA', 'bake', 'st1', 'en1') else 1 for s in SYMS]
    for i in range(n):
        seq = tuple(rng.choices(SYMS, w, k=rng.randint(6, 14)))
        run_sequence(pp, water, salt, seq, M, stats, states, transitions, check_battery=True,
                     names=LIKE_SUBSTANCES if i % 2 else PLAIN)
        M.note_nontrivial('C16', seq)
    for k, v in stats.items():
        if k.startswith('sym/') or k.startswith('after_bake/') or k.startswith('naming/') or k.startswith('bake_refused') or k.startswith('second_bake'):
            M.bucket('C16/' + k, v)
        else:
            M.count(k, v)
    return {'states': [repr(s) for s in states], 'transitions': len(transitions), 'sequences': n}


def finalize(m, tier):
    states = set()
    trans = 0
    seqs = 0
    for ex in m['extras']:
        for e in ex.get('returns') or []:
            states.update(e.get('states') or [])
            trans += e.get('transitions') or 0
            seqs += e.get('sequences') or 0
    return {'coverage': {'states': len(states), 'transitions': trans, 'sequences': seqs,
                         'exhaustive': m['watchdog'] == 0 and not m['errors'],
                         'exhaustive_over': f'all call sequences of length {4 if tier == "quick" else 5} over the 31-symbol alphabet '
                                            '(shorter ones are their prefixes); random sequences of length 6-14 are sampled',
                         'transitions_note': 'distinct (automaton state, symbol) pairs, summed over shards'}}


# --------------------------------------------------------------------------------------------------
# directed edge workloads shared between several checks (pv/edges.py)

_plan_without_edges, _run_job_without_edges = plan, run_job
_required_without_edges = globals().get('required_buckets')


def required_buckets(tier):
    return (list(_required_without_edges(tier)) if _required_without_edges else []) + [ID + '/edge/']


def plan(tier, seed):
    from .common import edges_jobs
    return _plan_without_edges(tier, seed) + edges_jobs(tier)


def run_job(job):
    if job['kind'] == 'edges':
        from pv.edges import edges
        from .common import run_cases
        return run_cases(job, edges)
    return _run_job_without_edges(job)
