"""Shared plumbing for property modules."""
from __future__ import annotations

import time
import traceback

BASE_ASSUMPTIONS = [
    'the reference model pv/refmodel.py (factors, grammar, addressing) written from the documentation',
    'differences below the documented rounding quanta (10^-internal_precision in storage units) are invisible',
    'held means: held on the executions produced by this run (seeded generators), not verified',
    'CPython 3.12 /venv/bin/python, numpy as shipped in /venv',
]


def shard(kind, n_cases, n_jobs, timeout=900, **params):
    n_jobs = max(1, min(n_jobs, n_cases))
    jobs = []
    per = (n_cases + n_jobs - 1) // n_jobs
    lo = 0
    while lo < n_cases:
        hi = min(lo + per, n_cases)
        jobs.append({'kind': kind, 'lo': lo, 'hi': hi, 'params': params, 'timeout': timeout})
        lo = hi
    return jobs


EDGE_CONFIGS = {
    # (L / mol: the coarsest documented storage units - what a mass request was rounded on; L / umol: unequal prefixes with
    # litres, where a stored digit of the volume is 4e-7 of a 250 uL stock; zero-volume solids and enzymes)
    'coarse_storage': ({'volume_storage_unit': 'L', 'moles_storage_unit': 'mol'}, [26, 10, 19, 28, 29]),
    'L_umol': ({'volume_storage_unit': 'L', 'moles_storage_unit': 'umol'}, [19, 8, 26, 21, 29]),
    'zero_volume': ({'default_solid_density': 'inf', 'default_enzyme_density': 'inf'}, [27, 22, 24]),
    # (other display units: what the observers answer in by default)
    'display_units': ({'volume_display_unit': 'mL', 'moles_display_unit': 'mmol', 'concentration_display_unit': 'mM'}, [31, 15, 22]),
}


def edges_jobs(tier):
    """The directed edge families of pv/edges.py: 32 families x 3 (quick) or x 40 (thorough) cases, and the families that
    are about a configuration under that configuration."""
    jobs = shard('edges', 96, 4) if tier == 'quick' else shard('edges', 1280, 8)
    for k, (tag, (cfg, only)) in enumerate(EDGE_CONFIGS.items()):
        n = len(only) * (2 if tier == 'quick' else 30)
        for j in shard('edges', n, 1 if tier == 'quick' else 2):
            j['config'] = cfg
            j['params'] = {'only': only, 'edge_config': tag}
            j['lo'] += 7000000 * (k + 1)
            j['hi'] += 7000000 * (k + 1)
            jobs.append(j)
    return jobs


def run_cases(job, fn, budget_s=None):
    """Run fn(rng, case, idx) for each case index of the job; a MonitorBug is a harness error that is
    already recorded in M.bugs - keep going so that one bug does not hide everything else."""
    from pv.gen import case_rng
    from pv.monitors import M, MonitorBug, InjectedFault
    t0 = time.time()
    done = 0
    returns = []
    for idx in range(job['lo'], job['hi']):
        if budget_s and time.time() - t0 > budget_s:
            break
        case = {'kind': job['kind'], 'idx': idx, 'prop': job['prop'], 'params': job.get('params'), 'config': job.get('config'),
                'config_expect': job.get('config_expect')}
        rng = case_rng(job['seed'], job['prop'], job['kind'], idx)
        M.case = case
        try:
            ret = fn(rng, case, idx)
            if isinstance(ret, dict):
                returns.append(ret)
        except MonitorBug:
            pass
        except InjectedFault:
            M.bugs.append('InjectedFault escaped a case:\n' + traceback.format_exc())
        except Exception:
            M.bugs.append('case driver error:\n' + traceback.format_exc())
        done += 1
    return {'cases_done': done, 'cases_planned': job['hi'] - job['lo'], 'returns': returns}


def repo_suite_job():
    return [{'kind': 'repo_suite', 'lo': 0, 'hi': 1, 'params': {}, 'timeout': 1800}]


def repo_suite(rng, case, idx):
    """The repository's own tests, run under the monitors as one more workload (they deliberately make
    infeasible calls; a monitor that fires here is either too strict or a defect the tests do not assert)."""
    import os
    import pytest
    from pv.monitors import M
    repo = os.environ.get('VERIF_REPO', '/repo')
    from pv import refmodel as _R
    _R.FOLLOW_LIVE_PRECISIONS = True
    cwd = os.getcwd()
    os.chdir(repo)
    prev = M.enabled
    M.enabled = True
    M.case = dict(case)
    try:
        rc = pytest.main(['-q', '-p', 'no:cacheprovider', '--no-header', os.path.join(repo, 'tests')])
    finally:
        M.enabled = prev
        os.chdir(cwd)
    M.count('repo_suite.runs')
    M.bucket('repo_suite/exit=%d' % int(rc))
    return {'repo_suite_exit': int(rc)}


DENSITY_CONFIGS = {'inf': {'default_solid_density': 'inf', 'default_enzyme_density': 'inf'},
                   'dense': {'default_solid_density': 2.5, 'default_enzyme_density': 50}}


DISPLAY_CONFIGS = {'display': {'precisions': {'default': 5, 'uL': 2, 'umol': 3, 'mg': 2, 'mL': 4, 'mmol': 4},
                               'volume_display_unit': 'mL', 'moles_display_unit': 'mmol',
                               'concentration_display_unit': 'mM', 'default_weight_volume_units': 'g/L'},
                   # storage units whose SI prefixes differ between volume and moles (the default, mL/mmol and L/mol all have
                   # equal prefixes, which hides any mix-up of the two scales)
                   'mixed_storage': {'volume_storage_unit': 'mL', 'moles_storage_unit': 'umol'},
                   'mixed_storage2': {'volume_storage_unit': 'uL', 'moles_storage_unit': 'mmol', 'moles_display_unit': 'nmol'}}


def under_display_configs(jobs):
    """Copies of `jobs` under documented non-default configurations: a *display* configuration (other display units, finer
    display precisions, %w/v in g/L - defaults of observers and tracking queries, instruction texts and percent strings
    follow it) and two *storage* configurations with unequal prefixes.  The monitors read the same file."""
    import copy
    out = []
    for tag, cfg in DISPLAY_CONFIGS.items():
        for j in jobs:
            j2 = copy.deepcopy(j)
            j2['config'] = cfg
            j2['params'] = dict(j.get('params') or {}, display=tag)
            shift = 5000000 * (1 + list(DISPLAY_CONFIGS).index(tag))
            j2['lo'] += shift
            j2['hi'] += shift
            out.append(j2)
    return out


def under_density_configs(jobs):
    """Copies of `jobs` to be run under the documented non-default densities (zero-volume solids and enzymes;
    2.5 g/mL and 50 U/mL).  The universal monitors read the configuration in effect, so they apply unchanged."""
    import copy
    out = []
    for tag, cfg in DENSITY_CONFIGS.items():
        for j in jobs:
            j2 = copy.deepcopy(j)
            j2['config'] = cfg
            j2['kind'] = j['kind']
            j2['params'] = dict(j.get('params') or {}, density=tag)
            # distinct case indices, so that the cases differ from the default-configuration ones
            shift = 1000000 * (1 + list(DENSITY_CONFIGS).index(tag))
            j2['lo'] += shift
            j2['hi'] += shift
            out.append(j2)
    return out
