"""C13 Every documented way of addressing wells selects the documented wells.
Deciding step: complete enumeration of the selector grammar on small plates; plate[selector].get() is
compared (wells by object identity with plate.wells, order, shape, size) with the reference addressing
model; selectors the reference rejects must raise."""
from __future__ import annotations

from .common import shard, run_cases, BASE_ASSUMPTIONS

ID = 'C13'
LEVEL = 'exploration'
DECIDING = ['ADDR']
MIN_EVAL = {'quick': 300000, 'thorough': 4000000}
MIN_MONITOR = {'ADDR.rejected': 50000, 'ADDR.selected': 20000, 'ADDR.labels': 8, 'ADDR.read_through': 2000}
RULE = ('COMPLETE enumeration of the selector grammar for every plate shape up to the bound (quick: all shapes up to 3x3 '
        'and 1x4, 4x1; thorough: up to 4x5 plus custom labelings and a 28-row plate): all index / label / out-of-range / '
        'unknown-label atoms incl. 0 and n+1, all slices over them with steps {None,1,2,3,n+1}, all pairs (tuples) of atoms '
        'and slices, all "row:col" strings, lists of <= 3 singles incl. duplicates (all for <= 2x2, sampled above), the '
        'malformed families (floats, None, 3-tuples, nested tuples, bad strings); evaluations = selectors compared; '
        'non-trivial = a selector the reference accepts that selects >= 1 well; distinct by (plate, selector); steps in '
        '{None,1,2,3,n+1,-1,-2,0}: a zero step must be rejected, a negative step is either rejected or selects backwards with both '
        'end points included (anything else is "selecting something else"); slices of slices: every index / slice / step expression '
        'with indices in [-n-1, n+1] on seven parent selections per plate, against numpy indexing of the parent\'s wells, each on a '
        'fresh parent and on one whose shape and size were read first; a bool is malformed everywhere; the copy and the name of a sub-selection denote its wells; an empty selection is judged by its name only')
ASSUMPTIONS = BASE_ASSUMPTIONS + ['wells are identified by object identity with plate.wells[i, j], not by name',
                                  'any exception counts as rejection']
QUICK_SHAPES = [(1, 1), (1, 2), (2, 1), (2, 2), (1, 3), (3, 1), (2, 3), (3, 2), (3, 3), (1, 4), (4, 1)]
THOROUGH_SHAPES = QUICK_SHAPES + [(2, 4), (4, 2), (3, 4), (4, 3), (4, 4), (3, 5), (4, 5), (5, 4), (1, 6), (6, 1), (2, 5)]


def required_buckets(tier):
    return ['C13/form/int', 'C13/form/label', 'C13/form/string_cell', 'C13/form/slice', 'C13/form/tuple_atom_atom',
            'C13/form/tuple_slice_atom', 'C13/form/tuple_atom_slice', 'C13/form/tuple_slice_slice', 'C13/form/list',
            'C13/form/malformed', 'C13/labels/default', 'C13/labels/custom', 'C13/labels/28rows', 'C13/step/2', 'C13/step/3',
            'C13/open_end', 'C13/step/backwards', 'C13/subslice/looked_at_parent', 'C13/subslice/negative_index', 'C13/labels/callers_list_changed', 'C13/subslice/index_past_the_selection',
            'C13/labels/colon_in_a_label', 'C13/subslice/bool', 'C13/subslice/copy_and_name', 'C13/subslice/name_of_an_empty_selection', 'C13/malformed/bool', 'C13/malformed/nested_tuple']


def plan(tier, seed):
    shapes = QUICK_SHAPES if tier == 'quick' else THOROUGH_SHAPES
    jobs = []
    n = 0
    for sh in shapes:
        for custom in ((False, True) if (tier != 'quick' or sh in ((2, 3), (3, 3), (1, 3))) else (False,)):
            # split the pair space of big shapes over several workers
            parts = 1
            size = (sh[0] + 5) * (sh[1] + 5)
            if size > 60:
                parts = 4 if tier == 'quick' else 8
            for part in range(parts):
                jobs.append({'kind': 'enumerate', 'lo': n, 'hi': n + 1, 'timeout': 1500,
                             'params': {'shape': list(sh), 'custom': custom, 'part': part, 'parts': parts}})
                n += 1
    jobs.append({'kind': 'labels', 'lo': n, 'hi': n + 1, 'params': {}})
    n += 1
    for sh in ([(3, 4), (1, 5), (4, 2)] if tier == 'quick' else [(3, 4), (1, 5), (4, 2), (5, 5), (2, 6), (6, 3)]):
        jobs.append({'kind': 'subslices', 'lo': n, 'hi': n + 1, 'timeout': 1500, 'params': {'shape': list(sh)}})
        n += 1
    return jobs


def run_job(job):
    return run_cases(job, {'enumerate': enumerate_, 'labels': labels, 'subslices': subslices}[job['kind']])


def subslices(rng, case, idx):
    """Slices of slices, completely for small plates: `plate[parent][item]` follows python / numpy indexing relative to the parent
    selection (0-based, end-exclusive, negative indices from the end of the selection, any non-zero step).  The expected wells come
    from applying the same index expression to a numpy grid of the parent's wells.  Every case is run on a fresh parent and on one
    whose shape and size were read first (observers must not change what their argument does)."""
    import itertools
    import numpy
    import pyplate.pyplate as pp
    from pv.monitors import M
    Rn, Cn = case['params']['shape']
    plate = pp.Plate('p', '1 mL', rows=Rn, columns=Cn)
    pos = {id(plate.wells[i, j]): (i, j) for i in range(Rn) for j in range(Cn)}
    parents = [slice(None), (slice(None), slice(None)), (slice(2, None), slice(None)), (slice(None), slice(1, max(1, Cn - 1))),
               (slice(1, None, 2), slice(None)), (slice(None), slice(None, None, 2)), (slice(Rn, 1, -1), slice(None)) if Rn > 1 else slice(None)]
    def vals(n):
        return [None, 0, 1, n - 1, n, n + 1, -1, -2, -n, -n - 1]
    steps = [None, 1, 2, -1]
    for par in parents:
        try:
            base = plate[par]
            cells = [pos[id(w_)] for w_ in base.get().flatten()]
            grid = numpy.arange(len(cells)).reshape(base.get().shape)
        except Exception:
            continue                  # (a backwards parent may be refused)
        h, w = grid.shape
        items = []
        for a, b, c in itertools.product(vals(h), vals(h), steps):
            items.append((slice(a, b, c), slice(None)))
            items.append(slice(a, b, c))
        for a, b, c in itertools.product(vals(w), vals(w), steps):
            items.append((slice(None), slice(a, b, c)))
            items.append((slice(0, 1), slice(a, b, c)))
        for i_, j_ in itertools.product(range(-h - 1, h + 1), range(-w - 1, w + 1)):
            items.append((i_, j_))
        for i_ in range(-h - 1, h + 1):
            items.append(i_)
        for bad in (True, False, (True, 0), (0, True), (slice(None), True), slice(True, None), slice(None, None, True), (slice(None, True), 0)):
            M.count('ADDR')
            M.count('ADDR.rejected')
            M.bucket('C13/subslice/bool')
            try:
                sub_ = plate[par][bad]
                sub_.get()
            except Exception:   # noqa
                continue
            M.violate(['C13', 'C07'], 'ADDR', 'C13:invalid_selector_selects_something:slice_of_slice:bool',
                      {'plate': [Rn, Cn], 'parent': repr(par), 'item': repr(bad), 'name': sub_.name})
        for n_, item in enumerate(items):
            try:
                want = numpy.asarray(grid[item])
                if want.ndim == 0:
                    want = want.reshape(1, 1)
                elif want.ndim == 1:
                    want = want.reshape(1, -1)          # (one row of the selection)
            except IndexError:
                # an index past the selection: refused (as on a plate, or a list selection) - not an empty selection
                M.count('ADDR')
                M.count('ADDR.rejected')
                M.bucket('C13/subslice/index_past_the_selection')
                try:
                    sub_ = plate[par][item]
                    sub_.get()
                except Exception:   # noqa
                    continue
                M.violate(['C13', 'C07'], 'ADDR', 'C13:slice_of_slice_accepts_an_index_past_the_selection',
                          {'plate': [Rn, Cn], 'parent': repr(par), 'item': repr(item), 'name': sub_.name, 'shape': tuple(sub_.shape)})
                continue
            except Exception:
                continue
            exp = [cells[int(k_)] for k_ in want.flatten()]
            if not exp:
                # an empty selection may be refused; one that is accepted is not *named* as wells of the plate (the name is what
                # instruction texts and recipe steps say)
                try:
                    sub_ = plate[par][item]
                    nme = sub_.name
                except Exception:   # noqa
                    continue
                M.count('ADDR')
                M.count('ADDR.named')
                M.bucket('C13/subslice/name_of_an_empty_selection')
                try:
                    named = eval(nme, {'__builtins__': {}}, {'p': plate})
                    n_named = int(numpy.size(named.get()))
                except Exception:   # noqa
                    n_named = 0
                if n_named:
                    M.violate(['C13', 'C19'], 'ADDR', 'C13:name_of_an_empty_selection_denotes_wells', {'plate': [Rn, Cn], 'parent': repr(par), 'item': repr(item), 'name': nme, 'wells_named': n_named})
                continue
            negative = any(isinstance(v_, int) and v_ < 0 for p_ in (item if isinstance(item, tuple) else (item,))
                           for v_ in ((p_.start, p_.stop) if isinstance(p_, slice) else (p_,)))
            for looked in (False, True):
                parent = plate[par]
                if looked:
                    _ = (parent.shape, parent.size)
                    M.bucket('C13/subslice/looked_at_parent')
                M.count('ADDR')
                M.count('ADDR.subslice')
                if negative:
                    M.bucket('C13/subslice/negative_index')
                try:
                    sub_ = parent[item]
                    got = sub_.get()
                    got = got if isinstance(got, numpy.ndarray) else numpy.array([[got]], dtype=object)
                    idx_ = [pos[id(x)] for x in got.flatten()]
                    size, shp = int(sub_.size), tuple(sub_.shape)
                except Exception as e:   # noqa
                    M.violate(['C13', 'C07'] + (['C04'] if looked else []), 'ADDR', 'C13:slice_of_slice_rejected' + (':negative_index' if negative else '') + (':after_reading_shape_of_parent' if looked else ''),
                              {'plate': [Rn, Cn], 'parent': repr(par), 'item': repr(item), 'exc': repr(e)[:160]})
                    continue
                if idx_ != exp:
                    M.violate(['C13', 'C07'], 'ADDR', 'C13:slice_of_slice_selects_other_wells' + (':negative_index' if negative else ''),
                              {'plate': [Rn, Cn], 'parent': repr(par), 'item': repr(item), 'selected': idx_[:10], 'numpy': exp[:10]})
                elif size != len(exp) or (len(shp) == 2 and shp != tuple(want.shape)) or int(numpy.prod(shp)) != len(exp):
                    M.violate(['C13', 'C07'] + (['C04'] if looked else []), 'ADDR', 'C13:slice_of_slice_reports_wrong_shape_or_size' + (':after_reading_shape_of_parent' if looked else ''),
                              {'plate': [Rn, Cn], 'parent': repr(par), 'item': repr(item), 'size': size, 'shape': shp, 'wells': len(exp)})
                else:
                    M.note_nontrivial('C13', ('sub', Rn, Cn, repr(par), repr(item)))
                    if not looked and n_ % 3 == 0:
                        # the copy of a selection selects what the selection selects; its name denotes its wells
                        M.count('ADDR.copy')
                        M.bucket('C13/subslice/copy_and_name')
                        try:
                            cp = sub_.copy().get()
                            cp = cp if isinstance(cp, numpy.ndarray) else numpy.array([[cp]], dtype=object)
                            cidx = [pos[id(x)] for x in cp.flatten()]
                        except Exception as e:   # noqa
                            cidx = repr(e)[:120]
                        if cidx != exp:
                            M.violate(['C13', 'C04'], 'ADDR', 'C13:copy_of_a_slice_of_a_slice_selects_other_wells', {'plate': [Rn, Cn], 'parent': repr(par), 'item': repr(item), 'copy_selects': cidx[:10] if isinstance(cidx, list) else cidx, 'selection': exp[:10]})
                        try:
                            named = eval(sub_.name, {'__builtins__': {}}, {'p': plate}).get()
                            named = named if isinstance(named, numpy.ndarray) else numpy.array([[named]], dtype=object)
                            nidx = sorted(pos[id(x)] for x in named.flatten())
                        except Exception as e:   # noqa
                            nidx = repr(e)[:120]
                        if nidx != sorted(exp):
                            M.violate(['C13', 'C19'], 'ADDR', 'C13:name_of_a_slice_of_a_slice_denotes_other_wells', {'plate': [Rn, Cn], 'parent': repr(par), 'item': repr(item), 'name': sub_.name, 'named': nidx[:10] if isinstance(nidx, list) else nidx, 'selection': sorted(exp)[:10]})


def atoms(labels):
    n = len(labels)
    return list(range(0, n + 2)) + list(labels) + ['ZZ']


def slices(ats, n):
    out = []
    for a in [None] + ats:
        for b in [None] + ats:
            for k in (None, 1, 2, 3, n + 1, -1, -2, 0):
                out.append(slice(a, b, k))
    return out


def form_of(sel):
    if isinstance(sel, bool):
        return 'malformed'
    if isinstance(sel, int):
        return 'int'
    if isinstance(sel, str):
        return 'string_cell' if ':' in sel else 'label'
    if isinstance(sel, slice):
        return 'slice'
    if isinstance(sel, list):
        return 'list'
    if isinstance(sel, tuple) and len(sel) == 2:
        a, b = (isinstance(x, slice) for x in sel)
        ok = all(isinstance(x, (int, str, slice)) and not isinstance(x, bool) for x in sel)
        if not ok:
            return 'malformed'
        return 'tuple_' + ('slice' if a else 'atom') + '_' + ('slice' if b else 'atom')
    return 'malformed'


def compare(plate, pos, sel, M, R, counters, marks=None):
    rows, cols = list(plate.row_names), list(plate.column_names)
    try:
        exp = R.ref_address(rows, cols, sel)
        verdict = 'select'
    except R.Reject:
        verdict = 'reject'
    except R.Unjudged:
        counters['ADDR.unjudged'] += 1
        return
    counters['ADDR'] += 1
    f = form_of(sel)
    counters['form/' + f] += 1
    try:
        sl = plate[sel]
        got = sl.get()
        flat = got.flatten()
        idx = [pos[id(w)] for w in flat]
        shape = tuple(got.shape)
        size = int(sl.size)
        shp2 = tuple(sl.shape)
        err = None
    except Exception as e:   # noqa
        err = e
    if verdict == 'select' and R.has_backwards_step(sel):
        counters['step/backwards'] += 1
        if err is not None:
            counters['ADDR.backwards_refused'] += 1
            return                      # refusing what the documentation does not describe is fine
    if verdict == 'reject':
        counters['ADDR.rejected'] += 1
        if err is None:
            M.violate(['C13'], 'ADDR', f'C13:invalid_selector_selects_something:{f}',
                      {'plate': [len(rows), len(cols)], 'selector': repr(sel), 'selected': idx[:8]})
        return
    counters['ADDR.selected'] += 1
    for part_ in (sel if isinstance(sel, tuple) else (sel,)):
        if isinstance(part_, slice):
            if part_.step in (2, 3):
                counters[f'step/{part_.step}'] += 1
            if part_.start is None or part_.stop is None:
                counters['open_end'] += 1
    eidx, eshape = exp
    if err is not None:
        M.violate(['C13'], 'ADDR', f'C13:documented_selector_rejected:{f}:{type(err).__name__}',
                  {'plate': [len(rows), len(cols)], 'rows': rows[:4], 'selector': repr(sel), 'exc': repr(err)[:200]})
        return
    if idx != eidx:
        M.violate(['C13'], 'ADDR', f'C13:wrong_wells_or_order:{f}',
                  {'plate': [len(rows), len(cols)], 'selector': repr(sel), 'selected': idx[:12], 'documented': eidx[:12]})
    elif shape != tuple(eshape) or size != len(eidx) or shp2 != shape:
        M.violate(['C13'], 'ADDR', f'C13:wrong_shape_or_size:{f}',
                  {'plate': [len(rows), len(cols)], 'selector': repr(sel), 'shape': shape, 'slicer_shape': shp2, 'size': size,
                   'documented_shape': eshape})
    elif marks is not None and counters['ADDR.selected'] % 7 == 0:
        # what is read *through* the selection comes from the documented wells, in the documented order
        import numpy
        counters['ADDR.read_through'] += 1
        try:
            vols = numpy.asarray(sl.get_volumes(unit='uL'), dtype=float)
            subs_ = sl.get_substances()
            one = marks[eidx[0]]
            mol1 = numpy.asarray(sl.get_moles(one, 'umol'), dtype=float)
        except Exception as e:   # noqa
            M.violate(['C13'], 'ADDR', f'C13:reading_through_a_documented_selection_raised:{f}:{type(e).__name__}',
                      {'selector': repr(sel), 'exc': repr(e)[:200]})
            return
        ncols = len(cols)
        want_v = [float(i_ * ncols + j_ + 1 + 1) for (i_, j_) in eidx]
        want_s = {marks[ij].name for ij in eidx} | {'H2O'}
        got_s = {x.name for x in subs_}
        want_m = [round(1e-3 / (100.0 + (i_ * ncols + j_)) * 1e6, 6) if (i_, j_) == eidx[0] else 0.0 for (i_, j_) in eidx]
        bad = None
        if tuple(vols.shape) != tuple(eshape) or [round(x, 3) for x in vols.flatten()] != [round(x, 3) for x in want_v]:
            bad = ('get_volumes', vols.flatten().tolist()[:8], want_v[:8])
        elif got_s != want_s:
            bad = ('get_substances', sorted(got_s)[:8], sorted(want_s)[:8])
        elif tuple(mol1.shape) != tuple(eshape) or [x_ > 0 for x_ in mol1.flatten()] != [x_ > 0 for x_ in want_m]:
            # (amounts are reported at the display precision: which wells hold the marker is what is compared)
            bad = ('get_moles', mol1.flatten().tolist()[:8], want_m[:8])
        if bad:
            M.violate(['C13'], 'ADDR', f'C13:reading_through_selection_reads_other_wells:{bad[0]}:{f}',
                      {'plate': [len(rows), len(cols)], 'selector': repr(sel), 'got': bad[1], 'documented': bad[2]})


def enumerate_(rng, case, idx):
    import collections
    import itertools
    import pyplate.pyplate as pp
    from pv import refmodel as R
    from pv.monitors import M
    P = case['params']
    Rn, Cn = P['shape']
    custom = P['custom']
    part, parts = P['part'], P['parts']
    rows = [f'r{i}' for i in range(Rn)] if custom else Rn
    cols = [f'k{j}x' for j in range(Cn)] if custom else Cn
    plate = pp.Plate('p', '1 mL', rows=rows, columns=cols)
    # every well is marked: its own volume of water ((k+1) uL) and its own marker substance, so that whatever is read
    # *through* a selection tells which wells the selection reads
    water = pp.Substance.liquid('H2O', 18.0153, 1)
    marks = {}
    for i in range(Rn):
        for j in range(Cn):
            k_ = i * Cn + j
            mk = pp.Substance.solid(f'mark{k_}', 100.0 + k_)
            marks[(i, j)] = mk
            src_ = pp.Container('src', initial_contents=[(water, f'{k_ + 1} uL'), (mk, '1 mg')])
            _, plate = pp.Plate.transfer(src_, plate[i + 1, j + 1], f'{k_ + 1 + 1} uL')
    pos = {id(plate.wells[i, j]): (i, j) for i in range(Rn) for j in range(Cn)}
    rl, cl = list(plate.row_names), list(plate.column_names)
    ra, ca = atoms(rl), atoms(cl)
    rs, cs = slices(ra, Rn), slices(ca, Cn)
    counters = collections.Counter()
    M.bucket('C13/labels/' + ('custom' if custom else 'default'))

    def go(sel):
        compare(plate, pos, sel, M, R, counters, marks)

    axis_r = ra + rs
    axis_c = ca + cs
    if part == 0:
        for a in axis_r:
            go(a)
        for a in ra:
            go((a,))
        for s in rs[:50]:
            go((s,))
        for a in ra:
            for b in ca:
                go(f'{a}:{b}')
        for bad in ('A:1:2', ':', 'A:', ':1', '', ' ', 'A,1', 'A1'):
            go(bad)
        # lists of singles
        singles = [(a, b) for a in ra for b in ca] + [f'{a}:{b}' for a in rl + ['ZZ'] for b in cl + ['ZZ']]
        if Rn * Cn <= 4:
            for k in (1, 2):
                for combo in itertools.product(singles, repeat=k):
                    go(list(combo))
            for combo in [rng.sample(singles, 3) for _ in range(3000)]:
                go(list(combo))
        else:
            for e in singles:
                go([e])
            for _ in range(6000):
                k = rng.choice([2, 3])
                go([rng.choice(singles) for _ in range(k)])
        # malformed families
        for bad in (1.0, 2.5, None, (1, 2, 3), ((1, 1), 1), (1, (1, 1)), (None, 1), (1, None), (1.0, 1), (1, 1.5),
                    [1], ['A'], [(1, 2, 3)], [1.0], [None], {'A': 1}, (slice(None), slice(None), slice(None)), (), b'A:1',
                    (slice(1.0, 2), 1), (slice(None, None, 1.5), 1), slice(1.5, None), slice(None, 2.5),
                    # booleans (ints to Python, not indices) anywhere; a single wrapped in one more tuple
                    True, False, (True, True), (True, 1), (1, True), (False, 1), (slice(None), True), (True, slice(None)), [(True, 1)], [(1, True)],
                    slice(True, None), slice(None, True), slice(None, None, True), (slice(True, None), 1), (1, slice(None, None, True)),
                    [((1, 1),)], [((1, 1),), 'A:1'], [(('A', '1'),)], [(1,)], [((1, 1), (1, 1))]):
            go(bad)
            if bad is True or (isinstance(bad, list) and bad and isinstance(bad[0], tuple) and len(bad[0]) == 1):
                M.bucket('C13/malformed/' + ('bool' if bad is True else 'nested_tuple'))
    # the pair space, split over the parts
    n = 0
    for a in axis_r:
        n += 1
        if n % parts != part:
            continue
        for b in axis_c:
            go((a, b))
    with M.active(case):
        pass
    for k, v in counters.items():
        if k.startswith('form/') or k.startswith('step/') or k == 'open_end':
            M.bucket('C13/' + k, v)
        else:
            M.count(k, v)
    M.note_nontrivial('C13', ('plate', Rn, Cn, custom, part))
    # distinct non-trivial selectors: measured count (selectors the reference accepts), added by hash of (plate, ordinal)
    sel_n = counters['ADDR.selected']
    for i in range(min(sel_n, 3000)):
        M.note_nontrivial('C13', ('sel', Rn, Cn, custom, part, i))
    M.sample('C13', {'plate': [Rn, Cn], 'custom_labels': custom, 'part': f'{part + 1}/{parts}',
                     'selectors_compared': counters['ADDR'], 'rejected_by_reference': counters['ADDR.rejected'],
                     'selecting': counters['ADDR.selected'], 'unjudged': counters['ADDR.unjudged'],
                     'examples': ['plate[1]', "plate['A':'B', 2:]", "plate['A:1']", "plate[[(1, 1), 'B:2']]"]}, cap=6)
    return None


def labels(rng, case, idx):
    """Default row/column labels and the well naming convention, incl. rows beyond 'Z'."""
    import pyplate.pyplate as pp
    from pv import refmodel as R
    from pv.monitors import M
    # the labelling given at construction stays: what the caller does to their own lists afterwards changes nothing
    rws, cls = ['ctrl', 'low', 'high'], ['x', 'y']
    pl = pp.Plate('p', '1 mL', rows=rws, columns=cls)
    pos_ = {id(pl.wells[i, j]): (i, j) for i in range(3) for j in range(2)}
    for change in ('sort', 'reverse', 'append', 'rename'):
        {'sort': lambda: (rws.sort(), cls.sort()), 'reverse': lambda: (rws.reverse(), cls.reverse()), 'append': lambda: (rws.append('more'), cls.append('z')),
         'rename': lambda: (rws.__setitem__(0, 'other'), cls.__setitem__(0, 'w'))}[change]()
        M.count('ADDR.labels')
        M.bucket('C13/labels/callers_list_changed')
        try:
            got_ = {sel: [pos_[id(w_)] for w_ in pl[sel].get().flatten()] for sel in ('low', 'ctrl', 'high')}
            gotc = [pos_[id(w_)] for w_ in pl[:, 'y'].get().flatten()]
        except Exception as e:   # noqa
            got_, gotc = repr(e)[:120], None
        want_ = {'ctrl': [(0, 0), (0, 1)], 'low': [(1, 0), (1, 1)], 'high': [(2, 0), (2, 1)]}
        if got_ != want_ or gotc != [(0, 1), (1, 1), (2, 1)]:
            M.violate(['C13', 'C04'], 'ADDR', f'C13:labels_follow_the_callers_list:{change}', {'got': got_, 'column_y': gotc, 'documented': want_})
            break
    # a label that reads like the 'row:column' form: either the plate is refused where it is made, or the label selects what
    # its index selects
    M.count('ADDR.labels')
    M.bucket('C13/labels/colon_in_a_label')
    try:
        pc = pp.Plate('dilutions', '100 uL', rows=['1', '1:2', '1:4', '1:8'], columns=6)
    except Exception:   # noqa
        pc = None
    if pc is not None:
        posc = {id(pc.wells[i, j]): (i, j) for i in range(4) for j in range(6)}
        for lab, k_ in (('1:2', 2), ('1:4', 3), ('1:8', 4)):
            try:
                by_label = [posc[id(w_)] for w_ in pc[lab].get().flatten()]
            except Exception as e:   # noqa
                by_label = repr(e)[:80]
            by_index = [posc[id(w_)] for w_ in pc[k_].get().flatten()]
            if by_label != by_index:
                M.violate(['C13'], 'ADDR', 'C13:a_label_selects_other_wells_than_its_index:colon_in_the_label', {'label': lab, 'index': k_, 'by_label': by_label, 'by_index': by_index[:3]})
                break
    for Rn, Cn in ((1, 1), (8, 12), (16, 24), (26, 2), (27, 2), (28, 3), (53, 1), (703, 1)):
        plate = pp.Plate('p', '1 mL', rows=Rn, columns=Cn)
        M.count('ADDR.labels')
        er, ec = R.default_row_labels(Rn), R.default_col_labels(Cn)
        if list(plate.row_names) != er or list(plate.column_names) != ec:
            M.violate(['C13'], 'ADDR', 'C13:default_labels_wrong', {'shape': [Rn, Cn], 'rows': list(plate.row_names)[-3:], 'expected': er[-3:]})
        for i in (0, Rn - 1):
            for j in (0, Cn - 1):
                if plate.wells[i, j].name != f'well {er[i]},{ec[j]}':
                    M.violate(['C13'], 'ADDR', 'C13:well_name_wrong', {'well': [i, j], 'name': plate.wells[i, j].name})
        if Rn >= 27:
            M.bucket('C13/labels/28rows')
            import collections
            counters = collections.Counter()
            pos = {id(plate.wells[i, j]): (i, j) for i in range(Rn) for j in range(Cn)}
            for sel in ('AA', 'AB' if Rn >= 28 else 'AA', ('AA', 1), 'AA:1', slice('Z', 'AA'), (slice('Y', None), 1), 27, (27, Cn),
                        slice(26, None), 'Z', ('Z', slice(None))):
                compare(plate, pos, sel, M, R, counters)
            M.count('ADDR', counters['ADDR'])


def finalize(m, tier):
    shapes = QUICK_SHAPES if tier == 'quick' else THOROUGH_SHAPES
    return {'coverage': {'exhaustive': m['watchdog'] == 0 and not m['errors'],
                         'exhaustive_over': f'all atoms x slices x pairs of the selector grammar for the plate shapes {shapes} '
                                            '(lists of singles: all of length <= 2 for plates of <= 4 wells, sampled otherwise)',
                         'selectors_enumerated': int(m['counters'].get('ADDR', 0)),
                         'unjudged_outside_grammar': int(m['counters'].get('ADDR.unjudged', 0))}}
