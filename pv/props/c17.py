"""C17 remove deletes exactly the selected substances.
Deciding monitor: REMOVE (selected set by the reference: substance equality or class membership; survivors
bit-identical; volume = reduced sum) on containers, whole plates and slices (via WELLWISE + nested REMOVE),
and the trash link in recipes (amount a remove step took out = what tracking reports as discarded)."""
from __future__ import annotations

from .common import under_display_configs, shard, run_cases, BASE_ASSUMPTIONS, repo_suite, repo_suite_job

ID = 'C17'
LEVEL = 'exploration'
DECIDING = ['REMOVE', 'TRASHLINK']
MIN_EVAL = {'quick': 3000, 'thorough': 60000}
MIN_MONITOR = {'REMOVE': 2000, 'WELLWISE.remove': 150, 'TRASHLINK': 100}
RULE = ('mixtures of solids, liquids and enzymes reached by histories; every present substance, an absent substance and '
        'each of the three classes as selector; containers, whole plates and slices (partial removal where the substance '
        'stays elsewhere on the plate); inside recipes the discarded amounts are compared with get_substance_used and '
        'get_container_flows; evaluations = REMOVE evaluations (one per container or well) + trash-link comparisons; '
        'non-trivial = the selector hit something in a mixture of >= 2 substances; distinct by (where, selector, contents)')
ASSUMPTIONS = BASE_ASSUMPTIONS


def required_buckets(tier):
    req = []
    for where in ('container', 'well'):
        for k in ('class:solid', 'class:liquid', 'class:enzyme', 'substance:solid', 'substance:liquid', 'substance:enzyme'):
            req.append(f'C17/{where}/{k}/hit')
    req += ['C17/container/substance:', 'C17/recipe/container', 'C17/recipe/plate_part', 'C17/recipe/plate_whole', 'C17/recipe/remove_chain/plate']
    return req


def plan(tier, seed):
    jobs = _plan(tier, seed)
    # a fraction of the budget under other documented configurations (display units / precisions, storage units with
    # unequal prefixes)
    jobs = jobs + under_display_configs(shard('history', 20, 2) + shard('recipe', 12, 1) if tier == 'quick' else shard('history', 300, 8) + shard('recipe', 200, 4))
    if tier != 'quick' or False:
        jobs = jobs + repo_suite_job()
    return jobs


def _plan(tier, seed):
    if tier == 'quick':
        return shard('history', 200, 8) + shard('recipe', 120, 4)
    return shard('history', 5000, 24) + shard('recipe', 3000, 12)


def run_job(job):
    if job['kind'] == 'repo_suite':
        return run_cases(job, repo_suite)
    return run_cases(job, history if job['kind'] == 'history' else recipe)


def history(rng, case, idx):
    from pv.gen import World
    from pv import refmodel as R
    w = World(rng, case)
    w.check_aliasing = False
    w.populate(n_containers=rng.randint(2, 4), n_plates=rng.randint(1, 2))
    weights = {'cc': 3, 'cp': 4, 'pc': 1, 'pp': 2, 'remove': 6, 'fill': 2, 'observe': 0, 'newc': 1}
    for _ in range(rng.randint(10, 30)):
        w.history_step(weights)
    # every selector on every live object
    for name in list(w.objs):
        for what in list(w.subs) + [R.SOLID, R.LIQUID, R.ENZYME]:
            if rng.random() < 0.5:
                keep = w.objs[name]
                w.remove(target=name, what=what)
                w.objs[name] = keep       # probe only: the history continues from the unremoved state


def recipe(rng, case, idx):
    from pv.recipes import run_recipe_case
    run_recipe_case(rng, case, idx, focus='remove')


# --------------------------------------------------------------------------------------------------
# directed edge workloads shared between several checks (pv/edges.py)

_plan_without_edges, _run_job_without_edges = plan, run_job
_required_without_edges = globals().get('required_buckets')


def required_buckets(tier):
    return (list(_required_without_edges(tier)) if _required_without_edges else []) + [ID + '/edge/']


def plan(tier, seed):
    from .common import edges_jobs
    return _plan_without_edges(tier, seed) + edges_jobs(tier)


def run_job(job):
    if job['kind'] == 'edges':
        from pv.edges import edges
        from .common import run_cases
        return run_cases(job, edges)
    return _run_job_without_edges(job)
