"""C18 Answers in user units do not depend on the internal storage configuration.
Deciding step: the cross-configuration differ.  The same seeded scripts (direct scenarios and recipes with a
fixed battery of observations in user-chosen units, instruction amounts, tracking queries, per-step
accept/refuse) are executed in one process per configuration; every answer is compared with the shipped
configuration's answer.  All universal monitors stay on in every configuration."""
from __future__ import annotations

from .common import BASE_ASSUMPTIONS

ID = 'C18'
LEVEL = 'exploration'
DECIDING = ['C18.compare']
MIN_EVAL = {'quick': 20000, 'thorough': 600000}
MIN_MONITOR = {}
RULE = ('seeded scripts over the public API built from round-number menus (so that no request lies near a decision '
        'boundary): containers, transfers in L/g/mol/U, create_solution (pure and container solvent), create_solution_from, '
        'dilute, fill_to, remove, plate broadcasts and slices, then a recipe of the same vocabulary with stages and every '
        'tracking query; each script is run under every configuration of the tier (quick: 5 storage-unit pairs incl. both '
        'unprefixed units x internal_precision {10, 12}; thorough: all 16 pairs (x {10, 12} on the five quick pairs) in three fixed contexts) and '
        'every answer (volumes, moles, masses, concentrations in several units, instruction amounts, tracking answers, '
        'accept/refuse per step) is compared with the shipped configuration; evaluations = answers compared; non-trivial = '
        'a numeric answer != 0 compared under a configuration that differs from the shipped one; distinct by (script, answer, '
        'configuration)')
ASSUMPTIONS = BASE_ASSUMPTIONS + [
    'tolerance = resolution of the coarser configuration (10^-internal_precision of its storage unit) converted to the '
    'answer\'s unit x number of operations + one display quantum for display-rounded answers',
    'display units (moles_display_unit, volume_display_unit) are held fixed: only storage settings vary']
MOL = ['nmol', 'umol', 'mmol', 'mol']
VOL = ['nL', 'uL', 'mL', 'L']
QUICK_PAIRS = [('umol', 'uL'), ('mol', 'L'), ('mmol', 'mL'), ('nmol', 'L'), ('mol', 'nL')]
CONTEXTS = {
    'shipped': {},
    'dense': {'default_solid_density': 2.5, 'default_enzyme_density': 50},
    'display': {'precisions': {'default': 5, 'uL': 2, 'umol': 3, 'mg': 2}},
}


def cfgname(c):
    return f"{c['moles_storage_unit']}/{c['volume_storage_unit']}/p{c['internal_precision']}"


def configs(tier):
    out = []
    if tier == 'quick':
        for m, v in QUICK_PAIRS:
            for p in (10, 12):
                out.append(('shipped', {'moles_storage_unit': m, 'volume_storage_unit': v, 'internal_precision': p}))
    else:
        for ctx in CONTEXTS:
            for m in MOL:
                for v in VOL:
                    for p in ((10, 12) if (m, v) in QUICK_PAIRS else (10,)):
                        out.append((ctx, {'moles_storage_unit': m, 'volume_storage_unit': v, 'internal_precision': p}))
    return out


def required_buckets(tier):
    req = [f'C18/config/{m}/{v}/' for m, v in QUICK_PAIRS]
    req += ['C18/answer/volume', 'C18/answer/concentration', 'C18/answer/moles', 'C18/answer/mass', 'C18/answer/decision',
            'C18/answer/tracking', 'C18/answer/instruction', 'C18/answer/step_dataframe']
    return req


def plan(tier, seed):
    nprog = 120 if tier == 'quick' else 1500
    batch = 40 if tier == 'quick' else 100
    jobs = []
    n = 0
    cfgs = configs(tier)
    ctxs = sorted({c for c, _ in cfgs})
    for ctx, st in cfgs:
        # programs are split between contexts; within a context every storage variant runs the same programs
        lo0 = ctxs.index(ctx) * nprog
        for lo in range(0, nprog, batch):
            over = dict(CONTEXTS[ctx])
            over.update(st)
            jobs.append({'kind': 'scripts', 'lo': lo0 + lo, 'hi': lo0 + min(lo + batch, nprog), 'timeout': 1500,
                         'config': over, 'config_expect': st, 'params': {'ctx': ctx, 'cfg': cfgname(st)}})
    return jobs


def run_job(job):
    from .common import run_cases
    return run_cases(job, script)


# --------------------------------------------------------------------------------------------------

def script(rng, case, idx):
    """One script; -> {'idx', 'ctx', 'cfg', 'answers': [[label, kind, unit, nops, value], ...]}.
    Everything is drawn from rng and fixed menus only - never from the library's state - so that the script
    is identical under every configuration."""
    import numpy
    import random
    import pyplate.pyplate as pp
    from pv.monitors import M
    from pv import instr as I
    from pv import refmodel as R
    # rng is seeded by (VERIF_SEED, property, kind, idx): the same under every configuration
    S, C, P = pp.Substance, pp.Container, pp.Plate
    water = S.liquid('H2O', 18.0153, 1)
    dmso = S.liquid('DMSO', 78.13, 1.1004)
    salt = S.solid('NaCl', 58.4428)
    sulf = S.solid('Na2SO4', 142.04)
    lip = S.enzyme('lipase', '10 U/mg')
    subs = [water, dmso, salt, sulf, lip]
    ans = []
    nops = [0]
    RQ = 10.0 ** (-pp.config.internal_precision)

    def rec(label, kind, unit, value):
        if isinstance(value, numpy.ndarray):
            value = value.tolist()
        ans.append([label, kind, unit, nops[0], value])

    def uq(q, k):
        """the menu value scaled by a factor unique to this step, so that no two requests of a script coincide
        (no request then sits exactly on a boundary created by an earlier one)"""
        v, u = q.split(' ')
        return f'{float(v) * (1 + 0.0137 * (k + 1)):.6g} {u}'

    def attempt(label, fn):
        nops[0] += 1
        try:
            r = fn()
            rec(label + '.decision', 'decision', None, 'ok')
            return r
        except Exception as e:   # noqa
            rec(label + '.decision', 'decision', None, exc_name(e))
            return None

    def observe(label, c):
        if c is None:
            return
        try:
            observe_(label, c)
        except Exception as e:   # noqa  - an observer that crashes under this configuration is itself an answer
            rec(label + '.observer_crashed', 'decision', None, exc_name(e))

    def observe_(label, c):
        if isinstance(c, C):
            for u in ('uL', 'mL', 'L'):
                rec(f'{label}.volume.{u}', 'volume', u, c.get_volume(u))
            for s in (salt, sulf, dmso, lip):
                if s in c.contents:
                    for u in (('M', 'g/L', 'mg/g', 'mol/mol') if not s.is_enzyme() else ('U/mL', 'U/g')):
                        # resolution of this answer under this configuration: one storage quantum of the solute, and of
                        # the container's volume, relative to what the container holds (+ the observer's own rounding)
                        amt = abs(c.contents.get(s, 0.0))
                        vol = abs(c.volume)
                        # (an amount stored as 0 is anything below half a quantum of this configuration: nothing is resolved)
                        relres = (RQ / amt if amt > 0 else 1.0) + (RQ / vol if vol > 0 else 0.0)
                        # (the observers and the solution builders upstream keep what the storage units resolve: there is no
                        # further quantum in moles or litres since fix 'convert_from_storage keeps what the storage unit
                        # resolves')
                        rec(f'{label}.conc.{s.name}.{u}', 'concentration', u, [c.get_concentration(s, u), relres])
            line = (c.instructions or '').splitlines()[-1] if c.instructions else ''
            toks = I.tokens(line)
            if toks:
                v, p, b, _ = toks[0]
                rec(f'{label}.instruction', 'instruction', p + b, v)
        else:
            rec(f'{label}.volumes.uL', 'volume_display', 'uL', c.get_volumes(unit='uL'))
            rec(f'{label}.volumes.mL', 'volume_display', 'mL', c.get_volumes(unit='mL'))
            rec(f'{label}.plate_volume.uL', 'volume_display', 'uL', float(c.get_volume('uL')))
            for s in (salt, dmso):
                rec(f'{label}.moles.{s.name}.umol', 'moles_display', 'umol', c.get_moles(s, 'umol'))
                rec(f'{label}.moles.{s.name}.mmol', 'moles_display', 'mmol', c.get_moles(s, 'mmol'))
                rec(f'{label}.volumes.{s.name}.uL', 'volume_display', 'uL', c.get_volumes(s, 'uL'))      # (was get_volumes(s, 'mg') until 16bec4f: a volume is not answered in mg)

    with M.active(case):
        stock = attempt('stock', lambda: C('stock', '1 L', [(water, '200 mL'), (salt, f'{rng.choice([2, 5, 10])} g')]))
        buf = attempt('buf', lambda: C('buf', initial_contents=[(dmso, f'{rng.choice([20, 50])} mL'), (sulf, '1.5 g'), (lip, f'{rng.choice([5, 40])} U')]))
        empty = attempt('empty', lambda: C('empty', '52.3 mL'))
        dilu = attempt('dilu', lambda: C('dilu', initial_contents=[(water, '150 mL'), (salt, f'{rng.choice([0.1, 0.25])} g'), (dmso, '2 mL')]))
        plate = attempt('plate', lambda: P('plate', '306.7 uL', rows=2, columns=3))
        observe('stock', stock)
        observe('buf', buf)
        objs = {'stock': stock, 'buf': buf, 'empty': empty, 'dilu': dilu}
        for step in range(rng.randint(6, 14)):
            k = rng.choice(['cc', 'cc', 'cp', 'pc', 'solution', 'solution_c', 'from', 'from_c', 'dilute', 'fill', 'remove', 'pfill', 'premove', 'pp'])
            lab = f's{step}.{k}'
            names = [n for n, o in objs.items() if o is not None]
            if k == 'cc' and len(names) >= 2:
                a, b = rng.sample(names, 2)
                q = uq(rng.choice(['1 mL', '250 uL', '0.5 g', '2 mmol', '0.001 L', '300 mg', '5 mL', '1 U', '0.2 U', '100 mL', '900 mL']), step)
                r = attempt(lab, lambda: C.transfer(objs[a], objs[b], q))
                if r:
                    objs[a], objs[b] = r
                    observe(lab + '.src', r[0])
                    observe(lab + '.dst', r[1])
            elif k == 'cp' and plate is not None and names:
                a = rng.choice(names)
                sel = rng.choice([None, 1, 'B', (slice(None), 2), (1, 1), 'A:3', (slice(1, 2), slice(2, 3))])
                q = uq(rng.choice(['10 uL', '25 uL', '0.02 mL', '5 mg', '30 umol', '400 uL']), step)
                r = attempt(lab, lambda: P.transfer(objs[a], plate if sel is None else plate[sel], q))
                if r:
                    objs[a], plate = r
                    observe(lab + '.plate', plate)
            elif k == 'pc' and plate is not None and names:
                b = rng.choice(names)
                sel = rng.choice([1, 'B', (slice(None), 2), (1, 1)])
                q = uq(rng.choice(['1 uL', '2 uL', '0.5 uL', '100 uL']), step)
                r = attempt(lab, lambda: C.transfer(plate[sel], objs[b], q))
                if r:
                    plate, objs[b] = r
                    observe(lab + '.dst', r[1])
            elif k == 'pp' and plate is not None:
                r = attempt(lab, lambda: P.transfer(plate[1, :], plate[2, :], uq(rng.choice(['1 uL', '3 uL', '200 uL']), step)))
                if r:
                    plate = r[1]
                    observe(lab + '.plate', plate)
            elif k == 'solution':
                solute = rng.choice([salt, sulf, lip])
                kw = {'concentration': rng.choice(['0.5 M', '10 g/L', '2 %w/w', '5 mg/mL']) if not solute.is_enzyme() else rng.choice(['2 U/mL', '100 U/g']),
                      'total_quantity': rng.choice(['20 mL', '5 g', '10 mL'])}
                r = attempt(lab, lambda: C.create_solution(solute, rng.choice([water, dmso]), f'sol{step}', **kw))
                if r:
                    objs[f'sol{step}'] = r
                    observe(lab, r)
            elif k == 'solution_c' and objs.get('stock') is not None:
                kw = {'concentration': rng.choice(['0.1 M', '5 g/L', '1 %w/w', '0.05 mol/kg']), 'total_quantity': rng.choice(['10 mL', '8 g', '0.3 mol'])}
                r = attempt(lab, lambda: C.create_solution(sulf, objs['stock'], f'solc{step}', **kw))
                if r:
                    objs['stock'], objs[f'solc{step}'] = r
                    observe(lab, r[1])
                    observe(lab + '.solvent', r[0])
            elif k == 'from' and objs.get('stock') is not None:
                r = attempt(lab, lambda: C.create_solution_from(objs['stock'], salt, rng.choice(['0.05 M', '1 g/L', '0.1 %w/w']), water,
                                                                rng.choice(['10 mL', '5 g', '0.2 mol']), f'dil{step}'))
                if r:
                    objs['stock'], objs[f'dil{step}'] = r
                    observe(lab, r[1])
            elif k == 'from_c' and objs.get('stock') is not None and objs.get('dilu') is not None:
                # a diluent container that already holds some of the solute
                r = attempt(lab, lambda: C.create_solution_from(objs['stock'], salt, rng.choice(['0.05 M', '2 g/L', '0.2 %w/w']), objs['dilu'],
                                                                uq(rng.choice(['10 mL', '5 g', '0.3 mol']), step), f'dilc{step}'))
                if r:
                    objs['stock'], objs['dilu'], objs[f'dilc{step}'] = r
                    observe(lab, r[2])
                    observe(lab + '.diluent', r[1])
            elif k == 'dilute' and objs.get('stock') is not None:
                r = attempt(lab, lambda: objs['stock'].dilute(salt, rng.choice(['0.02 M', '0.5 g/L', '0.01 mol/kg', '3 M']), water))
                if r:
                    objs['stock'] = r
                    observe(lab, r)
            elif k == 'fill' and names:
                a = rng.choice(names)
                r = attempt(lab, lambda: objs[a].fill_to(rng.choice([water, dmso]), uq(rng.choice(['400 mL', '45 mL', '300 g', '20 mol', '1 mL']), step)))
                if r:
                    objs[a] = r
                    observe(lab, r)
            elif k == 'remove' and names:
                a = rng.choice(names)
                r = attempt(lab, lambda: objs[a].remove(rng.choice([salt, 2, 1, 3, dmso])))
                if r:
                    objs[a] = r
                    observe(lab, r)
            elif k == 'pfill' and plate is not None:
                sel = rng.choice([None, 1, (slice(None), 3)])
                r = attempt(lab, lambda: (plate if sel is None else plate[sel]).fill_to(water, uq(rng.choice(['150 uL', '250 uL', '0.1 g', '5 uL']), step)))
                if r:
                    plate = r
                    observe(lab, plate)
            elif k == 'premove' and plate is not None:
                r = attempt(lab, lambda: plate[rng.choice([1, 2])].remove(rng.choice([2, salt, 1])))
                if r:
                    plate = r
                    observe(lab, plate)
        # ---------------- requests that need nothing: exactly feasible, so accepted under every configuration (the decision is
        #                  recorded like every other one; with a heavy solute one stored digit is worth most)
        heavy = pp.Substance.solid('IgG', rng.choice([150000.0, 66000.0, 507.18]))
        made_at = rng.choice(['0.5 mg/mL', '50 ug/mL', '5 mg/mL', '1 mg/mL'])
        st_ = attempt('nothing.stock', lambda: C.create_solution(heavy, water, concentration=made_at, total_quantity='1.5 mL'))
        if st_ is not None:
            wellp = P('np', '100 uL', rows=1, columns=2)
            got_ = attempt('nothing.dispense', lambda: P.transfer(st_, wellp['A:1'], '20 uL'))
            if got_ is not None:
                attempt('nothing.top_up_to_the_volume_just_dispensed', lambda: got_[1].fill_to(water, '20 uL'))
            attempt('nothing.solution_from_at_the_concentration_it_was_made_with', lambda: C.create_solution_from(st_, heavy, made_at, water, '0.5 mL'))
            attempt('nothing.dilute_to_the_concentration_it_was_made_with', lambda: st_.dilute(heavy, made_at, water))
        # ---------------- a recipe over the same vocabulary with every tracking query
        nops[0] += 1
        r = pp.Recipe()
        a = C('ra', '1 L', [(water, '100 mL'), (salt, '3 g'), (lip, '20 U')])
        b = C('rb', '500 mL')
        pl = P('rp', '300 uL', rows=2, columns=2)
        pq = P('rq', '300 uL', rows=2, columns=2)
        try:
            r.uses(a, b, pl, pq)
            r.start_stage('one')
            r.transfer(a, b, rng.choice(['10 mL', '5 g', '0.3 mol']))
            r.transfer(a, pl, rng.choice(['20 uL', '15 mg', '1 mmol']))
            r.end_stage('one')
            made = r.create_solution(sulf, rng.choice([water, a]), name='made', concentration=rng.choice(['0.2 M', '4 g/L']), total_quantity='12 mL')
            r.start_stage('two')
            # (into the first or the second row: with the second, the first well of the plate never holds what 'made' brings)
            r.transfer(made, pl[rng.choice([1, 2]), :], rng.choice(['5 uL', '10 uL']))
            r.fill_to(b, water, rng.choice(['40 mL', '60 g']))
            r.dilute(a, salt, rng.choice(['0.1 M', '2 g/L']), water)
            r.remove(pl[2, :], rng.choice([salt, 2]))
            d2 = r.create_solution_from(a, salt, '0.01 M', water, '5 mL', name='d2')
            r.transfer(d2, pl[(1, 1)], '3 uL')
            r.end_stage('two')
            # a stage that only moves material between the plates: with the plates as destinations nothing enters or leaves
            r.start_stage('move')
            r.transfer(pl[1, :], pq[rng.choice([1, 2]), :], rng.choice(['3 uL', '5 uL', '1.3 uL']))
            r.remove(pq[:, 2], rng.choice([salt, 2]))
            r.end_stage('move')
            res = r.bake()
            rec('recipe.decision', 'decision', None, 'ok')
        except Exception as e:   # noqa
            rec('recipe.decision', 'decision', None, exc_name(e))
            res = None
        if res is not None:
            nops[0] += 12
            for nme in ('ra', 'rb', 'made', 'd2'):
                observe('recipe.' + nme, res[nme])
            observe('recipe.rp', res['rp'])
            for s, u in ((salt, 'umol'), (water, 'uL'), (sulf, 'umol'), (lip, 'U')):
                try:
                    v = r.get_substance_used(s, 'move', u)
                except Exception as e:   # noqa
                    v = exc_name(e)
                rec(f'recipe.used.{s.name}.move.{u}.plates_closed', 'tracking', u, v)
            for tf in ('all', 'one', 'two'):
                for s, u in ((salt, 'mmol'), (salt, 'mg'), (water, 'mL'), (sulf, 'umol'), (lip, 'U')):
                    for dests, dl in (('plates', 'plates'), ([b], 'rb'), ([a, b, pl, made, d2], 'all'), ([a], 'ra_which_only_gives')):
                        try:
                            v = r.get_substance_used(s, tf, u, dests)
                        except Exception as e:   # noqa
                            v = exc_name(e)
                        rec(f'recipe.used.{s.name}.{tf}.{u}.{dl}', 'tracking', u, v)
                for o, on in ((a, 'ra'), (b, 'rb'), (pl, 'rp'), (made, 'made')):
                    for u in ('mL', 'mg', 'umol', 'U'):
                        try:
                            f = r.get_container_flows(o, tf, u)
                            rec(f'recipe.flows.{on}.{tf}.{u}.in', 'tracking', u, numpy.asarray(f['in']).tolist())
                            rec(f'recipe.flows.{on}.{tf}.{u}.out', 'tracking', u, numpy.asarray(f['out']).tolist())
                        except Exception as e:   # noqa
                            rec(f'recipe.flows.{on}.{tf}.{u}', 'tracking', u, exc_name(e))
                        for mode in ('before', 'after'):
                            try:
                                v = r.get_amount_remaining(o, tf, u, mode)
                                rec(f'recipe.remaining.{on}.{tf}.{u}.{mode}', 'tracking_raw', u, numpy.asarray(v).tolist() if v is not None else None)
                            except Exception as e:   # noqa
                                rec(f'recipe.remaining.{on}.{tf}.{u}.{mode}', 'tracking_raw', u, exc_name(e))
            # RecipeStep.dataframe values (container destination, one substance)
            try:
                st = r.steps[0]
                df = st.dataframe(data_source='destination', substance=salt, unit='umol')
                rec('recipe.step0.dataframe.salt.umol', 'step_dataframe', 'umol', float(df.iloc[0, 0]))
                df = st.dataframe(data_source='source', substance=water, unit='mL', mode='delta')
                rec('recipe.step0.dataframe.water.mL.delta', 'step_dataframe', 'mL', float(df.iloc[0, 0]))
            except Exception as e:   # noqa
                rec('recipe.step0.dataframe', 'step_dataframe', 'umol', exc_name(e))
            for k_, stp in enumerate(r.steps):
                toks = I.tokens(stp.instructions or '')
                if toks:
                    v, p, b_, _ = toks[-1]
                    rec(f'recipe.step{k_}.instruction', 'instruction', p + b_, v)
    P_ = case.get('params') or {}
    M.bucket(f'C18/config/{P_.get("cfg")}')
    return {'idx': idx, 'ctx': P_.get('ctx'), 'cfg': P_.get('cfg'), 'answers': ans}


# --------------------------------------------------------------------------------------------------

KIND_BUCKET = {'volume': 'volume', 'volume_display': 'volume', 'concentration': 'concentration', 'moles_display': 'moles',
               'mass_display': 'mass', 'decision': 'decision', 'tracking': 'tracking', 'tracking_raw': 'tracking',
               'instruction': 'instruction', 'step_dataframe': 'step_dataframe'}
DISPLAY = {'default': 3, 'uL': 0, 'umol': 1, 'mg': 1}


def resolution(cfg, unit):
    """One storage quantum of configuration `cfg` (name m/v/pN) expressed in `unit` (worst case over the
    substances of the scripts: MW <= 150 g/mol, 1 umol ~ 0.15 mg ~ 0.08 uL)."""
    from pv import refmodel as R
    m, v, p = cfg.split('/')
    q = 10.0 ** (-int(p[1:]))
    # storage quanta (the operations upstream keep what the storage units resolve)
    qmol = q * R.PREFIX[m[:-3]]      # mol
    qvol = q * R.PREFIX[v[:-1]]      # L
    try:
        pf, base = R.split_unit(unit)
    except Exception:
        return max(qmol, qvol) * 1e3
    if base == 'L':
        return (qvol + qmol * 0.15) / R.PREFIX[pf]
    if base == 'mol':
        return (qmol + qvol * 60.0) / R.PREFIX[pf]      # 1 L of water ~ 55 mol
    if base == 'g':
        return (qmol * 150.0 + qvol * 1200.0) / R.PREFIX[pf]
    return (qmol + qvol) * 1e4 / R.PREFIX[pf]


def exc_name(e):
    """A refusal is a refusal: numpy's LinAlgError (a singular system in a solve) is a ValueError, and which of the two a
    degenerate request meets depends on rounding - the recorded decision is the class the property speaks of."""
    return 'ValueError' if isinstance(e, ValueError) else type(e).__name__


def coarse_floor(cfg, nops):
    """Relative floor of the comparison under a coarse storage configuration: the scripts handle volumes down to
    0.5 uL and amounts down to 0.1 umol, each of which is stored to 10^-precision *storage units* (1e-10 L under
    `volume_storage_unit: L`); every operation upstream of an answer may carry that relative error."""
    from pv import refmodel as R
    m_, v_, p_ = cfg.split('/')
    q = 10.0 ** (-int(p_[1:]))
    return nops * (q * R.PREFIX[v_[:-1]] / 5e-7 + q * R.PREFIX[m_[:-3]] / 1e-7)


def finalize(m, tier):
    import hashlib
    import numpy
    by = {}
    for ex in m['extras']:
        for r in ex.get('returns') or []:
            by.setdefault((r['ctx'], r['idx']), {})[r['cfg']] = r['answers']
    violations = []
    compared = 0
    nontrivial = set()
    samples = []
    buckets = m['buckets']
    base_cfg = 'umol/uL/p10'
    for (ctx, idx), per in sorted(by.items()):
        if base_cfg not in per:
            continue
        base = per[base_cfg]
        for cfg, answers in per.items():
            if cfg == base_cfg:
                continue
            if len(answers) != len(base) or any(a[0] != b[0] for a, b in zip(answers, base)):
                # a different accept/refuse decision changes the shape of the script's record
                first = next((i for i, (a, b) in enumerate(zip(answers, base)) if a[0] != b[0] or (a[1] == 'decision' and a[4] != b[4])),
                             min(len(answers), len(base)) - 1)
                firstdec = next((i for i, (a, b) in enumerate(zip(answers, base)) if a[1] == 'decision' and a[4] != b[4]), None)
                j = firstdec if firstdec is not None else first
                violations.append(viol(f'C18:decision_depends_on_storage_configuration:{base[j][0].split(".")[-2] if "." in base[j][0] else base[j][0]}',
                                       ctx, idx, cfg, base[j], answers[j] if j < len(answers) else None))
                continue
            for a, b in zip(answers, base):
                label, kind, unit, nops, va = a
                vb = b[4]
                compared += 1
                buckets[f'C18/answer/{KIND_BUCKET.get(kind, kind)}'] += 1
                if kind in ('tracking', 'tracking_raw') and isinstance(unit, str) and unit.endswith('g'):
                    buckets['C18/answer/mass'] += 1      # (masses are asked of the tracking queries: a plate has no per-well mass observer)
                ok = True
                if isinstance(va, str) or isinstance(vb, str) or va is None or vb is None:
                    ok = va == vb
                    if 'plates_closed' in label and 'ValueError' in (va, vb):
                        ok = False          # nothing enters or leaves the plates in that stage: 0 under every configuration
                    elif not ok and kind == 'tracking' and '.used.' in label and 'ValueError' in (va, vb):
                        # noise zone of get_substance_used: a true answer of zero may come out as a rounding-sized net
                        # decrease (ValueError) under one configuration and as 0.0 under the other
                        other = vb if va == 'ValueError' else va
                        if isinstance(other, (int, float)):
                            prec = DISPLAY.get(unit, DISPLAY['default']) if ctx != 'display' else 5
                            ok = abs(other) <= (resolution(cfg, unit or '') + resolution(base_cfg, unit or '')) * 4 * (nops + 2) + 10.0 ** (-prec)
                else:
                    xa, xb = numpy.asarray(va, dtype=float), numpy.asarray(vb, dtype=float)
                    if kind == 'instruction':
                        # compare the physical amount: the readable prefix may differ at a rescaling boundary
                        from pv import refmodel as R
                        pa_, _ = R.split_unit(a[2])
                        pb_, _ = R.split_unit(b[2])
                        xa, xb = xa * R.PREFIX[pa_], xb * R.PREFIX[pb_]
                        coarse = max(R.PREFIX[pa_], R.PREFIX[pb_])
                        prec_i = min(DISPLAY.get(a[2], DISPLAY['default']), DISPLAY.get(b[2], DISPLAY['default'])) if ctx != 'display' else 2
                        ok = bool(abs(xa - xb) <= coarse * 10.0 ** (-prec_i) * 1.000001 + (1e-7 + coarse_floor(cfg, nops + 2)) * abs(xb))
                        if not ok:
                            violations.append(viol('C18:answer_depends_on_storage_configuration:instruction', ctx, idx, cfg, b, a))
                        continue
                    if xa.shape != xb.shape:
                        ok = False
                    else:
                        tol = (resolution(cfg, unit or '') + resolution(base_cfg, unit or '')) * 4 * (nops + 2)
                        if kind == 'volume':
                            # get_volume rounds to the internal precision in the *output* unit
                            tol += 2 * 10.0 ** (-min(int(cfg.split('/')[2][1:]), 10))
                        if kind == 'concentration':
                            # [value, relative resolution under that configuration]
                            rel = 8 * (nops + 2) * (xa[1] + xb[1]) + 1e-7
                            xa, xb = xa[:1], xb[:1]
                            m_, v_, p_ = cfg.split('/')
                            tol = rel * numpy.abs(xb) + 4 * 10.0 ** (-min(int(p_[1:]), 10))
                        if label.endswith('.plate_volume.uL'):
                            tol = tol * 6 + 1.000001      # a sum of six wells, rounded to the display precision once
                        if kind in ('volume_display', 'moles_display', 'mass_display', 'tracking', 'instruction', 'step_dataframe'):
                            prec = DISPLAY.get(unit, DISPLAY['default']) if ctx != 'display' else {'default': 5, 'uL': 2, 'umol': 3, 'mg': 2}.get(unit, 5)
                            tol = tol + 10.0 ** (-prec) * 1.000001
                        ok = bool(numpy.all(numpy.abs(xa - xb) <= tol + (1e-7 + coarse_floor(cfg, nops + 2)) * numpy.abs(xb)))
                        if bool(numpy.any(xb != 0)):
                            nontrivial.add(hashlib.blake2b(f'{ctx}:{idx}:{label}:{cfg}'.encode(), digest_size=8).hexdigest())
                if not ok:
                    violations.append(viol(f'C18:answer_depends_on_storage_configuration:{KIND_BUCKET.get(kind, kind)}:{label.split(".")[-2] if kind != "decision" else "decision"}',
                                           ctx, idx, cfg, b, a))
                elif len(samples) < 4 and kind in ('concentration', 'tracking') and not isinstance(va, str) and va:
                    samples.append({'script': idx, 'context': ctx, 'answer': label, 'unit': unit, 'shipped_umol_uL': vb, cfg: va})
    m['counters']['C18.compare'] = compared
    m['nontrivial']['C18'] = nontrivial
    # keep the report readable: at most 40 violations, grouped by mechanism
    seen = {}
    out = []
    for v in violations:
        seen[v['mech']] = seen.get(v['mech'], 0) + 1
        if seen[v['mech']] <= 3:
            out.append(v)
    return {'violations': out, 'samples': samples,
            'coverage': {'scripts': len(by), 'configurations': sorted({c for per in by.values() for c in per}),
                         'answers_compared': compared, 'violation_mechanisms': seen}}


def viol(mech, ctx, idx, cfg, base, other):
    return {'props': ['C18'], 'monitor': 'XCFG', 'mech': mech,
            'detail': {'script': idx, 'context': ctx, 'configuration': cfg, 'shipped_answer': base, 'answer': other},
            'case': {'kind': 'scripts', 'idx': idx, 'params': {'ctx': ctx, 'cfg': cfg}}, 'seq': 0, 'tail': []}


# --------------------------------------------------------------------------------------------------
# directed edge workloads shared between several checks (pv/edges.py)

_plan_without_edges, _run_job_without_edges = plan, run_job
_required_without_edges = globals().get('required_buckets')


def required_buckets(tier):
    return (list(_required_without_edges(tier)) if _required_without_edges else []) + [ID + '/edge/']


def plan(tier, seed):
    from .common import edges_jobs
    return _plan_without_edges(tier, seed) + edges_jobs(tier)


def run_job(job):
    if job['kind'] == 'edges':
        from pv.edges import edges
        from .common import run_cases
        return run_cases(job, edges)
    return _run_job_without_edges(job)
