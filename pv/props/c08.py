"""C08 Baking a recipe equals performing its steps eagerly, in order.
Deciding step: the bake-vs-eager differ over generated programs (same JSON-like program through the Recipe
API and through the direct operations on the current values), the key set, "no effect before bake", the
agreement on feasibility, and the prefix-bake ledger (state after step k does not depend on later steps)."""
from __future__ import annotations

from .common import under_display_configs, shard, run_cases, BASE_ASSUMPTIONS

ID = 'C08'
LEVEL = 'exploration'
DECIDING = ['C08.compare', 'C08.prefix_state']
MIN_EVAL = {'quick': 600, 'thorough': 20000}
MIN_MONITOR = {'C08.compare': 250, 'ledger.built': 150}
RULE = ('programs of 3-12 steps over 1-4 containers and 1-3 small plates with arbitrary interleavings over shared objects '
        '(sources drawn from before being used as solvents, recipe-created containers used later, dilute with and without '
        'a new name, 0-4 stages, ~10 % programs whose last step is infeasible); evaluations = programs compared + per-step '
        'prefix states compared; non-trivial = >= 3 steps and >= 1 object touched by >= 2 steps; distinct by program')
ASSUMPTIONS = BASE_ASSUMPTIONS + ['the direct operations are trusted here (they are the subject of C01-C07, C11, C12, C17)',
                                  'known finding KF05: recipe fill_to on part of a plate fills the whole plate first']
KINDS = ['transfer', 'remove', 'fill_to', 'create_container', 'dilute', 'solution', 'solution_from']


def required_buckets(tier):
    return [f'C08/step/{k}' for k in KINDS] + ['C08/outcome/both_ok', 'C08/outcome/eager=ValueError/bake=ValueError']


def plan(tier, seed):
    if tier == 'quick':
        return shard('program', 320, 14) + shard('witness', 1, 1) + under_display_configs(shard('program', 30, 2))
    return shard('program', 9000, 40) + shard('witness', 1, 1) + under_display_configs(shard('program', 800, 8))


def run_job(job):
    return run_cases(job, program if job['kind'] == 'program' else witness)


def program(rng, case, idx):
    from pv.recipes import run_recipe_case
    run_recipe_case(rng, case, idx)


def witness(rng, case, idx):
    from pv.recipes import kf05_witness
    kf05_witness(rng, case)


# --------------------------------------------------------------------------------------------------
# directed edge workloads shared between several checks (pv/edges.py)

_plan_without_edges, _run_job_without_edges = plan, run_job
_required_without_edges = globals().get('required_buckets')


def required_buckets(tier):
    return (list(_required_without_edges(tier)) if _required_without_edges else []) + [ID + '/edge/']


def plan(tier, seed):
    from .common import edges_jobs
    return _plan_without_edges(tier, seed) + edges_jobs(tier)


def run_job(job):
    if job['kind'] == 'edges':
        from pv.edges import edges
        from .common import run_cases
        return run_cases(job, edges)
    return _run_job_without_edges(job)
