"""C19 Instructions and human-readable quantities state the true amounts.
Deciding monitor: INSTR (instruction lines parsed back with a tolerant token parser and compared with the
actual deltas at the displayed precision) on every container produced by the workloads, the rescaling
helpers checked directly over 16 decades, and the instruction of every baked recipe step."""
from __future__ import annotations

from .common import under_display_configs, shard, run_cases, BASE_ASSUMPTIONS, repo_suite, repo_suite_job

ID = 'C19'
LEVEL = 'exploration'
DECIDING = ['INSTR.transfer', 'INSTR.ctor', 'INSTR.fill_to', 'INSTR.dilute', 'INSTR.create_solution',
            'INSTR.create_solution_from', 'INSTR.rescale', 'INSTR.recipe_step', 'INSTR.dataframe']
MIN_EVAL = {'quick': 10000, 'thorough': 200000}
MIN_MONITOR = {'INSTR.transfer': 3000, 'INSTR.ctor': 800, 'INSTR.fill_to': 200, 'INSTR.dilute': 50,
               'INSTR.create_solution': 50, 'INSTR.create_solution_from': 30, 'INSTR.rescale': 2000,
               'INSTR.recipe_step': 200}
RULE = ('every container produced by histories with magnitudes from 0.1 nL to 100 L (solids-only and enzyme-only sources '
        'included): the new instruction text must name the right objects and contain a "<number> <unit>" token equal to '
        'the actual amount added / transferred / filled within half a unit of the configured display precision of that '
        'unit; get_human_readable_unit and convert_from_storage_to_standard_format over 16 decades; instructions of baked '
        'recipe steps vs the ledger delta; evaluations = instruction texts + helper calls checked; non-trivial = a text '
        'whose amount matched a non-zero delta; distinct by text')
ASSUMPTIONS = BASE_ASSUMPTIONS + ['rewording is free: only names and <number> <unit> tokens are read']


def required_buckets(tier):
    req = ['C19/transfer/liquid/', 'C19/transfer/no_liquid/', 'C19/fill_to/', 'C19/dilute/', 'C19/ctor/ok',
           'C19/create_solution/ok', 'C19/create_solution_from/ok', 'C19/rescale/', 'C19/dataframe/ok']
    for mag in ('1e-10', '1e-8', '1e-6', '1e-4', '1e-2', '1e0', '1e1'):
        req.append(f'C19/transfer/liquid/{mag}')
    req += ['C19/recipe/transfer', 'C19/recipe/fill_to', 'C19/recipe/dilute', 'C19/create_solution/container_solvent/',
            'C19/plate_transfer_source_named/1->N', 'C19/plate_transfer_source_named/N->1', 'C19/plate_transfer_source_named/N->N']
    return req


def plan(tier, seed):
    jobs = _plan(tier, seed)
    if tier != 'quick' or False:
        jobs = jobs + repo_suite_job()
    return jobs


def _plan(tier, seed):
    if tier == 'quick':
        return (shard('history', 200, 8) + shard('rescale', 4, 2) + shard('recipe', 100, 3) + fill_pattern_jobs(2) + shard('plate_forms', 60, 2)
                + under_display_configs(shard('history', 30, 2) + shard('rescale', 1, 1) + shard('recipe', 20, 2)))
    return (shard('history', 5000, 24) + shard('rescale', 40, 4) + shard('recipe', 3000, 12) + fill_pattern_jobs(4) + shard('plate_forms', 1200, 4)
            + under_display_configs(shard('history', 500, 8) + shard('rescale', 4, 2) + shard('recipe', 300, 6)))


def fill_pattern_jobs(parts):
    return [{'kind': 'fill_patterns', 'lo': 9000000 + p_, 'hi': 9000000 + p_ + 1, 'timeout': 900, 'params': {'part': p_, 'parts': parts}}
            for p_ in range(parts)]


def fill_patterns(rng, case, idx):
    from pv.recipes import fill_pattern_cases
    fill_pattern_cases(rng, case, idx)


def plate_forms(rng, case, idx):
    """(round 17) Directed: every pairing form of a transfer between two plates - one to many, many to one, element-wise - on
    random geometries and regions, so that the universal check 'the line a destination well gains names the source plate and
    well' (handlers.HPlateTransfer) sees each form many times, not only when a random history happens to produce it."""
    import pyplate.pyplate as pp
    from pv.monitors import M
    water = pp.Substance.liquid('H2O', 18.0153, 1)
    dmso = pp.Substance.liquid('DMSO', 78.13, 1.1004)
    with M.active(case):
        ra, ca, rb, cb = rng.randint(2, 4), rng.randint(2, 5), rng.randint(2, 4), rng.randint(2, 5)
        a = pp.Plate(rng.choice(['stocks', 'source', 'mother']), '1 mL', rows=ra, columns=ca)
        b = pp.Plate(rng.choice(['pool', 'assay', 'daughter']), '1 mL', rows=rb, columns=cb)
        src = pp.Container('src', initial_contents=[(water, '50 mL'), (dmso, '5 mL')])
        src, a = pp.Plate.transfer(src, a, f'{rng.randint(100, 400)} uL')
        q = f'{rng.choice([5, 12.5, 30, 0.75])} uL'
        form = ('1->N', 'N->1', 'N->N')[idx % 3]
        if form == '1->N':
            frm, to = a[rng.randint(1, ra), rng.randint(1, ca)], rng.choice([b, b[1], b[:, cb], b[1:2, 1:2]])
        elif form == 'N->1':
            frm, to = rng.choice([a[:, 1], a[ra], a[1:2, 1:2]]), b[rng.randint(1, rb), rng.randint(1, cb)]
        else:
            h, w = rng.randint(1, min(ra, rb)), rng.randint(1, min(ca, cb))
            frm, to = a[1:h, 1:w], b[rb - h + 1:rb, cb - w + 1:cb]
        try:
            pp.Plate.transfer(frm, to, q)
            M.note_nontrivial('C19', ('plate_forms', form, ra, ca, rb, cb, q))
        except ValueError:
            pass


def run_job(job):
    if job['kind'] == 'repo_suite':
        return run_cases(job, repo_suite)
    return run_cases(job, {'history': history, 'rescale': rescale, 'recipe': recipe, 'fill_patterns': fill_patterns,
                           'plate_forms': plate_forms}[job['kind']])


def history(rng, case, idx):
    from pv.gen import World
    from pv.props.c04 import extra_ops
    w = World(rng, case)
    w.check_aliasing = False
    # wide range of magnitudes: vessel scale from 1e-9 L to 100 L
    for _ in range(rng.randint(2, 4)):
        w.add_container(n_subs=rng.choice([1, 2, 3]), scale=10 ** rng.uniform(-8.5, 2), capacity=None)
    # solids-only and enzyme-only sources
    solids = [s for s in w.subs if s.is_solid()]
    enz = [s for s in w.subs if s.is_enzyme()]
    import pyplate.pyplate as pp
    from pv.gen import spell
    from pv.monitors import M
    with M.active(case):
        if solids:
            w.objs['solidsonly'] = pp.Container('solidsonly', initial_contents=[
                (s, spell(rng, 10 ** rng.uniform(-7, 2), 'g')) for s in rng.sample(solids, min(2, len(solids)))])
        if enz:
            w.objs['enzonly'] = pp.Container('enzonly', initial_contents=[(enz[0], spell(rng, 10 ** rng.uniform(-3, 4), 'U'))])
    w.add_plate()
    weights = {'cc': 8, 'cp': 3, 'pc': 2, 'pp': 2, 'remove': 0, 'fill': 3, 'observe': 0, 'newc': 1}
    from pv import instr as I
    for _ in range(rng.randint(10, 30)):
        if rng.random() < 0.25:
            extra_ops(w)
        else:
            w.history_step(weights)
        if rng.random() < 0.3:
            # the human-readable table of a live container or well
            o = w.objs[rng.choice(list(w.objs))]
            if isinstance(o, pp.Plate):
                o = o.wells[rng.randrange(o.wells.shape[0]), rng.randrange(o.wells.shape[1])]
            if isinstance(o, pp.Container):
                with M.active(case):
                    I.check_dataframe(o)


def rescale(rng, case, idx):
    """The rescaling helpers never change the physical amount they denote."""
    import pyplate.pyplate as pp
    from pv import refmodel as R
    from pv.monitors import M
    from pv.gen import make_substances
    U = pp.Unit
    cf = R.cfg()
    subs = make_substances(rng, 6)
    with M.active(case):
        c = pp.Container('c')
    for _ in range(1500):
        mag = 10 ** rng.uniform(-12, 4)
        x = mag * rng.choice([1, 1, 1, -1]) if rng.random() < 0.1 else mag
        unit = rng.choice(['L', 'mL', 'uL', 'mol', 'mmol', 'umol', 'g', 'mg', 'U'])
        p, b = R.split_unit(unit)
        M.count('INSTR.rescale')
        try:
            v, u = U.get_human_readable_unit(x, unit)
            p2, b2 = R.split_unit(u)
            # documented contract: value is given in `unit`'s base dimension; the helper drops the prefix of the
            # unit argument (callers pass base units) - judge with base-unit inputs only
            if p == '':
                ok = b2 == b and abs(v * R.PREFIX[p2] - x) <= 1e-9 * abs(x)      # (the sign is part of the amount)
                if not ok:
                    M.violate(['C19'], 'INSTR', 'C19:get_human_readable_unit_changes_amount',
                              {'input': [x, unit], 'output': [v, u]})
                else:
                    M.note_nontrivial('C19', ('hr', x, unit))
            M.bucket('C19/rescale/get_human_readable_unit/' + (f'1e{int(__import__("math").floor(__import__("math").log10(mag)))}'))
        except Exception as e:   # noqa
            M.violate(['C19'], 'INSTR', f'C19:get_human_readable_unit_raised:{type(e).__name__}', {'input': [x, unit]})
        # storage -> standard format
        s = rng.choice(subs)
        stored = 10 ** rng.uniform(-9, 9)
        M.count('INSTR.rescale')
        try:
            v, u = U.convert_from_storage_to_standard_format(s, stored)
            p2, b2 = R.split_unit(u)
            want_base = 'U' if s.is_enzyme() else 'g' if s.is_solid() else 'L'
            exp = R.canon(s, stored) * R.per(s, want_base)
            ok = b2 == want_base and abs(v * R.PREFIX[p2] - exp) <= 1e-9 * abs(exp) + cf.q * R.PREFIX[p2]
            if not ok:
                M.violate(['C19'], 'INSTR', f'C19:standard_format_changes_amount:{R.kind(s)}',
                          {'substance': s.name, 'stored': stored, 'output': [v, u], 'expected_base': exp})
            else:
                M.note_nontrivial('C19', ('sf', s.name, stored))
            M.bucket('C19/rescale/standard_format/' + R.kind(s))
            v, u = U.convert_from_storage_to_standard_format(c, stored)
            p2, b2 = R.split_unit(u)
            exp = stored * cf.vol_prefix
            if not (b2 == 'L' and abs(v * R.PREFIX[p2] - exp) <= 1e-9 * abs(exp) + cf.q * R.PREFIX[p2]):
                M.violate(['C19'], 'INSTR', 'C19:standard_format_changes_amount:container',
                          {'stored': stored, 'output': [v, u], 'expected_L': exp})
        except Exception as e:   # noqa
            M.violate(['C19'], 'INSTR', f'C19:standard_format_raised:{type(e).__name__}', {'stored': stored})


def recipe(rng, case, idx):
    from pv.recipes import run_recipe_case
    run_recipe_case(rng, case, idx, focus='instructions')


# --------------------------------------------------------------------------------------------------
# directed edge workloads shared between several checks (pv/edges.py)

_plan_without_edges, _run_job_without_edges = plan, run_job
_required_without_edges = globals().get('required_buckets')


def required_buckets(tier):
    return (list(_required_without_edges(tier)) if _required_without_edges else []) + [ID + '/edge/']


def plan(tier, seed):
    from .common import edges_jobs
    return _plan_without_edges(tier, seed) + edges_jobs(tier)


def run_job(job):
    if job['kind'] == 'edges':
        from pv.edges import edges
        from .common import run_cases
        return run_cases(job, edges)
    return _run_job_without_edges(job)
