"""C07 Plate operations act well-by-well on exactly the addressed wells.
Deciding monitor: WELLWISE (each addressed well = the same operation on a stand-alone container with that
well's contents; addressed set from the reference addressing model), LOCAL (other wells bit-identical),
the shape rule (1->N, N->1, equal shapes; anything else rejected); directly and as recipe steps."""
from __future__ import annotations

from .common import under_display_configs, shard, run_cases, BASE_ASSUMPTIONS, repo_suite, repo_suite_job

ID = 'C07'
LEVEL = 'exploration'
DECIDING = ['WELLWISE.transfer', 'WELLWISE.remove', 'WELLWISE.fill_to', 'WELLWISE.recipe_step']
MIN_EVAL = {'quick': 3000, 'thorough': 60000}
MIN_MONITOR = {'WELLWISE.well': 10000, 'LOCAL': 5000, 'WELLWISE.remove': 150, 'WELLWISE.fill_to': 150}
RULE = ('plate-heavy histories on plates 1x1..4x6 (thorough: up to 8x12), default and custom labels, every selector form, '
        'non-uniform well contents reached by earlier dispensings, every operation (transfer in/out/plate<->plate incl. '
        'same plate with disjoint regions, remove by substance and class, fill_to in L/g/mol) directly and as recipe '
        'steps; complete enumeration of rectangle x rectangle shape pairings on two small plates for the shape rule; '
        'evaluations = plate-level operations checked; non-trivial = >= 2 addressed wells with pairwise different '
        'contents (or slice->slice) and >= 1 non-addressed well; distinct by (operation, addressed wells, argument, contents)')
ASSUMPTIONS = BASE_ASSUMPTIONS + ['the stand-alone Container operation itself is trusted here (it is the subject of C01-C03, C11, C17)']


def required_buckets(tier):
    req = []
    for f in ('C->N', 'N->C', '1->N', 'N->1', 'N->N'):
        req.append(f'C07/transfer/{f}/')
    req += ['C07/transfer/N->N/same_plate/', 'C07/transfer/illegal/', 'C07/shape_rule/illegal_refused',
            'C07/remove/part/', 'C07/remove/whole/', 'C07/remove/list/', 'C07/fill_to/part/', 'C07/fill_to/whole/',
            'C07/recipe/transfer', 'C07/recipe/remove', 'C07/recipe/fill_to']
    return req


def plan(tier, seed):
    jobs = _plan(tier, seed)
    # a fraction of the budget under other documented configurations (display units / precisions, storage units with
    # unequal prefixes)
    jobs = jobs + under_display_configs(shard('history', 20, 2) + shard('recipe', 12, 1) if tier == 'quick' else shard('history', 300, 8) + shard('recipe', 200, 4))
    if tier != 'quick' or False:
        jobs = jobs + repo_suite_job()
    # (round 17) the directed family about plates of the same name that are not the declared plate (pv/edges.py E26): a step
    # declared on such a plate's rows would be replayed on other wells of the declared one
    for j in shard('edges', 4 if tier == 'quick' else 60, 1):
        j['params'] = {'only': [25]}
        jobs.append(j)
    return jobs


def _plan(tier, seed):
    if tier == 'quick':
        return shard('history', 200, 8) + shard('shapes', 4, 4) + shard('recipe', 120, 3) + shard('witness', 1, 1)
    return (shard('history', 5000, 32, big=True) + shard('shapes', 24, 8, big=True) + shard('recipe', 3000, 12)
            + shard('witness', 1, 1))


def run_job(job):
    if job['kind'] == 'edges':
        from pv.edges import edges
        return run_cases(job, edges)
    if job['kind'] == 'repo_suite':
        return run_cases(job, repo_suite)
    fn = {'history': history, 'shapes': shapes, 'witness': witness, 'recipe': recipe}[job['kind']]
    return run_cases(job, fn)


def history(rng, case, idx):
    from pv.gen import World
    big = (case.get('params') or {}).get('big')
    w = World(rng, case, max_plate=(8, 12) if (big and rng.random() < 0.1) else (4, 6))
    w.check_aliasing = False
    w.populate(n_containers=rng.randint(2, 3), n_plates=rng.randint(2, 3))
    weights = {'cc': 1, 'cp': 5, 'pc': 4, 'pp': 7, 'remove': 3, 'fill': 4, 'observe': 0, 'newc': 0, 'kept': 3}
    for _ in range(rng.randint(10, 30)):
        w.history_step(weights)


def shapes(rng, case, idx):
    """All rectangle x rectangle pairings between two small plates: legal ones (1->N, N->1, equal shape)
    must be carried out well by well, every other combination must be rejected."""
    import itertools
    import pyplate.pyplate as pp
    from pv.gen import World, spell
    from pv.monitors import M
    from pv import refmodel as R
    big = (case.get('params') or {}).get('big')
    w = World(rng, case)
    w.check_aliasing = False
    w.add_container(name='src', capacity=None, n_subs=3, scale=0.1)
    dims = [(2, 3), (3, 2), (1, 4), (3, 3)] if not big else [(2, 3), (3, 2), (1, 4), (3, 3), (4, 2), (2, 2), (1, 1), (4, 1)]
    da = dims[idx % len(dims)]
    db = dims[(idx // len(dims) + idx + 1) % len(dims)]
    pa = w.add_plate(name='pa', shape=da, capacity='200 uL', custom_labels=False)
    pb = w.add_plate(name='pb', shape=db, capacity='200 uL', custom_labels=(idx % 2 == 1))
    for _ in range(3):
        w.transfer_cp(mode='feasible', dst='pa', src='src')
        w.transfer_cp(mode='feasible', dst='pb', src='src')
    pa, pb = w.objs['pa'], w.objs['pb']

    def rects(shape):
        Rn, Cn = shape
        for r0 in range(Rn):
            for r1 in range(r0, Rn):
                for c0 in range(Cn):
                    for c1 in range(c0, Cn):
                        yield (r0, r1, c0, c1)
    pairs = list(itertools.product(rects(da), rects(db)))
    if len(pairs) > 900:
        pairs = rng.sample(pairs, 900)
    vol = min(R.measure(x.contents, 'L') for x in pa.wells.flatten())
    q = spell(rng, vol * 0.01 if vol > 0 else 1e-9, 'L')
    for (a, b) in pairs:
        ssel = (slice(a[0] + 1, a[1] + 1), slice(a[2] + 1, a[3] + 1))
        dsel = (slice(pb.row_names[b[0]], pb.row_names[b[1]]), slice(pb.column_names[b[2]], pb.column_names[b[3]]))
        with M.active(case):
            try:
                pp.Plate.transfer(pa[ssel], pb[dsel], q)
            except Exception:
                pass
    M.sample('C07', {'shape_rule_enumeration': {'plate_a': da, 'plate_b': db, 'pairs_tried': len(pairs)}})


def witness(rng, case, idx):
    """Directed witnesses of the recorded finding row 6 (list slices)."""
    import pyplate.pyplate as pp
    from pv.monitors import M
    S, C, P = pp.Substance, pp.Container, pp.Plate
    water = S.liquid('H2O', 18.0153, 1)
    src = C('src', initial_contents=[(water, '10 mL')])
    with M.active(case):
        p = P('p', '500 uL', rows=2, columns=3)
        q = P('q', '500 uL', rows=2, columns=3)
        _, p = P.transfer(src, p, '100 uL')
        for call in (lambda: P.transfer(p[['A:1', 'B:2']], q[['A:2', 'B:3']], '10 uL'),     # element-wise lists
                     lambda: P.transfer(p[['A:1']], q[1, :], '10 uL'),                          # one-element list 1->N
                     lambda: P.transfer(p[1, :], q[['B:2']], '10 uL')):                         # N -> one-element list
            try:
                call()
            except Exception:
                pass


def recipe(rng, case, idx):
    from pv.recipes import run_recipe_case
    run_recipe_case(rng, case, idx, focus='plates')
