"""C11 dilute and fill_to reach their target by adding only solvent.
Deciding monitors: DILUTE and FILL (postconditions by the reference model on the result: requested
concentration in the requested unit / requested total; every non-solvent amount bit-identical; solvent not
decreased; capacity respected), requests generated constructively so that feasibility is known."""
from __future__ import annotations

from .common import under_display_configs, shard, run_cases, BASE_ASSUMPTIONS, repo_suite, repo_suite_job

ID = 'C11'
LEVEL = 'exploration'
DECIDING = ['DILUTE', 'FILL']
MIN_EVAL = {'quick': 3000, 'thorough': 80000}
MIN_MONITOR = {'DILUTE': 1200, 'FILL': 1200}
RULE = ('containers reached by histories (binary and multi-component, solvent present or absent, enzymes as bystanders, '
        'solid and liquid solutes); dilute requests built constructively: choose the solvent amount to add, compute the '
        'target concentration of the resulting reference mixture in a random numerator/denominator pair and spelling '
        '(incl. M, m, percent forms), request it - the call must be accepted and hit the target; boundary probes at '
        'current*(1 +- 1e-3); fill_to in L/g/mol with and without a limiting capacity; evaluations = DILUTE + FILL '
        'postcondition evaluations; non-trivial = solvent actually added; distinct by (composition class, unit pair, '
        'request, contents)')
ASSUMPTIONS = BASE_ASSUMPTIONS + ['dilution of enzyme solutes is excluded (the library declares it unsupported)',
                                  'fill_to with a solvent that has no measure in the target unit must be refused (former known finding KF03, repaired 91d2819)']
PAIRS = [('mol', 'L'), ('g', 'L'), ('g', 'g'), ('mol', 'mol'), ('mol', 'g'), ('L', 'L'), ('g', 'mol'), ('L', 'g'), ('L', 'mol')]


def required_buckets(tier):
    req = []
    for comp in ('binary', 'multi', 'binary+enz', 'solute_only'):
        req.append(f'C11/dilute/{comp}/')
    for n, d in PAIRS:
        req.append(f'C11/dilute/binary/{n}/{d}/')
    for u in ('L', 'g', 'mol'):
        req.append(f'C11/fill_to/{u}/')
    req += ['C03/dilute/infeasible:above_current/refused', 'C03/dilute/infeasible:capacity/refused',
            'C03/fill_to/L/infeasible:capacity/refused', 'C11/fill_to/solvent_kind/enzyme', 'C11/fill_to/solvent_kind/solid', 'C11/second_lot_of_an_enzyme']
    return req


def plan(tier, seed):
    jobs = _plan(tier, seed)
    # a fraction of the budget under other documented configurations (display units / precisions, storage units with
    # unequal prefixes)
    jobs = jobs + under_display_configs(shard('constructive', 40, 2) if tier == 'quick' else shard('constructive', 1000, 8))
    if tier != 'quick' or False:
        jobs = jobs + repo_suite_job()
    return jobs


def _plan(tier, seed):
    if tier == 'quick':
        return shard('constructive', 400, 10) + shard('plates', 80, 4)
    return shard('constructive', 12000, 32) + shard('plates', 2000, 12)


def plates(rng, case, idx):
    """fill_to on plates, slices, slices of slices and list selections: each addressed well is filled as a stand-alone
    container would be, by adding only the solvent, and no other well changes."""
    from pv.gen import World
    from pv.monitors import M
    w = World(rng, case)
    w.check_aliasing = False
    w.populate(n_containers=rng.randint(1, 2), n_plates=rng.randint(1, 2))
    M.bucket('C11/plates')
    for _ in range(rng.randint(6, 16)):
        w.history_step({'cp': 3, 'fill': 8, 'pc': 1, 'remove': 1})


def run_job(job):
    if job['kind'] == 'repo_suite':
        return run_cases(job, repo_suite)
    return run_cases(job, plates if job['kind'] == 'plates' else constructive)


def spell_conc(rng, value, num, den, solute):
    """A concentration string denoting value num/den (base units) in a random spelling."""
    from pv import refmodel as R
    r = rng.random()
    if (num, den) == ('mol', 'L') and r < 0.4:
        p = rng.choice(['', 'm', 'u', 'n', 'k'])
        return f'{value / R.PREFIX[p]!r} {p}M'
    if (num, den) == ('mol', 'g') and r < 0.3:
        p = rng.choice(['', 'm', 'u'])
        return f'{value * 1000 / R.PREFIX[p]!r} {p}m'
    if (num, den) == ('g', 'g') and r < 0.3:
        return f'{value * 100!r} %w/w'
    if (num, den) == ('L', 'L') and r < 0.3:
        return f'{value * 100!r} %v/v'
    if (num, den) == ('g', 'L') and r < 0.2 and R.cfg().wv_units == 'g/mL':
        return f'{value / 1000 * 100!r} %w/v'
    pn = rng.choice(['', 'm', 'u', 'k', 'n', 'c', 'd'])
    pd = rng.choice(['', 'm', 'u', 'k'])
    v = value / R.PREFIX[pn] * R.PREFIX[pd]
    if rng.random() < 0.25:
        k = rng.choice([10, 100, 5, 2.5])
        return f'{v * k!r} {pn}{num}/{k} {pd}{den}'
    return f'{v!r} {pn}{num}/{pd}{den}'


def constructive(rng, case, idx):
    import math
    from pv.gen import World, spell, liquids
    from pv import refmodel as R
    from pv.monitors import M
    import pyplate.pyplate as pp
    w = World(rng, case)
    w.check_aliasing = False
    cf = R.cfg()
    # a few containers of chosen composition classes
    liqs = liquids(w.subs)
    solids = [s for s in w.subs if s.is_solid()]
    enz = [s for s in w.subs if s.is_enzyme()]
    for trial in range(rng.randint(3, 6)):
        solvent = rng.choice(liqs)
        solute_pool = [s for s in w.subs if not s.is_enzyme() and s != solvent]
        if not solute_pool:
            continue
        solute = rng.choice(solute_pool)
        comp = rng.choice(['binary', 'binary', 'multi', 'binary+enz', 'solute_only', 'multi+enz', 'other_solvent', 'near_neat'])
        init = [(solute, spell(rng, 10 ** rng.uniform(-6, -2), 'mol'))]
        dense_liq = [s_ for s_ in solute_pool if s_.is_liquid() and s_.density > 1.15 * solvent.density]
        if comp == 'near_neat':
            # a nearly neat liquid solute that is denser than the solvent: mass-per-volume targets between the two densities
            if not dense_liq:
                comp = 'binary'
            else:
                solute = rng.choice(dense_liq)
                init = [(solute, spell(rng, 10 ** rng.uniform(-3, -1.5), 'L'))]
                M.bucket('C11/near_neat_dense_liquid_solute')
        if comp != 'solute_only':
            holder = solvent if comp != 'other_solvent' else rng.choice([l for l in liqs if l != solute] or liqs)
            if holder != solute and comp == 'near_neat':
                init.append((holder, spell(rng, R.parse_quantity(init[0][1])[0] * rng.uniform(0.02, 0.1), 'L')))
            elif holder != solute:
                init.append((holder, spell(rng, 10 ** rng.uniform(-5, -1), 'L')))
        if comp.startswith('multi'):
            for o in rng.sample([s for s in w.subs if not s.is_enzyme() and s not in (solute, solvent)] or [], k=min(
                    rng.randint(1, 2), len([s for s in w.subs if not s.is_enzyme() and s not in (solute, solvent)]))):
                init.append((o, spell(rng, 10 ** rng.uniform(-6, -3), 'mol')))
        if comp.endswith('enz') and enz:
            e = rng.choice(enz)
            init.append((e, spell(rng, 10 ** rng.uniform(-3, 1), 'U')))
        rng.shuffle(init)
        limited = rng.random() < 0.5
        with M.active(case):
            try:
                c0 = pp.Container('x', initial_contents=init)
            except Exception:
                continue
        vol0 = R.measure(c0.contents, 'L')
        # ---------------- dilute, constructively
        num, den = rng.choice(PAIRS)
        if comp == 'near_neat':
            num, den = 'g', 'L'
        if R.per(solute, num) == 0 or R.per(solvent, den) == 0 or solvent == solute:
            num, den = 'mol', 'L'
            if R.per(solvent, 'L') == 0:
                continue
        x = 10 ** rng.uniform(-6, -1) / max(R.per(solvent, 'L'), 1e-12) * rng.uniform(0.5, 2)     # canonical solvent to add
        x = min(x, 1e4)
        if comp == 'near_neat':
            x = R.measure(c0.contents, 'L') * rng.uniform(0.02, 0.15) / max(R.per(solvent, 'L'), 1e-12)   # stays near neat
        top = R.canon(solute, c0.contents[solute]) * R.per(solute, num)
        bottom = R.measure(c0.contents, den)
        target = top / (bottom + x * R.per(solvent, den))
        cur = top / bottom if bottom > 0 else float('inf')
        if not (target > 0) or not math.isfinite(cur):
            continue
        if target < 1e-14:           # numerically wild
            continue
        capq = None
        if limited:
            capq = spell(rng, (vol0 + x * R.per(solvent, 'L')) * rng.choice([1.5, 1.01, 3.0]), 'L')
        with M.active(case):
            try:
                c = pp.Container('x', capq, init) if capq else c0
            except Exception:
                c = c0
        conc = spell_conc(rng, target, num, den, solute)
        if (cur - target) / cur < 1e-4:
            continue
        name = rng.choice([None, None, 'diluted'])
        step = {'op': 'dilute', 'init': [[s.name, q] for s, q in init], 'cap': capq, 'solute': solute.name,
                'conc': conc, 'solvent': solvent.name}
        w.do('Container.dilute', step, lambda: c.dilute(solute, conc, solvent, name),
             expect={'op': 'Container.dilute', 'must': 'accept'})
        # boundary probes
        for d in (1e-3, -1e-3):
            cs = spell_conc(rng, cur * (1 + d), num, den, solute)
            w.do('Container.dilute', dict(step, conc=cs, probe=d), lambda cs=cs: c.dilute(solute, cs, solvent))
        # capacity-limited on the wrong side
        if vol0 > 0:
            tight = spell(rng, vol0 * 1.0005 + x * R.per(solvent, 'L') * 0.5, 'L')
            with M.active(case):
                try:
                    ct = pp.Container('x', tight, init)
                except Exception:
                    ct = None
            if ct is not None:
                w.do('Container.dilute', dict(step, cap=tight, probe='capacity'), lambda: ct.dilute(solute, conc, solvent))
        # ---------------- fill_to
        for base in ('L', 'g', 'mol'):
            fs = rng.choice(liqs)
            if rng.random() < 0.25:
                # any substance may be what a container is filled up with: solids and enzymes too (where they have a
                # measure in the unit of the target; without one the call must be refused - the former finding KF03)
                alt = [s_ for s_ in w.subs if R.per(s_, base) > 0 and R.per(s_, 'L') > 0]
                if alt:
                    fs = rng.choice(alt)
                    M.bucket('C11/fill_to/solvent_kind/' + R.kind(fs))
            curq = R.measure(c.contents, base)
            add = curq * rng.uniform(0.05, 3) + 10 ** rng.uniform(-7, -3) * R.per(fs, base) / max(R.per(fs, 'L'), 1e-12)
            tgt = curq + add
            if math.isfinite(c.max_volume):
                room = c.max_volume * cf.vol_prefix - R.measure(c.contents, 'L')
                maxadd = room / R.per(fs, 'L') * R.per(fs, base)
                r = rng.random()
                if r < 0.6:
                    tgt = curq + maxadd * rng.uniform(0.05, 0.95)
                elif r < 0.8:
                    tgt = curq + maxadd * rng.choice([1.01, 2.0])
            q = spell(rng, tgt, base)
            keep = c
            w.do('Container.fill_to', {'op': 'fill_to', 'init': [[s.name, qq] for s, qq in init], 'cap': capq,
                                       'solvent': fs.name, 'q': q}, lambda: keep.fill_to(fs, q))
        # ---------------- the same preparation with another lot of the enzyme (same name, other specific activity, the same
        #                  number of units): each lot weighs what *its* activity says
        if comp.endswith('enz') and enz and rng.random() < 0.6:
            from pv.gen import declared_enzyme
            lot_a = [s_ for s_, _ in init if s_.is_enzyme()][0]
            lot_b = declared_enzyme(pp.Substance, lot_a.name, f'{R.specific_activity_of(lot_a) * rng.choice([2.5, 0.4, 10.0]):.6g} U/g')
            init_b = [((lot_b if s_ is lot_a else s_), q_) for s_, q_ in init]
            with M.active(case):
                try:
                    cb = pp.Container('x', initial_contents=init_b)
                except Exception:
                    cb = None
            if cb is not None and R.per(lot_b, 'g') > 0:
                M.bucket('C11/second_lot_of_an_enzyme')
                fs = solvent
                cur_g = R.measure(cb.contents, 'g')
                qg = spell(rng, cur_g * rng.uniform(1.2, 3.0), 'g')
                w.do('Container.fill_to', {'op': 'fill_to', 'init': [[s_.name, q_] for s_, q_ in init_b], 'solvent': fs.name, 'q': qg,
                                           'second_lot': True}, lambda: cb.fill_to(fs, qg))
                if R.per(solute, 'g') > 0 and solute != solvent:
                    top_b = R.canon(solute, cb.contents[solute]) * R.per(solute, 'g')
                    cur_b = top_b / cur_g
                    cgg = spell_conc(rng, cur_b * rng.uniform(0.3, 0.8), 'g', 'g', solute)
                    if cur_b * 1e10 > 1e5:
                        w.do('Container.dilute', {'op': 'dilute', 'init': [[s_.name, q_] for s_, q_ in init_b], 'solute': solute.name,
                                                  'conc': cgg, 'solvent': solvent.name, 'second_lot': True},
                             lambda: cb.dilute(solute, cgg, solvent), expect={'op': 'Container.dilute', 'must': 'accept'})


# --------------------------------------------------------------------------------------------------
# directed edge workloads shared between several checks (pv/edges.py)

_plan_without_edges, _run_job_without_edges = plan, run_job
_required_without_edges = globals().get('required_buckets')


def required_buckets(tier):
    return (list(_required_without_edges(tier)) if _required_without_edges else []) + [ID + '/edge/']


def plan(tier, seed):
    from .common import edges_jobs
    return _plan_without_edges(tier, seed) + edges_jobs(tier)


def run_job(job):
    if job['kind'] == 'edges':
        from pv.edges import edges
        from .common import run_cases
        return run_cases(job, edges)
    return _run_job_without_edges(job)
