"""C05 create_solution meets every stated constraint or refuses.
Deciding monitor: SOLN (each stated constraint re-evaluated on the result in its own unit by the reference
model; substance set; positivity; solvent aliquot + depleted container).  Requests are generated
constructively (draw the target mixture, compute concentrations / quantities / total from it, request
exactly those), so feasibility is known; infeasible ones by pushing one value across its limit."""
from __future__ import annotations

from .common import under_display_configs, shard, run_cases, BASE_ASSUMPTIONS, repo_suite, repo_suite_job

ID = 'C05'
LEVEL = 'exploration'
DECIDING = ['SOLN']
MIN_EVAL = {'quick': 2500, 'thorough': 60000}
MIN_MONITOR = {'SOLN.calls': 3500}
RULE = ('constructive requests: a target mixture of 1-3 solutes (solids, liquids, enzymes) in a pure liquid or in a '
        'portion of an existing container (single substance, mixed, with enzymes, already holding the solute) is drawn '
        'first; the concentrations (random numerator/denominator unit pair and spelling incl. M, m, %w/w, %v/v, %w/v, '
        '"x/10 uL"), solute quantities and total are computed from it and requested in one of the three specification '
        'pairs, scalar or list arguments; infeasible requests are made by pushing one value across its limit; '
        'evaluations = SOLN postcondition evaluations on accepted calls; non-trivial = every stated constraint was '
        'compared on a returned solution; distinct by (spec pair, solvent kind, solutes, arguments)')
ASSUMPTIONS = BASE_ASSUMPTIONS + [
    'when the solvent container already holds the solute, a stated concentration / quantity is accepted in either reading '
    '(of the solute added, or of all solute in the result): the documentation does not say which',
    'over-determined forms (concentration + quantity for >= 2 solutes) are three-valued on refusal when q/c > 1e-7']


def required_buckets(tier):
    req = []
    for spec in ('conc+total', 'conc+quantity', 'quantity+total'):
        for sk in ('pure', 'container'):
            req.append(f'C05/{spec}/{sk}')
    for n in (1, 2, 3):
        req.append(f'C05/conc+total/pure/n={n}/accepted')
    for nd in ('mol/L', 'g/L', 'g/g', 'mol/mol', 'mol/g', 'L/L', 'U/L', 'U/g', 'g/mol', 'L/g', 'L/mol', 'U/mol'):
        req.append(f'C05/conc/{nd}/')
    for k in ('solid', 'liquid', 'enzyme'):
        req.append(f'C05/conc/mol/L/{k}/' if k != 'enzyme' else 'C05/conc/U/L/enzyme/')
    req += ['C05/infeasible/', 'C05/infeasible/solvent_container_short', 'C05/regression/mole_concentration_of_an_enzyme', 'C05/total/L', 'C05/total/g', 'C05/total/mol', 'C05/constructive/total_in_activity_units', 'C05/constructive/per_unit_of_activity', 'C05/quantity/g/', 'C05/quantity/mol/',
            'C05/quantity/L/', 'C05/quantity/U/']
    return req


def plan(tier, seed):
    jobs = _plan(tier, seed)
    # a fraction of the budget under other documented configurations (display units / precisions, storage units with
    # unequal prefixes)
    jobs = jobs + under_display_configs(shard('constructive', 90, 2) if tier == 'quick' else shard('constructive', 3000, 8))
    if tier != 'quick' or False:
        jobs = jobs + repo_suite_job()
    return jobs


def _plan(tier, seed):
    if tier == 'quick':
        return shard('constructive', 1200, 12) + shard('regressions', 1, 1)
    return shard('constructive', 40000, 32) + shard('regressions', 1, 1)


def run_job(job):
    if job['kind'] == 'repo_suite':
        return run_cases(job, repo_suite)
    if job['kind'] == 'regressions':
        return run_cases(job, regressions)
    return run_cases(job, constructive)


def regressions(rng, case, idx):
    """Directed witnesses of repaired defects whose random trigger is rare (the sign of float noise)."""
    import pyplate.pyplate as pp
    from pv.gen import World
    from pv.monitors import M
    C, S = pp.Container, pp.Substance
    w = World(rng, case)
    w.check_aliasing = False
    water = S.liquid('H2O', 18.0153, 1)
    salt = S.solid('NaCl', 58.4428)
    enz = S.enzyme('enz1', '29.4961 U/g')
    liq2 = S.liquid('liq2', 11.0, 1.59)
    with M.active(case):
        solv = C('solv', initial_contents=[(liq2, '30.686277272727277 mol'), (water, '4.6031957 umol')])
    M.bucket('C05/regression/mole_concentration_of_an_enzyme')
    for solvent in (solv, liq2):
        for conc in (['1.5 mol/mol'] * 3, ['0.2 mol/mol', '0.1 mol/mol', '0.5 mol/mol'], ['0.1 M', '0.2 M', '1 mol/L']):
            # a concentration in moles cannot be met for an enzyme (it carries no moles): whatever the values, refuse
            w.do('Container.create_solution', {'op': 'solution', 'solutes': ['H2O', 'NaCl', 'enz1'], 'kw': {'concentration': conc}},
                 lambda: C.create_solution([water, salt, enz], solvent, concentration=conc, total_quantity='2913.894705909728 dg'),
                 expect={'op': 'Container.create_solution', 'must': 'refuse', 'tag': 'mole_concentration_of_an_enzyme'})


def constructive(rng, case, idx):
    import math
    import pyplate.pyplate as pp
    from pv.gen import World, spell, liquids
    from pv.props.c11 import spell_conc
    from pv import refmodel as R
    from pv.monitors import M
    C = pp.Container
    w = World(rng, case)
    w.check_aliasing = False
    cf = R.cfg()
    liqs = liquids(w.subs)
    for trial in range(4):
        n = rng.choice([1, 1, 1, 2, 2, 3])
        solvent_sub = rng.choice(liqs)
        pool = [s for s in w.subs if s != solvent_sub]
        if len(pool) < n:
            continue
        solutes = rng.sample(pool, n)
        skind = rng.choice(['pure', 'pure', 'container1', 'container_mixed', 'container_enz', 'container_solute'])
        # ---- solvent
        solvent_obj = solvent_sub
        portion = {}
        if skind == 'pure':
            x_solv = 10 ** rng.uniform(-7, 0) / R.per(solvent_sub, 'L')       # canonical (mol): 0.1 uL .. 1 L
            portion = {solvent_sub: R.stored_from_canon(solvent_sub, x_solv)}
        else:
            init = [(solvent_sub, spell(rng, 10 ** rng.uniform(-4, 0), 'L'))]
            others = [s for s in w.subs if s not in solutes and s != solvent_sub]
            if skind == 'container_mixed' and others:
                o = rng.choice([s for s in others if not s.is_enzyme()] or others)
                init.append((o, spell(rng, 10 ** rng.uniform(-6, -2), 'U' if o.is_enzyme() else 'mol')))
            if skind == 'container_enz':
                e = [s for s in w.subs if s.is_enzyme() and s not in solutes]
                if e:
                    init.append((e[0], spell(rng, 10 ** rng.uniform(-2, 2), 'U')))
            if skind == 'container_solute':
                s0 = solutes[0]
                init.append((s0, spell(rng, 10 ** rng.uniform(-7, -3), 'U' if s0.is_enzyme() else 'mol')))
            with M.active(case):
                try:
                    solvent_obj = C('solv', initial_contents=init)
                except Exception:
                    continue
            g = rng.uniform(0.05, 0.9)
            portion = {s: a * g for s, a in solvent_obj.contents.items()}
        # ---- target mixture (stored units)
        vol_solv = R.measure(portion, 'L')
        target = dict(portion)
        added = {}
        for s in solutes:
            if s.is_enzyme():
                amt = 10 ** rng.uniform(-3, 3)
                if R.per(s, 'L') > 0:
                    amt = min(amt, vol_solv * rng.uniform(0.01, 0.3) / R.per(s, 'L'))
            else:
                amt = 10 ** rng.uniform(-11.5, -1)       # picomoles .. 0.1 mol
                if R.per(s, 'L') > 0:
                    amt = min(amt, vol_solv * rng.uniform(0.01, 0.5) / R.per(s, 'L'))
            st = R.stored_from_canon(s, amt)
            if st < 1e-6:
                st = 1e-6 * rng.uniform(1, 10)
            added[s] = st
            target[s] = target.get(s, 0.0) + st
        # ---- the three values
        spec = rng.choice(['conc+total', 'conc+total', 'conc+quantity', 'quantity+total'])
        if skind == 'container_solute' and spec == 'conc+quantity':
            spec = 'conc+total'      # the two readings of "concentration" would make the request inconsistent
        kw = {}
        fragile = skind == 'container_solute'
        ok = True
        concs, quants, dens = [], [], []
        per_u_ok = any(s_.is_enzyme() for s_ in solutes) and not any(s_.is_enzyme() and a_ > 0 for s_, a_ in portion.items())
        for s in solutes:
            nums = [b for b in R.BASES if R.per(s, b) > 0]
            num = rng.choice(nums)
            den = rng.choice(['L', 'g', 'mol'])
            # (round 17) ... or per unit of activity, when the solutes bring an enzyme and the solvent portion holds none
            if per_u_ok and rng.random() < 0.2:
                den = 'U'
                M.bucket('C05/constructive/per_unit_of_activity')
            if R.measure(target, den) <= 0:
                den = 'g'
            dens.append((s, num, den))
            cval = R.canon(s, added[s] if skind != 'container_solute' else target[s]) * R.per(s, num) / R.measure(target, den)
            if cval < 1e-14 or cval > 1e8:
                # numerically wild (a stated concentration keeps ten significant digits at every magnitude)
                num, den = ('U', 'L') if s.is_enzyme() else ('mol', 'L')
                cval = R.canon(s, added[s] if skind != 'container_solute' else target[s]) * R.per(s, num) / max(R.measure(target, den), 1e-300)
                if cval < 1e-14 or cval > 1e8:
                    ok = False
            concs.append(spell_conc(rng, cval, num, den, s))
            if R.conc_quantum(cval) / max(cval, 1e-300) > 1e-7 and spec == 'conc+quantity' and n >= 2:
                fragile = True
            qb = rng.choice(nums)
            quants.append(spell(rng, R.canon(s, added[s]) * R.per(s, qb), qb, exact=True))
        if not ok:
            continue
        tb = rng.choice(['L', 'g', 'mol'])
        # (round 17, fourth wave) ... or, for concentrations and a total, in activity units when the solutes bring an enzyme and
        # the solvent portion holds none (the concentrations fix the proportions, the total activity fixes the size). Drawn
        # from a generator of its own: the requests of the earlier rounds stay what they were.
        import random as _random
        if spec == 'conc+total' and per_u_ok and _random.Random(f'U-total:{concs!r}').random() < 0.25:
            tb = 'U'
            M.bucket('C05/constructive/total_in_activity_units')
        if R.measure(target, tb) <= 0:
            tb = 'g'
        total = spell(rng, R.measure(target, tb), tb, exact=True)
        scalar_ok = n == 1 or (len(set(concs)) == 1)
        if 'conc' in spec:
            kw['concentration'] = concs[0] if (n == 1 and rng.random() < 0.7) else concs
        if 'quantity' in spec:
            kw['quantity'] = quants[0] if (n == 1 and rng.random() < 0.7) else quants
        if 'total' in spec:
            kw['total_quantity'] = total
        name = rng.choice([None, 'mysolution'])
        sol_arg = solutes[0] if (n == 1 and rng.random() < 0.6) else solutes
        step = {'op': 'solution', 'solutes': [s.name for s in solutes], 'solvent': skind, 'kw': kw,
                'target': {s.name: a for s, a in target.items()}}
        expect = {'op': 'Container.create_solution', 'must': 'accept', 'tag': f'constructive:{spec}:{skind}'}
        enz_rows = [(s_, nu_, de_) for s_, nu_, de_ in dens if s_.is_enzyme()]
        if 'conc' in spec and enz_rows and all(de_ == 'U' for _, _, de_ in enz_rows):
            # every enzyme is stated as a share of the total activity: the shares add up to one and leave the activity open
            # (with a stated quantity of one of them it is determined, but ill-conditioned) - refused or every value met
            expect = None
            M.bucket('C05/constructive/all_enzymes_as_shares_of_the_activity')
        if fragile:
            expect = None
        res, exc = w.do('Container.create_solution', step,
                        lambda: C.create_solution(sol_arg, solvent_obj, name, **kw), expect=expect)
        # second, stronger comparison: result = target mixture (well-conditioned cases only)
        if res is not None and not fragile and spec != 'conc+quantity':
            r = res[1] if isinstance(res, tuple) else res
            M.count('SOLN.target_compare')
            for s, a in target.items():
                got = r.contents.get(s, 0.0)
                if abs(got - a) > 1e-5 * abs(a) + 1e-6 * max(target.values()) + 1e-8:
                    M.count('SOLN.target_mismatch_illconditioned')
                    break
        # ---- infeasible variants: push one value across its limit
        M.bucket('C05/infeasible/tried')
        kind = rng.choice(['ratio_ge_1', 'quantity_gt_total', 'non_positive', 'sum_gt_1', 'inconsistent'])
        s0 = solutes[0]
        bad = None
        if kind == 'ratio_ge_1':
            same = {'g': 'g', 'mol': 'mol', 'L': 'L'}
            b = rng.choice([x for x in ('g', 'mol', 'L') if R.per(s0, x) > 0] or ['g'])
            if R.per(s0, b) > 0:
                c = f'{rng.choice([1.001, 1.5, 20])} {b}/{b}'
                bad = dict(concentration=[c] * n if n > 1 else c, total_quantity=total)
        elif kind == 'quantity_gt_total':
            b = rng.choice([x for x in ('g', 'L', 'mol') if R.per(s0, x) > 0] or ['g'])
            tot = R.measure(target, b)
            if R.per(s0, b) > 0 and tot > 0:
                q = spell(rng, tot * rng.choice([1.001, 2.0]), b, exact=True)
                bad = dict(quantity=[q] * n if n > 1 else q, total_quantity=spell(rng, tot, b, exact=True))
        elif kind == 'non_positive':
            which = rng.choice(['c', 'q', 't'])
            if which == 'c':
                bad = dict(concentration=f'{rng.choice([-0.1, -2])} {"U/L" if s0.is_enzyme() else "M"}', total_quantity=total)
                if n > 1:
                    bad['concentration'] = [bad['concentration']] * n
            elif which == 'q':
                qb = 'U' if s0.is_enzyme() else 'g'
                bad = dict(quantity=[f'{rng.choice([0, -1])} {qb}'] + quants[1:] if n > 1 else f'{rng.choice([0, -1])} {qb}',
                           total_quantity=total)
            else:
                bad = dict(concentration=concs if n > 1 else concs[0], total_quantity=f'{rng.choice([0, -5])} mL')
        elif kind == 'sum_gt_1' and n >= 2 and all(R.per(s, 'g') > 0 for s in solutes):
            bad = dict(concentration=['0.6 g/g'] * n, total_quantity=total)
        elif kind == 'inconsistent' and n >= 2 and skind != 'container_solute':
            # over-determined and inconsistent: the second solute's quantity is doubled against its concentration
            v, b = R.parse_quantity(quants[1])
            bad = dict(concentration=concs, quantity=[quants[0], spell(rng, v * rng.choice([2.0, 0.5, 1.1]), b, exact=True)] + quants[2:])
        if skind in ('container1', 'container_mixed', 'container_enz') and rng.random() < 0.5 and all(
                R.per(s_, 'L') > 0 or True for s_ in solutes):
            # the same mixture scaled up until it needs more of the solvent container than the container holds
            kind = 'solvent_container_short'
            f = rng.choice([1.02, 1.5, 10.0]) / g
            bad = dict(concentration=concs if n > 1 else concs[0],
                       total_quantity=spell(rng, R.measure(target, tb) * f, tb, exact=True))
        if bad is not None:
            M.bucket(f'C05/infeasible/{kind}')
            w.do('Container.create_solution', {'op': 'solution', 'solutes': [s.name for s in solutes], 'solvent': skind,
                                               'kw': bad, 'infeasible': kind},
                 lambda: C.create_solution(solutes if n > 1 else s0, solvent_obj, None, **bad),
                 expect={'op': 'Container.create_solution', 'must': 'refuse', 'tag': kind})


# --------------------------------------------------------------------------------------------------
# directed edge workloads shared between several checks (pv/edges.py)

_plan_without_edges, _run_job_without_edges = plan, run_job
_required_without_edges = globals().get('required_buckets')


def required_buckets(tier):
    return (list(_required_without_edges(tier)) if _required_without_edges else []) + [ID + '/edge/']


def plan(tier, seed):
    from .common import edges_jobs
    return _plan_without_edges(tier, seed) + edges_jobs(tier)


def run_job(job):
    if job['kind'] == 'edges':
        from pv.edges import edges
        from .common import run_cases
        return run_cases(job, edges)
    return _run_job_without_edges(job)
