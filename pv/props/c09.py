"""C09 get_substance_used reports the net gain of the destinations over the timeframe.
Deciding step: the offline ledger checker - every query is compared with an independent ledger of every
declared object's contents at each step boundary (prefix bakes), incl. the ValueError branch and additivity."""
from __future__ import annotations

from .common import under_display_configs, shard, run_cases, BASE_ASSUMPTIONS

ID = 'C09'
LEVEL = 'exploration'
DECIDING = ['C09.query', 'C09.additivity']
MIN_EVAL = {'quick': 15000, 'thorough': 500000}
MIN_MONITOR = {'ledger.built': 150}
RULE = ('the C08 programs; for every stage (and the whole recipe) x every substance of the pool (incl. never-used ones) x '
        'destination sets {default plates, every single object, random subsets, all objects} x a random output unit '
        '(mol prefixes, g, L, U): reported amount vs ledger (sum over the steps of the timeframe of the gain of the '
        'destinations + what remove steps discarded); expected < -noise must raise ValueError, |expected| <= noise either; '
        'evaluations = queries compared; non-trivial = expected amount != 0 or the ValueError branch; distinct by '
        '(program, substance, timeframe, destinations, unit)')
ASSUMPTIONS = BASE_ASSUMPTIONS + ['the ledger is built from prefix bakes, i.e. from bake() itself (C08 relates it to the eager fold)']


def required_buckets(tier):
    req = [f'C09/{d}/' for d in ('default_plates', 'single', 'all', 'subset')]
    req += ['C09/single/mol/pos', 'C09/single/g/pos', 'C09/single/L/pos', 'C09/single/U/pos', 'C09/single/mol/raise',
            'C09/additivity']
    req += [f'C09/steps/{k}' for k in ('transfer', 'remove', 'fill_to', 'create_container', 'dilute', 'solution', 'solution_from')]
    return req


def plan(tier, seed):
    if tier == 'quick':
        return shard('program', 240, 14) + under_display_configs(shard('program', 30, 2))
    return shard('program', 7000, 40) + under_display_configs(shard('program', 700, 8))


def run_job(job):
    return run_cases(job, program)


def program(rng, case, idx):
    from pv.recipes import run_recipe_case
    run_recipe_case(rng, case, idx, focus='remove' if idx % 4 == 0 else None)


# --------------------------------------------------------------------------------------------------
# directed edge workloads shared between several checks (pv/edges.py)

_plan_without_edges, _run_job_without_edges = plan, run_job
_required_without_edges = globals().get('required_buckets')


def required_buckets(tier):
    return (list(_required_without_edges(tier)) if _required_without_edges else []) + [ID + '/edge/']


def plan(tier, seed):
    from .common import edges_jobs
    return _plan_without_edges(tier, seed) + edges_jobs(tier)


def run_job(job):
    if job['kind'] == 'edges':
        from pv.edges import edges
        from .common import run_cases
        return run_cases(job, edges)
    return _run_job_without_edges(job)
