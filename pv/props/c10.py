"""C10 Reported volume, amounts and concentrations always agree with contents.
Deciding monitors: BOOK on every returned container/well, OBS on every observer call."""
from __future__ import annotations

from .common import under_display_configs, shard, run_cases, BASE_ASSUMPTIONS, repo_suite, repo_suite_job, under_density_configs

ID = 'C10'
LEVEL = 'exploration'
DECIDING = ['BOOK', 'OBS.get_volume', 'OBS.get_concentration', 'OBS.get_volumes', 'OBS.get_moles', 'OBS.get_volume',
            'OBS.get_substances']
DECIDING = sorted(set(DECIDING))
MIN_EVAL = {'quick': 30000, 'thorough': 500000}
MIN_MONITOR = {'OBS.get_concentration': 2000, 'OBS.get_volumes': 500, 'OBS.get_moles': 500, 'OBS.get_volume': 1000,
               'OBS.get_substances': 100, 'BOOK': 10000}
RULE = ('histories of 15-60 operations mixing every operation (transfers of all forms, remove, fill_to, dilute, '
        'create_solution, create_solution_from), then every observer in random units on every live object; '
        'evaluations = BOOK evaluations (every returned container / well) + OBS evaluations (every observer call, '
        'incl. nested); non-trivial = an observer evaluated on contents holding >= 2 substances; distinct by '
        '(observer, unit, contents)')
ASSUMPTIONS = BASE_ASSUMPTIONS + ['observers keep what the storage units resolve (q storage units; the result of get_concentration is rounded to '
                                  'q in the requested unit); plate observers round to the configured display precision of the unit, a plate total once; '
                                  'a concentration per volume is not judged for a container whose contents are within 1e3 storage quanta of zero volume']


def required_buckets(tier):
    req = ['C10/get_substances', 'C10/get_volume/uL', 'C10/get_volume/-L', 'C10/get_volume/mL']
    for nd in ('mol/L', 'g/L', 'g/g', 'mol/mol', 'L/L', 'mol/g', 'U/L', 'U/g', 'g/mol', 'L/g', 'L/mol'):
        req.append(f'C10/get_concentration/{nd}/')
    req += ['C10/get_volumes/uL', 'C10/get_volumes/mL', 'C10/get_moles/umol', 'C10/get_moles/mol', 'C10/get_moles/mmol']
    return req


def plan(tier, seed):
    jobs = _plan(tier, seed)
    # the same histories under the documented non-default densities (a fraction of the budget)
    n_cfg = 24 if tier == 'quick' else 400
    jobs = jobs + under_density_configs(shard('history', n_cfg, 2 if tier == 'quick' else 8))
    jobs = jobs + under_display_configs(shard('history', 24 if tier == 'quick' else 400, 2 if tier == 'quick' else 8))
    if tier != 'quick' or True:
        jobs = jobs + repo_suite_job()
    return jobs


def _plan(tier, seed):
    if tier == 'quick':
        return shard('history', 160, 8)
    return shard('history', 4000, 32, long=True)


def run_job(job):
    if job['kind'] == 'repo_suite':
        return run_cases(job, repo_suite)
    return run_cases(job, history)


def history(rng, case, idx):
    from pv.gen import World
    from pv.props.c04 import extra_ops
    long_ = (case.get('params') or {}).get('long')
    w = World(rng, case)
    w.check_aliasing = False
    w.populate()
    weights = {'cc': 3, 'cp': 3, 'pc': 2, 'pp': 2, 'remove': 2, 'fill': 2, 'observe': 3, 'newc': 1}
    for _ in range(rng.randint(15, 60 if long_ else 40)):
        if rng.random() < 0.25:
            extra_ops(w)
        else:
            w.history_step(weights)
    for name in list(w.objs):
        for _ in range(3):
            w.observe(name)


# --------------------------------------------------------------------------------------------------
# directed edge workloads shared between several checks (pv/edges.py)

_plan_without_edges, _run_job_without_edges = plan, run_job
_required_without_edges = globals().get('required_buckets')


def required_buckets(tier):
    return (list(_required_without_edges(tier)) if _required_without_edges else []) + [ID + '/edge/']


def plan(tier, seed):
    from .common import edges_jobs
    return _plan_without_edges(tier, seed) + edges_jobs(tier)


def run_job(job):
    if job['kind'] == 'edges':
        from pv.edges import edges
        from .common import run_cases
        return run_cases(job, edges)
    return _run_job_without_edges(job)
