"""C14 Quantity and concentration strings mean what SI says.
Deciding monitor: PARSE on the real Unit.parse_quantity / parse_concentration (every call, also nested)
against a reference SI grammar; complete prefix x unit tables; equivalent spellings must be interchangeable
through the API (containers, transfers, solutions built from them are equal); malformed strings from explicit
mutation families must be rejected by the parsers and by every entry point."""
from __future__ import annotations

from .common import under_display_configs, shard, run_cases, BASE_ASSUMPTIONS

ID = 'C14'
LEVEL = 'exploration'
UNIT_MONITORS = True
DECIDING = ['PARSE.quantity', 'PARSE.concentration', 'PARSE.api_equivalence', 'PARSE.api_malformed']
MIN_EVAL = {'quick': 60000, 'thorough': 1500000}
MIN_MONITOR = {'PARSE.quantity': 20000, 'PARSE.concentration': 20000, 'PARSE.api_equivalence': 1500, 'PARSE.api_malformed': 1500}
RULE = ('the COMPLETE table prefix x base unit for quantities (integers, decimals, scientific notation, signs) and the '
        'complete numerator (prefix x unit) x denominator (prefix x unit) x {with, without denominator value} table, the '
        'three percent forms and M / m with every prefix for concentrations, each compared with the reference reading; one '
        'ratio spelled 6-10 ways must agree; containers / transfers / fills / solutions built from equivalent spellings '
        'must be equal; malformed strings come from mutation families (missing / double / leading / trailing space, '
        'unknown unit, unknown prefix, wrong case, missing number, non-numeric value, extra tokens, empty, wrong dimension '
        'where a volume is required) and are used only when the reference grammar rejects them; evaluations = strings '
        'judged (parser level + API level); non-trivial = a well-formed string with a non-unit prefix or a two-unit ratio; '
        'distinct by string')
ASSUMPTIONS = BASE_ASSUMPTIONS + ['supported prefixes are the ten of the library table (n u µ m c d "" da k M); activity units take '
                                  'no prefix in quantity strings; whitespace-lenient readings of concentrations that keep the '
                                  'intended meaning are not judged']
PREF = ['n', 'u', 'µ', 'm', 'c', 'd', '', 'da', 'k', 'M']


def required_buckets(tier):
    req = []
    for b in ('mol', 'g', 'L'):
        for p in PREF:
            req.append(f'C14/quantity/{p or "-"}{b}')
    req += ['C14/quantity/-U', 'C14/conc/table', 'C14/conc/percent/v/v', 'C14/conc/percent/w/w', 'C14/conc/percent/w/v',
            'C14/conc/M', 'C14/conc/m', 'C14/conc/denominator_value', 'C14/api/container', 'C14/api/transfer', 'C14/api/cross_numerator/create_solution_from_container', 'C14/api/cross_numerator/dilute',
            'C14/api/fill_to', 'C14/api/create_solution', 'C14/api/create_solution_multi', 'C14/api/capacity', 'C14/api/dilute']
    for fam in ('missing_space', 'double_space', 'leading_space', 'trailing_space', 'unknown_unit', 'unknown_prefix',
                'wrong_case', 'missing_number', 'non_numeric', 'extra_tokens', 'empty', 'wrong_dimension', 'ratio_as_quantity',
                'unit_inside_unit'):
        req.append(f'C14/malformed/{fam}')
    return req


def plan(tier, seed):
    if tier == 'quick':
        return shard('tables', 8, 8) + shard('api', 120, 8) + under_display_configs(shard('tables', 2, 2) + shard('api', 40, 2))
    return shard('tables', 96, 24) + shard('api', 3000, 24) + under_display_configs(shard('tables', 8, 4) + shard('api', 300, 8))


def run_job(job):
    return run_cases(job, tables if job['kind'] == 'tables' else api)


def numbers(rng):
    v = rng.choice([1, 2, 10, 0.5, 0.001, 12.5, 1e-3, 3e6, 7, 0])
    x = rng.uniform(0.001, 1000)
    return [str(v), repr(float(v)), f'{x:.6g}', f'{x:.3e}', f'{x:.2E}', f'+{x:.4g}', f'-{x:.4g}', f'{int(x) + 1}', f'.{rng.randint(1, 99)}',
            f'{rng.randint(1, 9)}.']


def tables(rng, case, idx):
    import pyplate.pyplate as pp
    from pv import refmodel as R
    from pv.monitors import M
    U = pp.Unit
    with M.active(case):
        # ---- quantities: complete prefix x unit table
        for b in ('mol', 'g', 'L', 'U'):
            for p in (PREF if b != 'U' else ['']):
                for num in numbers(rng):
                    s = f'{num} {p}{b}'
                    M.bucket(f'C14/quantity/{p or "-"}{b}')
                    try:
                        U.parse_quantity(s)
                    except Exception:
                        pass
                    if p:
                        M.note_nontrivial('C14', s)
        # ---- concentrations: complete numerator x denominator table, with and without a denominator value
        units_n = [p + b for b in ('mol', 'g', 'L', 'U') for p in PREF]
        units_d = [p + b for b in ('mol', 'g', 'L', 'U') for p in PREF]
        for un in units_n:
            for ud in units_d:
                v = rng.choice([1, 0.25, 3e-3, 17.5, rng.uniform(0.01, 100)])
                for s in (f'{v!r} {un}/{ud}', f'{v!r} {un}/{rng.choice([10, 2.5, 100, 0.5])} {ud}'):
                    M.bucket('C14/conc/table')
                    if ' ' in s.split('/')[1]:
                        M.bucket('C14/conc/denominator_value')
                    try:
                        U.parse_concentration(s)
                    except Exception:
                        pass
                    M.note_nontrivial('C14', s)
        for p in PREF:
            for tag, key in (('M', 'M'), ('m', 'm')):
                for num in numbers(rng)[:4]:
                    M.bucket(f'C14/conc/{key}')
                    try:
                        U.parse_concentration(f'{num} {p}{tag}')
                    except Exception:
                        pass
        for tag in ('v/v', 'w/w', 'w/v'):
            for num in numbers(rng):
                M.bucket(f'C14/conc/percent/{tag}')
                try:
                    U.parse_concentration(f'{num} %{tag}')
                except Exception:
                    pass
        # ---- one ratio spelled many ways must agree (each is compared with the reference by the monitor; here the
        #      pairwise agreement of what the library returned is checked directly as well)
        for _ in range(300):
            base_v = rng.uniform(1e-4, 10)       # mol/L
            sp = [f'{base_v!r} M', f'{base_v!r} mol/L', f'{base_v!r} mmol/mL', f'{base_v * 1e3!r} mM', f'{base_v * 10!r} mmol/10 mL',
                  f'{base_v * 1e-2!r} mmol/10 uL', f'{base_v * 1e6!r} uM', f'{base_v!r} umol/uL', f'{base_v * 1e3!r} mol/kL',
                  f'{base_v * 2.5!r} mol/2.5 L']
            vals = []
            for s in sp:
                try:
                    vals.append((s, U.parse_concentration(s)))
                except Exception as e:   # noqa
                    vals.append((s, e))
            M.count('PARSE.equivalence_class')
            ok = [v for s, v in vals if not isinstance(v, Exception)]
            if len(ok) != len(vals) or any(abs(v[0] - ok[0][0]) > 2 * R.cfg().q + 1e-12 * abs(ok[0][0]) or v[1:] != ok[0][1:] for v in ok):
                M.violate(['C14'], 'PARSE', 'C14:equivalent_spellings_disagree', {'spellings': [(s, repr(v)) for s, v in vals]})
        # ---- malformed strings at parser level
        for fam, s in malformed_quantities(rng, 400):
            try:
                R.parse_quantity(s)
                continue            # the reference accepts it: not a malformed string
            except R.Reject:
                pass
            M.bucket(f'C14/malformed/{fam}')
            try:
                U.parse_quantity(s)
            except Exception:
                pass
        for fam, s in malformed_concentrations(rng, 400):
            try:
                R.parse_concentration(s)
                continue
            except R.Reject:
                pass
            M.bucket(f'C14/malformed/{fam}')
            try:
                U.parse_concentration(s)
            except Exception:
                pass
    M.sample('C14', {'quantity_table': '10 prefixes x {mol, g, L} + U, 10 number spellings each',
                     'concentration_table': '40 x 40 units x {with, without denominator value}',
                     'examples': ['0.01 mmol/10 uL', '5 %w/v', '2.5 dam', '1e-3 kL']}, cap=2)


def malformed_quantities(rng, n):
    out = []
    for _ in range(n):
        v = f'{rng.uniform(0.1, 100):.4g}'
        u = rng.choice(['mL', 'g', 'mmol', 'uL', 'kg', 'L', 'mol'])
        fam = rng.choice(['missing_space', 'double_space', 'leading_space', 'trailing_space', 'unknown_unit', 'unknown_prefix',
                          'wrong_case', 'missing_number', 'non_numeric', 'extra_tokens', 'empty', 'ratio_as_quantity',
                          'unit_inside_unit'])
        s = {'ratio_as_quantity': f'{v} ' + rng.choice(['mg/g', 'mL/L', 'mol/mol', 'uL/mL', 'g/g', 'g/L', 'mol/L', 'mmol/kg', 'L/L', 'M', 'mM', 'm',
                                                        '%w/w', '%v/v', 'U/mL', 'U/g']),
             # a base unit spelt twice / buried in a longer token ('gg', 'mLL', 'molmol', 'Lg'): not a unit
             'unit_inside_unit': f'{v} ' + rng.choice(['gg', 'mLL', 'molmol', 'Lg', 'gL', 'mgg', 'LL', 'umolmol', 'g-g', 'mL.L', 'MM']),
             'missing_space': f'{v}{u}', 'double_space': f'{v}  {u}', 'leading_space': f' {v} {u}', 'trailing_space': f'{v} {u} ',
             'unknown_unit': f'{v} ' + rng.choice(['furlong', 'X', 'mm', 'Pa', 'l', 'gram', 'moles', 'uu']),
             'unknown_prefix': f'{v} ' + rng.choice(['G', 'T', 'h', 'x', 'mm', 'K']) + rng.choice(['L', 'g', 'mol']),
             'wrong_case': f'{v} ' + rng.choice(['ml', 'ML', 'Mol', 'MOL', 'G', 'KG', 'l', 'UL']),
             'missing_number': rng.choice([f' {u}', u, f'- {u}']),
             'non_numeric': rng.choice(['five', 'abc', '1,5', '1..2', '1e', '--1', '0x10', '1/2', '½', 'nan', 'NaN', '-nan', '+nan', 'NAN', '1_0', '1_000', '\u0661', '\uff11', '\n1', '1\t']) + f' {u}',
             'extra_tokens': rng.choice([f'{v} {u} extra', f'{v} {u} {u}', f'about {v} {u}', f'{v} {v} {u}']),
             'empty': rng.choice(['', ' ', '  '])}[fam]
        out.append((fam, s))
    return out


def malformed_concentrations(rng, n):
    out = []
    for _ in range(n):
        v = f'{rng.uniform(0.1, 100):.4g}'
        fam = rng.choice(['missing_space', 'unknown_unit', 'unknown_prefix', 'wrong_case', 'missing_number', 'non_numeric',
                          'extra_tokens', 'empty'])
        s = {'missing_space': rng.choice([f'{v}M', f'{v}mol/L', f'{v}%w/w']),
             'unknown_unit': rng.choice([f'{v} mol/parsec', f'{v} X/L', f'{v} N', f'{v} ppm', f'{v} mol/l', f'{v} %x/y', f'{v} %']),
             'unknown_prefix': rng.choice([f'{v} Gmol/L', f'{v} mol/TL', f'{v} xM', f'{v} hg/L']),
             'wrong_case': rng.choice([f'{v} MOL/L', f'{v} mol/ML', f'{v} Mol/L', f'{v} %W/W', f'{v} G/L']),
             'missing_number': rng.choice(['M', ' M', 'mol/L', ' mol/L', '/L', 'g/', ' %w/v']),
             'non_numeric': rng.choice(['1_0 mM', '1 mol/1_0 L', '5_0 %w/w', '\u0661 M', f'\n{v} M', f' {v} M', f'{v}\tM', f'{v}  M', f'{v}\u00a0M', f'{v} mol/L ', f'{v} mol /L', f'{v} mol/ L', f'{v}  %w/w', f'{v} mol/L\n', 'one M', 'abc mol/L', '1,5 M', '1e M', f'{v} mol/x L', f'{v} g/ten mL', 'nan M', 'inf M', '-inf g/L', 'NaN %w/w',
                                        f'{v} mol/0 L', f'{v} mol/nan L', f'{v} g/inf mL', 'inf mol/inf L', 'nan U/mL', '1e999 M']),
             'extra_tokens': rng.choice([f'{v} mol/L/s', f'{v} mol/L extra', f'{v} M M', f'{v} g/10 mL mL', f'{v} mol per L']),
             'empty': rng.choice(['', ' ', '/'])}[fam]
        out.append((fam, s))
    return out


def api(rng, case, idx):
    """Interchangeability through the API and rejection of malformed strings at every entry point."""
    import pyplate.pyplate as pp
    from pv import refmodel as R
    from pv.monitors import M
    from pv.gen import make_substances, liquids
    C = pp.Container
    subs = make_substances(rng, 5)
    liq = rng.choice(liquids(subs))
    solids = [s for s in subs if s.is_solid() and s.mol_weight < 1000] or [pp.Substance.solid('NaCl', 58.4428)]     # (1 M of a macromolecule does not exist)
    q = R.cfg().q

    def spellings(value, base):
        """the same quantity in several prefixes and number formats (exact decimal shifts)"""
        out = []
        for p in rng.sample([x for x in PREF if x != 'µ'], 4) + ['µ']:
            x = value / R.PREFIX[p]
            out.append(f'{x!r} {p}{base}')
        out.append(f'{value:.17e} {base}')
        return out

    from pv.handlers import same_container_state as H1_same

    def same(a, b, tolmul=1.0):
        return H1_same(a, b, tolmul)
    with M.active(case):
        # ---- molality: 'x m' is x moles of solute per kilogram of *solvent* (SI); per kilogram of solution is another quantity
        #      (recorded finding KF33: the library reads 'm' as mol/kg of the whole mixture, consistently in every function)
        if idx % 4 == 0:
            sol_ = rng.choice(solids)
            mval = rng.choice([0.5, 1, 2, 0.1, 3])
            M.count('PARSE.molality')
            M.bucket('C14/molality')
            try:
                made = C.create_solution(sol_, liq, concentration=f'{mval} m', total_quantity=f'{rng.choice([1, 0.5, 2])} kg')
                mol_ = R.canon(sol_, made.contents.get(sol_, 0.0))
                kg_solvent = R.canon(liq, made.contents.get(liq, 0.0)) * R.per(liq, 'g') / 1000
                kg_total = R.measure(made.contents, 'g') / 1000
                per_solvent, per_solution = mol_ / kg_solvent, mol_ / kg_total
                if abs(per_solvent - mval) > 1e-6 * mval:
                    M.violate(['C14'], 'PARSE', 'C14:molality_is_per_kg_of_solution' if abs(per_solution - mval) <= 1e-6 * mval else 'C14:molal_concentration_wrong',
                              {'stated': f'{mval} m', 'solute': sol_.name, 'molar_mass': sol_.mol_weight, 'mol_per_kg_of_solvent': per_solvent,
                               'mol_per_kg_of_solution': per_solution})
                else:
                    M.note_nontrivial('C14', ('molality', mval, sol_.name))
            except Exception as e_:   # noqa
                from pv.monitors import MonitorBug, InjectedFault
                if isinstance(e_, (MonitorBug, InjectedFault)):
                    raise
        for trial in range(6):
            base = rng.choice(['L', 'g', 'mol'])
            v = rng.uniform(1e-4, 1)
            # containers
            results = []
            for s in spellings(v, base):
                try:
                    results.append((s, C('c', initial_contents=[(liq, s)])))
                except Exception as e:   # noqa
                    results.append((s, e))
            M.count('PARSE.api_equivalence')
            M.bucket('C14/api/container')
            good = [r for s, r in results if not isinstance(r, Exception)]
            if (0 < len(good) < len(results)) or any(same(good[0], g, 2.0) for g in good[1:]):
                M.violate(['C14'], 'PARSE', 'C14:equivalent_quantities_build_different_containers',
                          {'spellings': [(s, repr(r)[:80] if isinstance(r, Exception) else dict((k.name, x) for k, x in r.contents.items()))
                                         for s, r in results]})
            # capacity
            caps = []
            for s in spellings(v, 'L'):
                try:
                    caps.append(C('c', s).max_volume)
                except Exception as e:   # noqa
                    caps.append(e)
            M.count('PARSE.api_equivalence')
            M.bucket('C14/api/capacity')
            if any(isinstance(x, Exception) for x in caps) or max(caps) - min(caps) > 2 * q + 1e-12 * max(caps):
                M.violate(['C14'], 'PARSE', 'C14:equivalent_capacities_differ', {'caps': [repr(x) for x in caps]})
            # transfers and fills
            src = C('s', initial_contents=[(liq, '2 L'), (solids[0], '10 g')])
            dst = C('d')
            vv = R.measure(src.contents, base) * rng.uniform(0.01, 0.5)
            outs = []
            for s in spellings(vv, base):
                try:
                    outs.append((s, C.transfer(src, dst, s)[1]))
                except Exception as e:   # noqa
                    outs.append((s, e))
            M.count('PARSE.api_equivalence')
            M.bucket('C14/api/transfer')
            good = [r for s, r in outs if not isinstance(r, Exception)]
            if (0 < len(good) < len(outs)) or any(same(good[0], g, 2.0) for g in good[1:]):
                M.violate(['C14'], 'PARSE', 'C14:equivalent_quantities_transfer_differently', {'spellings': [s for s, r in outs]})
            # ... and each string means what SI says: the destination receives v x (prefix factor) of the base unit
            for s_, r_ in outs:
                if isinstance(r_, Exception):
                    continue
                got_ = R.measure(r_.contents, base)
                M.count('PARSE.api_meaning')
                if abs(got_ - vv) > 1e-7 * abs(vv) + 1e-12:
                    M.violate(['C14'], 'PARSE', f'C14:transferred_amount_ne_what_the_string_says:{base}',
                              {'string': s_, 'says_base_units': vv, 'destination_received_base_units': got_})
                    break
            fills = []
            tgt = R.measure(src.contents, base) * 1.5
            for s in spellings(tgt, base):
                try:
                    fills.append((s, src.fill_to(liq, s)))
                except Exception as e:   # noqa
                    fills.append((s, e))
            M.count('PARSE.api_equivalence')
            M.bucket('C14/api/fill_to')
            good = [r for s, r in fills if not isinstance(r, Exception)]
            if (0 < len(good) < len(fills)) or any(same(good[0], g, 2.0) for g in good[1:]):
                M.violate(['C14'], 'PARSE', 'C14:equivalent_quantities_fill_differently', {'spellings': [s for s, r in fills]})
            # concentrations through create_solution and dilute
            cM = rng.uniform(0.01, 2)
            if rng.random() < 0.35:
                # trace regime: nanomolar .. micromolar, values that the 1e-10 rounding of a parsed concentration keeps
                cM = 2 * rng.randint(1, 4) * 10.0 ** (-rng.choice([6, 7, 8, 9]))
                M.bucket('C14/api/trace_concentrations')
            sp = [f'{cM!r} M', f'{cM!r} mol/L', f'{cM * 1e3!r} mM', f'{cM!r} mmol/mL', f'{cM * 1e-2!r} mmol/10 uL', f'{cM * 1e3!r} mol/kL']
            sols = []
            for s in sp:
                try:
                    sols.append((s, C.create_solution(solids[0], liq, 'x', concentration=s, total_quantity='10 mL')))
                except Exception as e:   # noqa
                    sols.append((s, e))
            M.count('PARSE.api_equivalence')
            M.bucket('C14/api/create_solution')
            good = [r for s, r in sols if not isinstance(r, Exception)]
            if (0 < len(good) < len(sols)) or any(same(good[0], g, 50.0) for g in good[1:]):
                M.violate(['C14'], 'PARSE', 'C14:equivalent_concentrations_make_different_solutions',
                          {'spellings': [(s, repr(r)[:60]) for s, r in sols]})
            if good:
                stock = good[0]
                dils = []
                for s in [f'{cM / 2!r} M', f'{cM / 2 * 1e3!r} mM', f'{cM / 2!r} mol/L', f'{cM / 2 * 10!r} mmol/10 mL']:
                    try:
                        dils.append((s, stock.dilute(solids[0], s, liq)))
                    except Exception as e:   # noqa
                        dils.append((s, e))
                M.count('PARSE.api_equivalence')
                M.bucket('C14/api/dilute')
                gd = [r for s, r in dils if not isinstance(r, Exception)]
                if (0 < len(gd) < len(dils)) or any(same(gd[0], g, 50.0) for g in gd[1:]):
                    M.violate(['C14'], 'PARSE', 'C14:equivalent_concentrations_dilute_differently', {'spellings': [s for s, r in dils]})
                # ---- the same ratio written per litre in moles or in grams of this solute (x MW), per mL, in percent w/v:
                #      interchangeable at every entry point that accepts a concentration, with pure and container diluents
                mw = solids[0].mol_weight
                ch = cM / 2
                cross = [f'{ch!r} M', f'{ch * 1e3!r} mM', f'{ch * mw!r} g/L', f'{ch * mw!r} mg/mL', f'{ch * mw * 1e3!r} ug/mL',
                         f'{ch * mw * 10!r} mg/10 mL']
                if R.cfg().wv_units == 'g/mL':
                    cross.append(f'{ch * mw / 10!r} %w/v')
                diluent = C('diluent', initial_contents=[(liq, '50 mL'), (solids[0], f'{ch * 10!r} mmol')])
                entries = (('create_solution', lambda s_: C.create_solution(solids[0], liq, 'x', concentration=s_, total_quantity='10 mL')),
                           ('dilute', lambda s_: stock.dilute(solids[0], s_, liq)),
                           ('create_solution_from', lambda s_: C.create_solution_from(stock, solids[0], s_, liq, '5 mL', 'y')[-1]),
                           ('create_solution_from_container', lambda s_: C.create_solution_from(stock, solids[0], s_, diluent, '5 mL', 'y')[-1]))
                for entry, call in entries:
                    outs = []
                    for s_ in cross:
                        try:
                            outs.append((s_, {k.name: v for k, v in call(s_).contents.items()}))
                        except Exception as e:   # noqa
                            outs.append((s_, e))
                    M.count('PARSE.api_equivalence')
                    M.bucket(f'C14/api/cross_numerator/{entry}')
                    good_ = [o for l_, o in outs if not isinstance(o, Exception)]
                    # a parsed concentration is kept to 1e-10 in the base units of its own spelling: relative quantum q/value
                    relq = 4 * 2 * max(R.conc_quantum(R.parse_concentration(l_)[0]) / max(R.parse_concentration(l_)[0], 1e-300) for l_, o in outs)
                    differ = any(abs(g.get(k, 0.0) - good_[0][k]) > (1e-6 + relq) * abs(good_[0][k]) + 1e-6 for g in good_[1:] for k in good_[0])
                    if (0 < len(good_) < len(outs)) or differ:
                        M.violate(['C14'], 'PARSE', f'C14:same_ratio_in_moles_or_grams_differs:{entry}',
                                  {'calls': [(l_, repr(o)[:160]) for l_, o in outs], 'mol_weight': mw})
        # ---- several solutes, each with its own spelling (different numerators, denominators, molar / molal / percent):
        #      every string must mean what it says in the solution that is built (SOLN monitor) and equivalent lists agree
        if len(solids) >= 1:
            s1 = solids[0]
            s2 = solids[1] if len(solids) > 1 else pp.Substance.solid('KCl', 74.55)
            for trial in range(6):
                c1, c2 = rng.uniform(0.01, 0.3), rng.uniform(0.01, 0.3)
                forms1 = [f'{c1!r} M', f'{c1!r} mol/L', f'{c1 * 1e3!r} mmol/L', f'{c1!r} mmol/mL']
                forms2 = [f'{c2!r} m', f'{c2!r} mol/kg', f'{c2 * 10!r} mmol/10 g', f'{c2 * 1e3!r} umol/g']
                forms3 = [f'{c2 * 5!r} %w/w', f'{c2 * 5 / 100!r} g/g', f'{c2 * 50!r} mg/g']
                forms4 = [f'{c2 * 20!r} g/L', f'{c2 * 20!r} mg/mL', f'{c2 * 2!r} %w/v'] if R.cfg().wv_units == 'g/mL' else [f'{c2 * 20!r} g/L']
                second = rng.choice([forms2, forms3, forms4])
                outs = []
                for _ in range(4):
                    lst = [rng.choice(forms1), rng.choice(second)]
                    if rng.random() < 0.5:
                        lst, sol = [lst[1], lst[0]], [s2, s1]
                    else:
                        sol = [s1, s2]
                    try:
                        r_ = C.create_solution(sol, liq, 'x', concentration=lst, total_quantity='25 mL')
                        outs.append((lst, {k.name: v for k, v in r_.contents.items()}))
                    except Exception as e:   # noqa
                        outs.append((lst, e))
                M.count('PARSE.api_equivalence')
                M.bucket('C14/api/create_solution_multi')
                good = [o for l_, o in outs if not isinstance(o, Exception)]
                differ = any(abs(g[k] - good[0][k]) > 1e-6 * abs(good[0][k]) + 1e-6 for g in good[1:] for k in good[0])
                if (0 < len(good) < len(outs)) or differ:
                    M.violate(['C14'], 'PARSE', 'C14:equivalent_concentration_lists_make_different_solutions',
                              {'calls': [(l_, repr(o)[:120]) for l_, o in outs]})
        # ---- a *liquid* solute denser than the solvent, at a target between the two densities (in g/mL): the same ratio in
        #      moles or in grams per volume is one request, however it is written
        acid = pp.Substance.liquid('H2SO4', 98.079, 1.8302)
        lightest = min(liquids(subs), key=lambda l_: l_.density)
        if lightest.density * 1.25 < acid.density:
            for trial in range(3):
                stock_l = C('acid stock', initial_contents=[(acid, f'{rng.randint(30, 60)} mL'), (lightest, f'{rng.randint(2, 6)} mL')])
                cur_gmL = R.concentration(stock_l.contents, acid, 'g', 'L') / 1000.0
                lo_, hi_ = lightest.density * 1.02, min(acid.density, cur_gmL) * 0.97
                if hi_ <= lo_:
                    continue
                tg = rng.uniform(lo_, hi_)          # g/mL
                cross = [f'{tg * 1000 / acid.mol_weight!r} M', f'{tg * 1000 / acid.mol_weight!r} mol/L', f'{tg * 1000!r} g/L', f'{tg!r} g/mL',
                         f'{tg * 1000!r} mg/mL', f'{tg * 10!r} g/10 mL']
                if R.cfg().wv_units == 'g/mL':
                    cross.append(f'{tg * 100!r} %w/v')
                outs = []
                for s_ in cross:
                    try:
                        outs.append((s_, {k.name: v for k, v in stock_l.dilute(acid, s_, lightest).contents.items()}))
                    except Exception as e:   # noqa
                        outs.append((s_, e))
                M.count('PARSE.api_equivalence')
                M.bucket('C14/api/cross_numerator/dilute_dense_liquid_solute')
                good_ = [o for l_, o in outs if not isinstance(o, Exception)]
                differ = any(abs(g.get(k, 0.0) - good_[0][k]) > 1e-6 * abs(good_[0][k]) + 1e-6 for g in good_[1:] for k in good_[0])
                if (0 < len(good_) < len(outs)) or differ or not good_:
                    M.violate(['C14'], 'PARSE', 'C14:same_ratio_in_moles_or_grams_differs:dilute_dense_liquid_solute',
                              {'calls': [(l_, repr(o)[:160]) for l_, o in outs], 'solute_density': acid.density, 'solvent_density': lightest.density})
        # ---- a concentration *unit* means what SI says where a concentration is reported: 'm' is moles per kilogram of
        #      the whole content (every substance has a mass, enzymes too), percent is parts per hundred, 'M' per litre
        from pv.gen import declared_enzyme
        enzs = [s_ for s_ in subs if s_.is_enzyme()] or [declared_enzyme(pp.Substance, 'enzC', '10 U/mg')]
        for trial in range(4):
            mix = C('mix', initial_contents=[(liq, f'{rng.randint(5, 50)} mL'), (solids[0], f'{rng.randint(1, 900)} mg'),
                                             (enzs[0], f'{rng.randint(1, 500)} U')])
            for sub_ in (solids[0], liq, enzs[0]):
                menu = ['M', 'm', 'mol/kg', 'mmol/g', 'mol/L', 'mmol/mL', 'g/L', 'mg/mL', 'g/g', 'mg/g', '%w/w', 'g/kg', 'mol/mol', 'mmol/mol']
                if sub_.is_enzyme():
                    menu = ['U/L', 'U/mL', 'U/g', 'U/mg', 'kU/kg', 'g/g', '%w/w', 'mg/g', 'g/L', 'U/mol', 'U/mmol']
                for unit_ in rng.sample(menu, 5):
                    try:
                        one, num_, den_ = R.parse_concentration('1 ' + unit_)
                    except R.Reject:
                        continue
                    exp_ = R.concentration(mix.contents, sub_, num_, den_) / one
                    M.count('PARSE.api_meaning')
                    M.bucket('C14/api/get_concentration_unit_meaning')
                    try:
                        got_ = mix.get_concentration(sub_, unit_)
                    except Exception as e:   # noqa
                        M.violate(['C14'], 'PARSE', f'C14:get_concentration_unit_refused:{type(e).__name__}', {'unit': unit_, 'substance': sub_.name})
                        continue
                    if abs(got_ - exp_) > 1e-6 * abs(exp_) + 4 * q:
                        M.violate(['C14'], 'PARSE', f'C14:reported_concentration_ne_what_the_unit_means:{num_}/{den_}:{R.kind(sub_)}',
                                  {'unit': unit_, 'substance': sub_.name, 'got': got_, 'expected': exp_,
                                   'contents': {k_.name: v_ for k_, v_ in mix.contents.items()}})
        # ---- malformed strings at every entry point must raise
        src = C('s', initial_contents=[(liq, '2 L'), (solids[0], '10 g')])
        dst = C('d')
        for fam, s in malformed_quantities(rng, 60):
            try:
                R.parse_quantity(s)
                continue
            except R.Reject:
                pass
            M.bucket(f'C14/malformed/{fam}')
            for entry, call in (('Container.init', lambda: C('c', initial_contents=[(liq, s)])),
                                ('Container.capacity', lambda: C('c', s)),
                                ('Plate.capacity', lambda: pp.Plate('p', s, rows=1, columns=1)),
                                ('transfer', lambda: C.transfer(src, dst, s)),
                                ('fill_to', lambda: src.fill_to(liq, s)),
                                ('create_solution.total', lambda: C.create_solution(solids[0], liq, concentration='1 M', total_quantity=s)),
                                ('create_solution.quantity', lambda: C.create_solution(solids[0], liq, quantity=s, total_quantity='10 mL')),
                                ('create_solution_from.quantity', lambda: C.create_solution_from(
                                    C.create_solution(solids[0], liq, concentration='1 M', total_quantity='10 mL'), solids[0], '0.5 M', liq, s))):
                M.count('PARSE.api_malformed')
                try:
                    call()
                    M.violate(['C14'], 'PARSE', f'C14:malformed_quantity_accepted:{entry}:{fam}', {'string': s, 'entry': entry})
                except Exception:
                    pass
        for fam, s in malformed_concentrations(rng, 40):
            try:
                R.parse_concentration(s)
                continue
            except R.Reject:
                pass
            lenient = ' '.join(s.split())
            M.bucket(f'C14/malformed/{fam}')
            stock = C.create_solution(solids[0], liq, concentration='1 M', total_quantity='10 mL')
            for entry, call in (('create_solution', lambda: C.create_solution(solids[0], liq, concentration=s, total_quantity='10 mL')),
                                ('dilute', lambda: stock.dilute(solids[0], s, liq)),
                                ('create_solution_from', lambda: C.create_solution_from(stock, solids[0], s, liq, '5 mL')),
                                ('get_concentration', lambda: stock.get_concentration(solids[0], s.split(' ', 1)[1] if ' ' in s else s)),
                                ('enzyme', lambda: pp.Substance.enzyme('e', s))):
                M.count('PARSE.api_malformed')
                try:
                    call()
                    try:
                        R.parse_concentration(lenient.replace(' /', '/').replace('/ ', '/'))
                        continue      # whitespace-lenient reading with the intended meaning: not judged
                    except R.Reject:
                        pass
                    if entry == 'get_concentration':
                        continue      # takes a unit, not a concentration: judged at the parser
                    M.violate(['C14'], 'PARSE', f'C14:malformed_concentration_accepted:{entry}:{fam}', {'string': s, 'entry': entry})
                except Exception:
                    pass
        # wrong dimension where a volume is required
        for s in ('10 g', '5 mol', '3 U', '2 kg', '1 mmol', '1 M'):
            M.bucket('C14/malformed/wrong_dimension')
            for entry, call in (('Container.capacity', lambda: C('c', s)), ('Plate.capacity', lambda: pp.Plate('p', s, rows=1, columns=1))):
                M.count('PARSE.api_malformed')
                try:
                    call()
                    M.violate(['C14'], 'PARSE', f'C14:non_volume_capacity_accepted:{entry}', {'string': s, 'entry': entry})
                except Exception:
                    pass


# --------------------------------------------------------------------------------------------------
# directed edge workloads shared between several checks (pv/edges.py)

_plan_without_edges, _run_job_without_edges = plan, run_job
_required_without_edges = globals().get('required_buckets')


def required_buckets(tier):
    return (list(_required_without_edges(tier)) if _required_without_edges else []) + [ID + '/edge/']


def plan(tier, seed):
    from .common import edges_jobs
    return _plan_without_edges(tier, seed) + edges_jobs(tier)


def run_job(job):
    if job['kind'] == 'edges':
        from pv.edges import edges
        from .common import run_cases
        return run_cases(job, edges)
    return _run_job_without_edges(job)
