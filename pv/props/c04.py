"""C04 Values are immutable: operations never modify their arguments, even on failure.

Deciding monitor: IMMUT (deep fingerprints of every argument before/after every intercepted call, whether
it returned, raised naturally or was hit by an injected fault) + history aliasing (every value ever
returned re-verified after every later call) + objects handed to a recipe re-verified after every recipe
call.  Fault sources: natural part-way failures and failpoint enumeration (sys.monitoring LINE)."""
from __future__ import annotations

from .common import shard, run_cases, BASE_ASSUMPTIONS, repo_suite, repo_suite_job

ID = 'C04'
LEVEL = 'fault_enumeration'
DECIDING = ['IMMUT', 'IMMUT.history', 'IMMUT.recipe_handed', 'IMMUT.failpoint']
MIN_EVAL = {'quick': 50000, 'thorough': 1000000}
MIN_MONITOR = {'IMMUT.failpoint': 5000, 'IMMUT.recipe_handed': 500, 'IMMUT.history': 5000, 'NATURAL.partway': 50}
RULE = ('every call of generated histories (all operations, feasible and infeasible requests, results and slices '
        'reused as inputs), directed natural part-way failures (a plate transfer that overflows / runs dry at a later '
        'well, a bake whose k-th step is infeasible) and failpoint enumeration: for sampled calls of every operation '
        'kind an InjectedFault is raised at each executed pyplate line of the call in turn; evaluations = fingerprint '
        'comparisons (arguments x calls + history + recipe-handed + injections); non-trivial = a call that raised '
        '(naturally or injected) after entering the library, distinct by (operation, failpoint site) or '
        '(operation, exception)')
ASSUMPTIONS = BASE_ASSUMPTIONS + [
    'fingerprint fields are enumerated explicitly (name, contents with exact floats in order, volume, capacity, '
    'instructions, experimental_conditions; plates: labels, make, capacity, identity and fingerprint of every well; '
    'slices: identity of the plate, its fingerprint, resolved slices); memoised shape/size are excluded as benign',
    'failpoints fire on statement-start lines of pyplate/pyplate.py and pyplate/slicer.py only']
OPS = ['Container.transfer', 'Plate.transfer', 'Container.remove', 'Container.fill_to', 'Container.dilute',
       'Container.create_solution', 'Container.create_solution_from', 'PlateSlicer.remove', 'PlateSlicer.fill_to',
       'Plate.remove', 'Plate.fill_to', 'Recipe.bake', 'Recipe.transfer', 'Recipe.uses']


def required_buckets(tier):
    req = []
    for op in OPS:
        req.append(f'C04/{op}/returned')
    for op in ('Container.transfer', 'Plate.transfer', 'Container.fill_to', 'PlateSlicer.fill_to', 'Recipe.bake'):
        req.append(f'C04/{op}/raised')
    for op in ('Container.transfer', 'Plate.transfer', 'Container.remove', 'Container.fill_to', 'Container.dilute',
               'Container.create_solution', 'Container.create_solution_from', 'PlateSlicer.remove',
               'PlateSlicer.fill_to', 'Recipe.bake'):
        req.append(f'C04/{op}/injected')
    req += ['C04/recipe_handed/bake/returned', 'C04/recipe_handed/bake/raised', 'C04/natural/', 'C04/recipe/queried',
            'C04/slice_queried_before_use']
    return req


def plan(tier, seed):
    jobs = _plan(tier, seed)
    if tier != 'quick' or True:
        jobs = jobs + repo_suite_job()
    return jobs


def _plan(tier, seed):
    if tier == 'quick':
        return (shard('history', 120, 5) + shard('natural', 60, 3) + shard('failpoints', 32, 6, cap=400)
                + shard('recipe', 60, 2))
    return (shard('history', 3000, 16) + shard('natural', 1500, 6) + shard('failpoints', 600, 20, cap=1500)
            + shard('recipe', 1500, 6))


def run_job(job):
    if job['kind'] == 'repo_suite':
        return run_cases(job, repo_suite)
    fn = {'history': history, 'natural': natural, 'failpoints': failpoints, 'recipe': recipe}[job['kind']]
    return run_cases(job, fn)


# --------------------------------------------------------------------------------------------------

def extra_ops(w):
    """Operations beyond World.history_step: dilute, create_solution, create_solution_from, reuse of a
    kept slice object for several operations."""
    import pyplate.pyplate as pp
    from pv import refmodel as R
    from pv.gen import spell, liquids, rand_selector
    rng = w.rng
    k = rng.choice(['dilute', 'solution', 'solution_from', 'reuse_slice', 'solution_container'])
    C = pp.Container
    solids = [s for s in w.subs if s.is_solid()]
    liqs = liquids(w.subs)
    if k == 'dilute':
        cands = [n for n in w.containers() if any(s.is_solid() and a > 0 for s, a in w.objs[n].contents.items())
                 and R.measure(w.objs[n].contents, 'L') > 0]
        if not cands:
            return
        n = rng.choice(cands)
        c = w.objs[n]
        solute = rng.choice([s for s, a in c.contents.items() if s.is_solid() and a > 0])
        c0 = R.concentration(c.contents, solute, 'mol', 'L')
        conc = f'{c0 * rng.choice([0.3, 0.7, 0.99, 1.5])!r} M'
        solv = rng.choice(liqs)
        res, exc = w.do('Container.dilute', {'op': 'dilute', 'dst': n, 'solute': solute.name, 'conc': conc,
                                             'solvent': solv.name},
                        lambda: c.dilute(solute, conc, solv, rng.choice([None, 'renamed'])))
        if res is not None:
            w.objs[n] = res
            w.keep(res)
    elif k in ('solution', 'solution_container') and solids:
        solute = rng.choice(solids)
        name = w.fresh_name('s')
        conc = f'{rng.choice([0.01, 0.1, 1, 50])} {rng.choice(["M", "g/L", "mmol/mL", "%w/w"])}'
        total = spell(rng, 10 ** rng.uniform(-4, -1), 'L')
        if k == 'solution':
            solv = rng.choice(liqs)
            res, exc = w.do('Container.create_solution', {'op': 'solution', 'name': name, 'solutes': [solute.name],
                                                          'solvent': solv.name, 'kw': {'concentration': conc,
                                                                                       'total_quantity': total}},
                            lambda: C.create_solution(solute, solv, name, concentration=conc, total_quantity=total))
            if res is not None:
                w.objs[name] = res
                w.keep(res)
        else:
            cands = [n for n in w.containers() if any(s.is_liquid() and a > 0 for s, a in w.objs[n].contents.items())]
            if not cands:
                return
            sn = rng.choice(cands)
            res, exc = w.do('Container.create_solution', {'op': 'solution', 'name': name, 'solutes': [solute.name],
                                                          'solvent': {'container': sn},
                                                          'kw': {'concentration': conc, 'total_quantity': total}},
                            lambda: C.create_solution([solute], w.objs[sn], name, concentration=conc,
                                                      total_quantity=total))
            if res is not None:
                w.objs[sn], w.objs[name] = res
                w.keep(*res)
    elif k == 'solution_from':
        cands = [n for n in w.containers() if any(s.is_solid() and a > 0 for s, a in w.objs[n].contents.items())
                 and R.measure(w.objs[n].contents, 'L') > 0]
        if not cands:
            return
        n = rng.choice(cands)
        c = w.objs[n]
        solute = rng.choice([s for s, a in c.contents.items() if s.is_solid() and a > 0])
        c0 = R.concentration(c.contents, solute, 'mol', 'L')
        conc = f'{c0 * rng.choice([0.2, 0.6, 1.3])!r} M'
        solv = rng.choice([s for s in liqs if s != solute])
        qty = spell(rng, R.measure(c.contents, 'L') * rng.choice([0.05, 0.3, 5.0]), 'L')
        name = w.fresh_name('f')
        res, exc = w.do('Container.create_solution_from', {'op': 'solution_from', 'name': name, 'src': n,
                                                           'solute': solute.name, 'conc': conc,
                                                           'solvent': solv.name, 'q': qty},
                        lambda: C.create_solution_from(c, solute, conc, solv, qty, name))
        if res is not None:
            w.objs[n], w.objs[name] = res
            w.keep(*res)
    elif k == 'reuse_slice' and w.plates():
        pn = rng.choice(w.plates())
        p = w.objs[pn]
        sel, idx, shape = rand_selector(rng, p)
        sl = p[sel]
        # the same slice object handed to several operations in a row; it must keep denoting wells of p
        solv = rng.choice(liqs)
        cn = w.containers()
        for j in range(rng.randint(2, 4)):
            kind = rng.choice(['remove', 'fill', 'to_c', 'from_c'])
            step = {'op': 'reuse_slice', 'plate': pn, 'kind': kind}
            if kind == 'remove':
                w.do('PlateSlicer.remove', step, lambda: sl.remove(rng.choice([R.LIQUID, R.SOLID, solv])))
            elif kind == 'fill':
                room = min(w.room_L(p.wells[ij]) for ij in idx)
                cur = max(R.measure(p.wells[ij].contents, 'L') for ij in idx)
                q = spell(rng, cur + room * rng.choice([0.2, 0.5, 1.5]), 'L')
                w.do('PlateSlicer.fill_to', step, lambda: sl.fill_to(solv, q))
            elif kind == 'to_c' and cn:
                d = w.objs[rng.choice(cn)]
                vol = min(R.measure(p.wells[ij].contents, 'L') for ij in idx)
                q = spell(rng, vol * rng.choice([0.1, 0.5, 2.0]) if vol > 0 else 1e-6, 'L')
                w.do('Container.transfer', step, lambda: pp.Container.transfer(sl, d, q))
            elif cn:
                s = w.objs[rng.choice(cn)]
                q = spell(rng, max(R.measure(s.contents, 'L'), 1e-9) * rng.choice([0.001, 0.01, 0.6]), 'L')
                w.do('Plate.transfer', step, lambda: pp.Plate.transfer(s, sl, q))


def history(rng, case, idx):
    from pv.gen import World
    w = World(rng, case)
    w.populate()
    weights = {'cc': 3, 'cp': 3, 'pc': 2, 'pp': 3, 'remove': 2, 'fill': 3, 'observe': 1, 'newc': 1, 'kept': 3}
    for _ in range(rng.randint(10, 35)):
        if rng.random() < 0.3:
            extra_ops(w)
        else:
            w.history_step(weights)


def natural(rng, case, idx):
    """Natural failures part-way through a multi-well operation or a bake."""
    import pyplate.pyplate as pp
    from pv.gen import World, spell, liquids
    from pv import refmodel as R
    from pv.monitors import M
    w = World(rng, case)
    w.add_container(name='src', capacity=None, n_subs=rng.choice([1, 2, 3]), scale=10 ** rng.uniform(-3, -1))
    src = w.objs.get('src')
    if src is None or R.measure(src.contents, 'L') <= 0:
        return
    p = w.add_plate(name='p', shape=(rng.randint(1, 3), rng.randint(2, 5)), custom_labels=False)
    n = p.wells.size
    capL = p.max_volume_per_well * R.cfg().vol_prefix
    vol = R.measure(src.contents, 'L')
    C, P = pp.Container, pp.Plate
    # make one late well nearly full so that a broadcast overflows there after earlier wells succeeded
    late = (p.wells.shape[0], p.wells.shape[1])
    q_big = spell(rng, min(capL * 0.9, vol * 0.2), 'L')
    res = None
    with M.active(case):
        try:
            _, p2 = P.transfer(src, p[late], q_big)
            res = p2
        except Exception:
            pass
    if res is None:
        return
    w.objs['p'] = res
    w.keep(res)
    M.bucket('C04/natural/setup')
    # (i) overflow at the last well
    q = spell(rng, capL * 0.3, 'L')
    r, exc = w.do('Plate.transfer', {'op': 'transfer', 'src': ['src', None], 'dst': ['p', None], 'q': q, 'natural': 'overflow_late'},
                  lambda: P.transfer(w.objs['src'], w.objs['p'], q))
    if exc is not None and n > 1:
        M.count('NATURAL.partway')
        M.bucket('C04/natural/overflow_at_later_well')
        M.note_nontrivial('C04', ('natural', 'overflow', type(exc).__name__, n))
    # (ii) the source runs dry at the k-th well
    small = C('small', initial_contents=[(s, f'{a * 1e-3!r} {"U" if s.is_enzyme() else R.cfg().mol_unit}')
                                         for s, a in src.contents.items() if a > 0][:3] or None)
    vs = R.measure(small.contents, 'L')
    if vs > 0 and n > 1:
        empty_plate = P('q', '1 L', rows=p.wells.shape[0], columns=p.wells.shape[1])
        q = spell(rng, vs / (n - 0.5), 'L')
        r, exc = w.do('Plate.transfer', {'op': 'transfer', 'src': ['small', None], 'dst': ['q', None], 'q': q, 'natural': 'dry'},
                      lambda: P.transfer(small, empty_plate, q))
        if exc is not None:
            M.count('NATURAL.partway')
            M.bucket('C04/natural/source_dry_at_kth_well')
            M.note_nontrivial('C04', ('natural', 'dry', type(exc).__name__, n))
    # (iii) N -> C where a later well has too little
    r, exc = w.do('Container.transfer', {'op': 'transfer', 'src': ['p', None], 'dst': ['src', None], 'natural': 'later_well_short'},
                  lambda: C.transfer(w.objs['p'], w.objs['src'], q_big))
    if exc is not None:
        M.bucket('C04/natural/later_well_short')
    # (iv) slice fill_to that overflows at the late well; slice remove (never fails)
    solv = rng.choice(liquids(w.subs))
    sl = w.objs['p'][:]
    r, exc = w.do('PlateSlicer.fill_to', {'op': 'fill_to', 'dst': ['p', ':'], 'natural': 'fill_overflow'},
                  lambda: sl.fill_to(solv, spell(rng, capL * 1.5, 'L')))
    r, exc = w.do('PlateSlicer.fill_to', {'op': 'fill_to', 'dst': ['p', ':'], 'natural': 'fill_below'},
                  lambda: sl.fill_to(solv, spell(rng, capL * 0.5, 'L')))
    if exc is not None:
        M.count('NATURAL.partway')
        M.bucket('C04/natural/fill_below_at_late_well')
    # (v) a bake whose k-th step is infeasible
    k = rng.randint(1, 4)
    rcp = pp.Recipe()
    a = C('a', initial_contents=[(solv, '10 mL')])
    b = C('b', '3 mL')
    plate = P('rp', '100 uL', rows=2, columns=2)
    handed = [a, b, plate]
    with M.active(case):
        try:
            rcp.uses(a, b, plate)
            for i in range(k):
                rcp.transfer(a, plate[1, 1], '10 uL')
            rcp.transfer(a, b, '5 mL')      # infeasible: exceeds b's capacity
            rcp.transfer(a, plate, '10 uL')
            rcp.bake()
        except Exception as e:   # noqa
            M.count('NATURAL.partway')
            M.bucket('C04/natural/bake_kth_step_infeasible')
            M.note_nontrivial('C04', ('natural', 'bake', k, type(e).__name__))
    w.verify_history('natural')


def failpoints(rng, case, idx):
    """Failpoint enumeration over one sampled call of each operation kind."""
    import pyplate.pyplate as pp
    from pv import failpoints as FP
    from pv import fingerprint as F
    from pv.gen import World, spell, liquids, rand_selector
    from pv import refmodel as R
    from pv.monitors import M
    cap = (case.get('params') or {}).get('cap', 400)
    w = World(rng, case, max_plate=(2, 3))
    w.check_aliasing = False
    w.populate(n_containers=3, n_plates=2)
    for _ in range(rng.randint(2, 6)):
        w.history_step({'cc': 3, 'cp': 3, 'pp': 2, 'fill': 1})
    C, P = pp.Container, pp.Plate
    liqs = liquids(w.subs)
    solv = rng.choice(liqs)
    cn = [n for n in w.containers() if R.measure(w.objs[n].contents, 'L') > 0]
    pn = w.plates()
    if not cn or not pn:
        return
    s = w.objs[rng.choice(cn)]
    d = w.objs[rng.choice([n for n in w.containers() if w.objs[n] is not s] or cn)]
    p = w.objs[rng.choice(pn)]
    p2 = w.objs[rng.choice(pn)]
    sel, sidx, _ = rand_selector(rng, p)
    sel2, didx, _ = rand_selector(rng, p2)
    qv = spell(rng, R.measure(s.contents, 'L') * 0.01, 'L')
    wells = [p.wells[ij] for ij in sidx]
    wv = min(R.measure(x.contents, 'L') for x in wells)
    qw = spell(rng, wv * 0.1 if wv > 0 else 1e-7, 'L')
    solids = [x for x in w.subs if x.is_solid()]
    stock = None
    if solids:
        try:
            with M.oracle():
                stock = C.create_solution(solids[0], solv, 'stock', concentration='0.5 M', total_quantity='20 mL')
        except Exception:
            stock = None
    calls = {
        'C->C': lambda: C.transfer(s, d, qv),
        'C->slice': lambda: P.transfer(s, p[sel], qv),
        'slice->C': lambda: C.transfer(p[sel], d, qw),
        'slice->slice': lambda: P.transfer(p[sel][0:1, 0:1] if False else p[sidx[0][0] + 1, sidx[0][1] + 1], p2[sel2], qw),
        'remove': lambda: s.remove(rng.choice(list(s.contents) or [R.LIQUID])),
        'fill_to': lambda: s.fill_to(solv, spell(rng, R.measure(s.contents, 'L') * 1.5, 'L')),
        'slice.remove': lambda: p[sel].remove(R.LIQUID),
        'slice.fill_to': lambda: p[sel].fill_to(solv, spell(rng, max(R.measure(x.contents, 'L') for x in wells) * 1.2 + 1e-9, 'L')),
        'plate.remove': lambda: p.remove(R.SOLID),
        'plate.fill_to': lambda: p.fill_to(solv, spell(rng, max(R.measure(x.contents, 'L') for x in p.wells.flatten()) * 1.1 + 1e-9, 'L')),
    }
    if stock is not None:
        calls['dilute'] = lambda: stock.dilute(solids[0], '0.2 M', solv)
        calls['create_solution_from'] = lambda: C.create_solution_from(stock, solids[0], '0.1 M', solv, '5 mL')
        calls['create_solution'] = lambda: C.create_solution(solids[0], solv, concentration='0.1 M', total_quantity='5 mL')
        calls['create_solution(container)'] = lambda: C.create_solution([solids[0]], s, concentration='1 mM', total_quantity=qv)

    def recipe_call():
        r = pp.Recipe()
        r.uses(s, d, p)
        r.transfer(s, d, qv)
        r.transfer(s, p[sel], qv)
        r.remove(p[sel], R.LIQUID)
        r.fill_to(d, solv, spell(rng, R.measure(d.contents, 'L') + R.measure(s.contents, 'L'), 'L'))
        r.bake()
    calls['recipe build+bake'] = recipe_call
    names = list(calls)
    # two or three kinds per case so that every kind is visited across cases
    picks = [names[(idx * 3 + j) % len(names)] for j in range(3)]
    watched = [s, d, p, p2] + ([stock] if stock is not None else [])
    for name in picks:
        fn0 = calls[name]
        state = rng.getstate()

        def fn():
            rng.setstate(state)      # identical arguments on every run
            return fn0()
        base = [F.fingerprint(x) for x in watched]
        with M.active(case):
            n, sites, exc = FP.count_lines(fn)
        if n == 0:
            continue
        ks = list(range(1, n + 1))
        if n > cap:
            ks = sorted(rng.sample(ks, cap))
        M.bucket(f'C04/failpoints/{name}/' + ('natural_raise' if exc is not None else 'returns'))
        for k in ks:
            with M.active(case):
                site = FP.run_with_fault(fn, k)
            M.count('IMMUT.failpoint')
            now = [F.fingerprint(x) for x in watched]
            if site is not None:
                M.note_nontrivial('C04', ('fp', name, site))
            if now != base:
                j = [i for i, (a, b) in enumerate(zip(now, base)) if a != b][0]
                M.violate('C04', 'IMMUT', f'C04:object_changed_under_injected_fault:{name}',
                          {'call': name, 'failpoint': k, 'site': site, 'object': getattr(watched[j], 'name', '?'),
                           'diff': F.diff(base[j], now[j])})
                base = now
        M.sample('C04', {'call': name, 'line_events_in_pyplate': n, 'distinct_sites': len(sites),
                         'injections': len(ks), 'natural_outcome': type(exc).__name__ if exc else 'returned'}, cap=8)


def recipe(rng, case, idx):
    """Objects handed to a recipe are unchanged by declaring them, adding steps and baking."""
    import pyplate.pyplate as pp
    from pv.gen import World, spell, liquids, rand_selector
    from pv import refmodel as R
    from pv import fingerprint as F
    from pv.monitors import M
    w = World(rng, case, max_plate=(3, 4))
    w.check_aliasing = False
    w.populate(n_containers=rng.randint(2, 3), n_plates=rng.randint(1, 2))
    objs = dict(w.objs)
    before = {n: F.fingerprint(o) for n, o in objs.items()}
    r = pp.Recipe()
    liqs = liquids(w.subs)
    cn, pn = w.containers(), w.plates()
    infeasible = rng.random() < 0.3
    # a refused declaration declares nothing (a repeated object, a wrong type after valid ones)
    if len(objs) >= 2:
        r0 = pp.Recipe()
        a_, b_ = list(objs.values())[:2]
        for bad_ in ((a_, b_, a_), ([a_, b_], 'nope'), (a_, [b_, a_]), (b_, 7)):
            M.count('IMMUT.refused_uses')
            M.bucket('C04/recipe/refused_uses')
            with M.active(case):
                try:
                    r0.uses(*bad_)
                    M.violate(['C16'], 'IMMUT', 'C16:uses_with_repeated_or_invalid_argument_accepted', {'args': repr(bad_)[:120]})
                except (ValueError, TypeError):
                    pass
            if r0.results:
                M.violate(['C04', 'C16'], 'IMMUT', 'C04:refused_uses_declared_some_of_its_arguments',
                          {'args': [getattr(x_, 'name', repr(x_)[:30]) for x_ in bad_], 'declared': sorted(r0.results)})
                break
    with M.active(case):
        try:
            r.uses(*objs.values())
            used = set()
            for i in range(rng.randint(2, 8)):
                k = rng.choice(['cc', 'cp', 'pc', 'remove', 'fill', 'stage'])
                if k == 'cc' and len(cn) > 1:
                    a, b = rng.sample(cn, 2)
                    vol = R.measure(objs[a].contents, 'L')
                    r.transfer(objs[a], objs[b], spell(rng, vol * (0.01 if not (infeasible and i == 1) else 50) + 1e-9, 'L'))
                    used |= {a, b}
                elif k == 'cp':
                    a, b = rng.choice(cn), rng.choice(pn)
                    sel, idx_, _ = rand_selector(rng, objs[b])
                    vol = R.measure(objs[a].contents, 'L')
                    capw = objs[b].max_volume_per_well * R.cfg().vol_prefix
                    r.transfer(objs[a], objs[b][sel], spell(rng, min(vol * 0.001, capw * 0.05) + 1e-12, 'L'))
                    used |= {a, b}
                elif k == 'pc':
                    a, b = rng.choice(pn), rng.choice(cn)
                    r.transfer(objs[a][rand_selector(rng, objs[a])[0]], objs[b], '1 nL')
                    used |= {a, b}
                elif k == 'remove':
                    a = rng.choice(cn + pn)
                    r.remove(objs[a] if a in cn or rng.random() < 0.5 else objs[a][rand_selector(rng, objs[a])[0]],
                             rng.choice([R.LIQUID, R.SOLID, rng.choice(w.subs)]))
                    used.add(a)
                elif k == 'fill':
                    a = rng.choice(cn)
                    cur = R.measure(objs[a].contents, 'L')
                    r.fill_to(objs[a], rng.choice(liqs), spell(rng, cur * 1.01 + 1e-9, 'L'))
                    used.add(a)
                elif k == 'stage':
                    try:
                        r.start_stage(f's{i}')
                        r.end_stage(f's{i}')
                    except ValueError:
                        pass
            for n in objs:
                if n not in used and not (infeasible and rng.random() < 0.3):
                    if n in cn:
                        r.remove(objs[n], R.ENZYME)
                    else:
                        r.remove(objs[n], R.ENZYME)
            from pv.recipes import recipe_state, rebake_after_refusal
            from pv.monitors import MonitorBug, InjectedFault
            with M.oracle():
                state0 = recipe_state(r)
            try:
                res = r.bake()
            except (MonitorBug, InjectedFault):
                raise
            except Exception as e_bake:   # noqa
                # a bake that raises (a step turned out infeasible, an object was left unused) leaves the recipe as it was
                M.bucket('C04/recipe/bake_refused')
                rebake_after_refusal(r, state0, e_bake, {'case': 'C04 recipe job', 'steps': [s_.operator for s_ in r.steps]})
                raise
            M.bucket('C04/recipe/baked')
            # ---- asking the baked recipe questions changes neither what bake returned nor what was handed in
            after_bake = {n_: F.fingerprint(o_) for n_, o_ in res.items()}
            for tf in list(r.stages.keys()):
                for sub in rng.sample(w.subs, min(3, len(w.subs))):
                    for dests in ('plates', [objs[n_] for n_ in objs], [res[n_] for n_ in res if n_ in pn][:1] or 'plates'):
                        try:
                            r.get_substance_used(sub, tf, 'U' if sub.is_enzyme() else 'umol', dests)
                        except ValueError:
                            pass
                for n_ in objs:
                    for u_ in ('uL', 'mg'):
                        for q_ in (lambda: r.get_container_flows(objs[n_], tf, u_), lambda: r.get_amount_remaining(objs[n_], tf, u_, 'before'),
                                   lambda: r.get_amount_remaining(objs[n_], tf, u_, 'after')):
                            try:
                                q_()
                            except ValueError:
                                pass
            M.bucket('C04/recipe/queried')
            for n_, o_ in res.items():
                M.count('IMMUT.recipe_results_after_queries')
                now_ = F.fingerprint(o_)
                if now_ != after_bake[n_]:
                    M.violate('C04', 'IMMUT', 'C04:bake_result_changed_by_tracking_queries',
                              {'object': n_, 'diff': F.diff(after_bake[n_], now_)})
                    break
        except Exception as e:   # noqa
            M.bucket('C04/recipe/' + type(e).__name__)
            M.note_nontrivial('C04', ('recipe', type(e).__name__, len(r.steps)))
    for n, o in objs.items():
        M.count('IMMUT.recipe_handed')
        now = F.fingerprint(o)
        if now != before[n]:
            M.violate('C04', 'IMMUT', 'C04:object_handed_to_recipe_changed:end_of_case',
                      {'object': n, 'diff': F.diff(before[n], now)})


# --------------------------------------------------------------------------------------------------
# directed edge workloads shared between several checks (pv/edges.py)

_plan_without_edges, _run_job_without_edges = plan, run_job
_required_without_edges = globals().get('required_buckets')


def required_buckets(tier):
    return (list(_required_without_edges(tier)) if _required_without_edges else []) + [ID + '/edge/']


def plan(tier, seed):
    from .common import edges_jobs
    return _plan_without_edges(tier, seed) + edges_jobs(tier)


def run_job(job):
    if job['kind'] == 'edges':
        from pv.edges import edges
        from .common import run_cases
        return run_cases(job, edges)
    return _run_job_without_edges(job)
