"""one module per property"""
