"""C02 A transfer moves exactly the requested amount as a uniform aliquot.  Deciding monitor: ALIQ on
every container->container transfer (incl. nested) + the broadcast clause (container side changes by
n*q) + composition drift over long chains."""
from __future__ import annotations

from .common import under_display_configs, shard, run_cases, BASE_ASSUMPTIONS, repo_suite, repo_suite_job, under_density_configs

ID = 'C02'
LEVEL = 'exploration'
DECIDING = ['ALIQ', 'ALIQ.broadcast']
MIN_EVAL = {'quick': 3000, 'thorough': 50000}
MIN_MONITOR = {'ALIQ.broadcast': 200, 'CHAIN.composition': 20}
RULE = ('seeded histories and chains of 30-60 successive transfers from multi-component sources (solids, liquids, '
        'enzymes), request sized from the state (fraction of the content, zero, exactly the whole content) and spelled '
        'in a random unit x prefix; evaluations = ALIQ evaluations (one per container-level transfer, incl. the nested '
        'ones of plate broadcasts) + broadcast-clause evaluations; non-trivial = source holds >= 2 substances and '
        '0 < fraction < 1; distinct by (unit, source contents, quantity string)')
ASSUMPTIONS = BASE_ASSUMPTIONS


def required_buckets(tier):
    req = [f'C02/unit={u}/partial' for u in ('L', 'g', 'mol', 'U')]
    req += ['C02/unit=mol/unit_excludes_part', 'C02/unit=U/unit_excludes_part']
    req += [f'C02/unit={u}/f=1' for u in ('L', 'g', 'mol', 'U')]
    req += [f'C02/unit={u}/f=0' for u in ('L', 'g')]
    req += [f'C02/broadcast/{f}/' for f in ('C->N', 'N->C')]
    return req


def plan(tier, seed):
    jobs = _plan(tier, seed)
    # the same histories under the documented non-default densities (a fraction of the budget)
    n_cfg = 24 if tier == 'quick' else 400
    jobs = jobs + under_density_configs(shard('history', n_cfg, 2 if tier == 'quick' else 8))
    # a fraction of the budget under other documented configurations (display units / precisions, storage units with
    # unequal prefixes)
    jobs = jobs + under_display_configs(shard('history', 20, 2) + shard('chain', 10, 1) if tier == 'quick' else shard('history', 300, 8) + shard('chain', 100, 4))
    if tier != 'quick' or False:
        jobs = jobs + repo_suite_job()
    return jobs


def _plan(tier, seed):
    if tier == 'quick':
        return shard('history', 240, 10) + shard('chain', 120, 6)
    return shard('history', 5000, 32, big=True) + shard('chain', 3000, 16)


def run_job(job):
    if job['kind'] == 'repo_suite':
        return run_cases(job, repo_suite)
    return run_cases(job, history if job['kind'] == 'history' else chain)


def history(rng, case, idx):
    from pv.gen import World
    big = (case.get('params') or {}).get('big')
    w = World(rng, case, max_plate=(8, 12) if (big and rng.random() < 0.1) else (4, 6))
    w.populate(n_containers=rng.randint(2, 4), n_plates=rng.randint(1, 2))
    weights = {'cc': 8, 'cp': 4, 'pc': 4, 'pp': 4, 'remove': 1, 'fill': 1, 'observe': 0, 'newc': 1, 'kept': 3}
    for _ in range(rng.randint(8, 30)):
        w.history_step(weights)


def chain(rng, case, idx):
    """Many successive transfers out of one multi-component source: rounding must not drift."""
    from pv.gen import World
    from pv.monitors import M
    from pv import refmodel as R
    w = World(rng, case)
    src = None
    for _ in range(5):
        src = w.add_container(name='src', capacity=None, n_subs=rng.choice([2, 3, 4, 5]), scale=10 ** rng.uniform(-3, 0))
        if src is not None and len([a for a in src.contents.values() if a > 0]) >= 2:
            break
    if src is None:
        return
    for i in range(rng.randint(2, 4)):
        w.add_container(name=f'd{i}', capacity=None, n_subs=rng.choice([0, 0, 1, 2]))
    start = dict(src.contents)
    n = rng.randint(30, 60)
    done = 0
    for k in range(n):
        dst = rng.choice([c for c in w.containers() if c != 'src'])
        s = w.objs['src']
        base = w.pick_unit(s.contents, allow_zero_measure=0.0)
        m = R.measure(s.contents, base)
        if m <= 0:
            break
        mode = 'feasible'
        if k == n - 1 and rng.random() < 0.5:
            mode = 'whole'
        elif rng.random() < 0.03:
            mode = 'zero'
        res = w.transfer_cc('src', dst, mode=mode, base=base)
        if res is not None:
            done += 1
    # composition of what is left equals the composition at the start (uniform aliquots preserve it)
    end = w.objs['src'].contents
    big = max(start, key=lambda s: start[s])
    if end.get(big, 0) > 0 and start[big] > 0:
        M.count('CHAIN.composition')
        q = R.cfg().q
        for s, a in start.items():
            if a <= 0:
                continue
            # a_end/a_start must be the same for all substances, up to done*K*q absolute per substance
            exp = a * (end[big] / start[big])
            tol = (done + 1) * R.K * q * (1 + a / start[big]) + 1e-9 * abs(exp)
            if not M.ratio('CHAIN', end.get(s, 0.0), exp, tol):
                M.violate(['C02'], 'ALIQ', 'C02:composition_drift_over_chain',
                          {'substance': s.name, 'start': a, 'end': end.get(s, 0.0), 'expected_end': exp, 'tol': tol,
                           'transfers': done, 'program': w.log[-5:]})
                break
        M.bucket('C02/chain/len>=30' if done >= 30 else 'C02/chain/short')


# --------------------------------------------------------------------------------------------------
# directed edge workloads shared between several checks (pv/edges.py)

_plan_without_edges, _run_job_without_edges = plan, run_job
_required_without_edges = globals().get('required_buckets')


def required_buckets(tier):
    return (list(_required_without_edges(tier)) if _required_without_edges else []) + [ID + '/edge/']


def plan(tier, seed):
    from .common import edges_jobs
    return _plan_without_edges(tier, seed) + edges_jobs(tier)


def run_job(job):
    if job['kind'] == 'edges':
        from pv.edges import edges
        from .common import run_cases
        return run_cases(job, edges)
    return _run_job_without_edges(job)
