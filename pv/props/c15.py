"""C15 Container flows and amount remaining balance with the recipe's state.
Deciding step: the offline ledger checker (prefix bakes): per object and timeframe, remaining = total content
at the first/last boundary of the steps using it; flows = per-step (per-well) positive/negative deltas; the
balance identity on the reported numbers."""
from __future__ import annotations

from .common import under_display_configs, shard, run_cases, BASE_ASSUMPTIONS

ID = 'C15'
LEVEL = 'exploration'
DECIDING = ['C15.remaining', 'C15.flows', 'C15.balance']
MIN_EVAL = {'quick': 8000, 'thorough': 250000}
MIN_MONITOR = {'ledger.built': 150, 'C15.balance': 500}
RULE = ('the C08 programs; every object x every stage in which at least one step uses it x 3 random units out of '
        '{uL, mL, mg, g, umol, mol, U} x {before, after}: get_amount_remaining and get_container_flows vs the ledger, and '
        'inflow - outflow = change in remaining on the reported numbers; evaluations = queries compared; non-trivial = a '
        'query that agreed with a ledger in which the object changed; distinct by (program, object, timeframe, unit)')
ASSUMPTIONS = BASE_ASSUMPTIONS + ['"used by a step" is taken from the program (incl. the solvent container of a create_solution step)',
                                  'known finding KF23: that solvent container is not recorded as a source by the recipe']


def required_buckets(tier):
    req = []
    for k in ('container', 'plate'):
        for b in ('L', 'g', 'mol', 'U'):
            req += [f'C15/remaining/{k}/{b}/before', f'C15/remaining/{k}/{b}/after', f'C15/flows/{k}/{b}']
    return req


def plan(tier, seed):
    if tier == 'quick':
        return shard('program', 240, 14) + under_display_configs(shard('program', 30, 2))
    return shard('program', 7000, 40) + under_display_configs(shard('program', 700, 8))


def run_job(job):
    return run_cases(job, program)


def program(rng, case, idx):
    from pv.recipes import run_recipe_case
    run_recipe_case(rng, case, idx, focus='plates' if idx % 3 == 0 else None)


# --------------------------------------------------------------------------------------------------
# directed edge workloads shared between several checks (pv/edges.py)

_plan_without_edges, _run_job_without_edges = plan, run_job
_required_without_edges = globals().get('required_buckets')


def required_buckets(tier):
    return (list(_required_without_edges(tier)) if _required_without_edges else []) + [ID + '/edge/']


def plan(tier, seed):
    from .common import edges_jobs
    return _plan_without_edges(tier, seed) + edges_jobs(tier)


def run_job(job):
    if job['kind'] == 'edges':
        from pv.edges import edges
        from .common import run_cases
        return run_cases(job, edges)
    return _run_job_without_edges(job)
