"""C01 Transfers conserve every substance.  Deciding monitor: CONS (container and plate level) +
bit-identical untouched wells (LOCAL), on every transfer of generated histories incl. nested ones."""
from __future__ import annotations

from .common import under_display_configs, shard, run_cases, BASE_ASSUMPTIONS, repo_suite, repo_suite_job, under_density_configs

ID = 'C01'
LEVEL = 'exploration'
DECIDING = ['CONS.container', 'CONS.plate']
MIN_EVAL = {'quick': 3000, 'thorough': 50000}
MIN_MONITOR = {'CONS.plate': 300, 'LOCAL': 300}
RULE = ('seeded histories (containers of 0-4 random solids/liquids/enzymes, plates up to 4x6 quick / 8x12 thorough) '
        'ending in transfers of every unit x prefix and every pairing form; evaluations = CONS evaluations '
        '(one per container-level transfer incl. nested + one per plate-level transfer); non-trivial = a transfer '
        'that moved a non-zero amount; distinct by (form, geometry, addressed wells, quantity string, source contents)')
ASSUMPTIONS = BASE_ASSUMPTIONS + ['known findings: container transferred into itself; overlapping regions of one plate']
FORMS = ['C->C', 'C->N', 'N->C', '1->N', 'N->1', 'N->N']


def required_buckets(tier):
    req = [f'C01/unit={u}/form={f}' for u in ('L', 'g', 'mol', 'U') for f in FORMS]
    req.append('C01/same_plate_disjoint')
    return req


def plan(tier, seed):
    jobs = _plan(tier, seed)
    # the same histories under the documented non-default densities (a fraction of the budget)
    n_cfg = 24 if tier == 'quick' else 400
    jobs = jobs + under_density_configs(shard('history', n_cfg, 2 if tier == 'quick' else 8))
    # a fraction of the budget under other documented configurations (display units / precisions, storage units with
    # unequal prefixes)
    jobs = jobs + under_display_configs(shard('history', 20, 2) if tier == 'quick' else shard('history', 300, 8))
    if tier != 'quick' or False:
        jobs = jobs + repo_suite_job()
    return jobs


def _plan(tier, seed):
    n = 320 if tier == 'quick' else 6000
    jobs = shard('history', n, 16 if tier == 'quick' else 48, big=(tier != 'quick'))
    jobs += shard('witness', 1, 1)
    return jobs


def run_job(job):
    if job['kind'] == 'repo_suite':
        return run_cases(job, repo_suite)
    if job['kind'] == 'witness':
        return run_cases(job, witness)
    return run_cases(job, history)


def history(rng, case, idx):
    from pv.gen import World
    big = (case.get('params') or {}).get('big')
    mp = (8, 12) if (big and rng.random() < 0.15) else (4, 6)
    w = World(rng, case, max_plate=mp)
    w.populate(n_containers=rng.randint(2, 4), n_plates=rng.randint(1, 3))
    weights = {'cc': 5, 'cp': 4, 'pc': 3, 'pp': 6, 'remove': 1, 'fill': 1, 'observe': 0, 'newc': 1, 'kept': 2}
    for _ in range(rng.randint(8, 40)):
        w.history_step(weights)


def witness(rng, case, idx):
    """Directed witnesses of the recorded findings (rows 1 and 2); executed on every run."""
    import pyplate.pyplate as pp
    from pv.monitors import M
    S, C, P = pp.Substance, pp.Container, pp.Plate
    water = S.liquid('H2O', 18.0153, 1)
    salt = S.solid('NaCl', 58.4428)
    with M.active(case):
        c = C('self', initial_contents=[(water, '10 mL'), (salt, '1 g')])
        try:
            C.transfer(c, c, '1 mL')
        except Exception:
            pass
        src = C('src', initial_contents=[(water, '10 mL'), (salt, '1 g')])
        p = P('p', '500 uL', rows=2, columns=3)
        _, p = P.transfer(src, p, '100 uL')
        # 1 -> N with the source well inside the destination region
        try:
            P.transfer(p[1, 1], p[1, :], '10 uL')
        except Exception:
            pass
        # shifted N -> N on one plate (overlapping rectangles)
        try:
            P.transfer(p[1, 1:2], p[1, 2:3], '10 uL')
        except Exception:
            pass
        # N -> 1 with the collecting well inside the source region (the mirror image: the collected material is destroyed)
        try:
            P.transfer(p['A'], p['A:2'], '10 uL')
        except Exception:
            pass
