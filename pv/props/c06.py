"""C06 Unit conversions follow molar mass, density and specific activity.
Deciding monitor: CONV on the real Unit.convert_from / convert / convert_to_storage / convert_from_storage
(every call, also the nested ones made by API workloads) against an independent factor table; the complete
kind x unit-pair x prefix-pair table is driven for generated substances, plus linearity, composition and
round trips wherever the factor is finite and non-zero; repeated under other default densities."""
from __future__ import annotations

from .common import shard, run_cases, BASE_ASSUMPTIONS

ID = 'C06'
LEVEL = 'exploration'
UNIT_MONITORS = True
DECIDING = ['CONV', 'CONV.algebra']
MIN_EVAL = {'quick': 200000, 'thorough': 4000000}
MIN_MONITOR = {'CONV.storage': 200, 'CONV.convert': 1000, 'CONV.algebra': 20000}
RULE = ('for substances with random molecular weight (10-1000), density (0.5-2 g/mL; configured default for solids/enzymes) '
        'and specific activity (6 decades, every spelling U/g, U/mg, g/U ...): the COMPLETE table of 3 kinds x 4x4 base '
        'units x 10x10 prefixes (4800 cells) for the amounts 0, 1, a random one, 1e-9 and 1e9, each compared with the '
        'factor implied by the definitions (relative 1e-12); linearity, composition a->b->c = a->c and round trip on every '
        'cell with a finite non-zero factor; storage conversions; the table is exhaustive, amounts and substance '
        'parameters are sampled; repeated in separate processes under default densities (solid 1, 2.5, inf; enzyme 1, 50, '
        'inf); evaluations = conversions compared; non-trivial = a conversion with a finite non-zero factor between '
        'different base units; distinct by (substance parameters, amount, from, to)')
ASSUMPTIONS = BASE_ASSUMPTIONS + ['1 mol = MW g = MW/rho mL; 1 U = 1/a g = 1/rho_e mL (a in U/g, rho_e in U/mL); enzymes carry no '
                                  'moles, non-enzymes no activity (-> 0); a non-enzyme measured in U is rejected']
PREF = ['n', 'u', 'µ', 'm', 'c', 'd', '', 'da', 'k', 'M']
BASES = ['mol', 'g', 'L', 'U']
CONFIGS = [None, {'default_solid_density': 2.5, 'default_enzyme_density': 50}, {'default_solid_density': 'inf', 'default_enzyme_density': 'inf'}]


def required_buckets(tier):
    req = []
    for k in ('solid', 'liquid', 'enzyme'):
        for a in BASES:
            for b in BASES:
                req.append(f'C06/cell/{k}/{a}->{b}')
    for p in PREF:
        req.append(f'C06/prefix_from/{p or "-"}')
        req.append(f'C06/prefix_to/{p or "-"}')
    req += ['C06/config/default', 'C06/config/2.5_50', 'C06/config/inf_inf', 'C06/rejected/non_enzyme_in_U', 'C06/api_history']
    return req


def plan(tier, seed):
    jobs = []
    n = 16 if tier == 'quick' else 240
    per_cfg = [n // 2, n // 4, n - n // 2 - n // 4]
    for cfg, k in zip(CONFIGS, per_cfg):
        js = shard('table', k, max(1, k // (2 if tier == 'quick' else 8)), full=(tier != 'quick'))
        for j in js:
            if cfg:
                j['config'] = cfg
            j['params']['cfg'] = 'default' if not cfg else f"{cfg['default_solid_density']}_{cfg['default_enzyme_density']}"
        # distinct case indices per configuration
        jobs += js
    jobs += shard('api', 16 if tier == 'quick' else 400, 4 if tier == 'quick' else 16)
    for j in jobs:
        if j['kind'] == 'api':
            j['params']['cfg'] = 'default'
    return jobs


def run_job(job):
    return run_cases(job, api if job['kind'] == 'api' else table)


def api(rng, case, idx):
    """Ordinary API histories with the CONV monitor on: every conversion the library makes internally (transfers,
    solutions, observers) is compared with the factor table too."""
    from pv.gen import World
    from pv.props.c04 import extra_ops
    from pv.monitors import M
    M.bucket('C06/api_history')
    w = World(rng, case)
    w.check_aliasing = False
    w.populate()
    for _ in range(rng.randint(10, 25)):
        if rng.random() < 0.3:
            extra_ops(w)
        else:
            w.history_step()


def table(rng, case, idx):
    import math
    import pyplate.pyplate as pp
    from pv import refmodel as R
    from pv.monitors import M
    from pv.gen import make_substances
    U = pp.Unit
    cfgname = (case.get('params') or {}).get('cfg', 'default')
    M.bucket(f'C06/config/{cfgname}')
    rng.seed(f'{cfgname}:{idx}:{rng.random()}')
    subs = make_substances(rng, 6, fixtures=(idx % 2 == 0))
    # make sure all three kinds are present
    S = pp.Substance
    kinds = {R.kind(s) for s in subs}
    if 'solid' not in kinds:
        subs.append(S.solid('solZ', 123.4))
    if 'enzyme' not in kinds:
        from pv.gen import declared_enzyme
        subs.append(declared_enzyme(S, 'enzZ', rng.choice(['7 U/mg', '7000 U/g', '0.142857142857 mg/U', '1.42857142857e-4 g/U'])))
    units = [p + b for b in BASES for p in PREF]
    full = (case.get('params') or {}).get('full')
    amounts = [0, 1, rng.uniform(0.001, 1000), 1e-9, 1e9] if full else [0, 1, rng.uniform(0.001, 1000)]
    with M.active(case):
        for s in subs:
            k = R.kind(s)
            for fu in units:
                pf, bf = R.split_unit(fu)
                M.bucket(f'C06/prefix_from/{pf or "-"}')
                for tu in units:
                    pt, bt = R.split_unit(tu)
                    if fu == units[0]:
                        M.bucket(f'C06/prefix_to/{pt or "-"}')
                    M.bucket(f'C06/cell/{k}/{bf}->{bt}')
                    for a in amounts:
                        try:
                            got = U.convert_from(s, a, fu, tu)
                        except Exception:
                            if bf == 'U' and k != 'enzyme':
                                M.bucket('C06/rejected/non_enzyme_in_U')
                            continue
                        if a and got and bf != bt and math.isfinite(got):
                            M.note_nontrivial('C06', (k, s.mol_weight, s.density, s.specific_activity, a, fu, tu))
                    # algebra on cells with a finite non-zero factor
                    fa, fb = R.per(s, bf), R.per(s, bt)
                    if fa and fb and not (bf == 'U' and k != 'enzyme'):
                        a = amounts[2]
                        M.count('CONV.algebra')
                        with M.oracle():
                            x = U.convert_from(s, a, fu, tu)
                            lin = U.convert_from(s, 3 * a, fu, tu)
                            back = U.convert_from(s, x, tu, fu)
                            mid = rng.choice(units)
                            pm, bm = R.split_unit(mid)
                            comp = None
                            if R.per(s, bm) and not (bm == 'U' and k != 'enzyme'):
                                comp = U.convert_from(s, U.convert_from(s, a, fu, mid), mid, tu)
                        if abs(lin - 3 * x) > 1e-12 * abs(3 * x):
                            M.violate(['C06'], 'CONV', f'C06:not_linear:{k}:{bf}->{bt}', {'s': k, 'a': a, 'from': fu, 'to': tu, 'x': x, 'x3': lin})
                        if abs(back - a) > 1e-12 * abs(a):
                            M.violate(['C06'], 'CONV', f'C06:round_trip:{k}:{bf}->{bt}', {'s': k, 'a': a, 'from': fu, 'to': tu, 'back': back})
                        if comp is not None and abs(comp - x) > 1e-12 * abs(x):
                            M.violate(['C06'], 'CONV', f'C06:composition:{k}:{bf}->{bm}->{bt}',
                                      {'s': k, 'a': a, 'from': fu, 'mid': mid, 'to': tu, 'direct': x, 'composed': comp})
            # Unit.convert (string entry point) and storage conversions
            for _ in range(40):
                fu, tu = rng.choice(units), rng.choice(units)
                if fu.endswith('U') and fu != 'U':
                    continue
                try:
                    U.convert(s, f'{rng.uniform(0.01, 100)!r} {fu}', tu)
                except Exception:
                    pass
        for _ in range(100):
            v = rng.choice([0, 1, rng.uniform(1e-6, 1e6), 10 ** rng.uniform(-6, 6)])
            u = rng.choice([p + 'L' for p in PREF] + [p + 'mol' for p in PREF])
            try:
                st = U.convert_to_storage(v, u)
                U.convert_from_storage(st, u)
                U.convert_from_storage(v, u)
            except Exception:
                pass
    if len(M.samples['C06']) < 4:
        s = subs[0]
        with M.oracle():
            M.sample('C06', {'substance': {'kind': R.kind(s), 'mw': s.mol_weight, 'density': s.density, 'sa': s.specific_activity},
                             'example': ['1 mL ->', U.convert_from(s, 1, 'mL', 'mg') if R.kind(s) != 'x' else None, 'mg'],
                             'cells_driven': len(units) ** 2, 'amounts': amounts})


def finalize(m, tier):
    cells = len([k for k in m['buckets'] if k.startswith('C06/cell/')])
    pf = len([k for k in m['buckets'] if k.startswith('C06/prefix_from/')])
    pt = len([k for k in m['buckets'] if k.startswith('C06/prefix_to/')])
    return {'coverage': {'exhaustive': cells == 48 and pf == 10 and pt == 10,
                         'table_cells_kind_x_unit_pair': cells, 'prefixes_from': pf, 'prefixes_to': pt,
                         'exhaustive_over': 'the table kind x from-unit x to-unit x prefix x prefix (4800 cells); substance '
                                            'parameters and amounts are sampled'}}


# --------------------------------------------------------------------------------------------------
# directed edge workloads shared between several checks (pv/edges.py)

_plan_without_edges, _run_job_without_edges = plan, run_job
_required_without_edges = globals().get('required_buckets')


def required_buckets(tier):
    return (list(_required_without_edges(tier)) if _required_without_edges else []) + [ID + '/edge/']


def plan(tier, seed):
    from .common import edges_jobs
    return _plan_without_edges(tier, seed) + edges_jobs(tier)


def run_job(job):
    if job['kind'] == 'edges':
        from pv.edges import edges
        from .common import run_cases
        return run_cases(job, edges)
    return _run_job_without_edges(job)
