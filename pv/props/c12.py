"""C12 create_solution_from dilutes a stock as requested and conserves material.
Deciding monitor: FROM (requested total in its unit, requested concentration in its unit, new solution =
uniform aliquot of the source (+ uniform aliquot of the solvent container) + pure solvent only, material
balance per substance).  Requests are generated constructively (pick the aliquot and the solvent amount,
compute the target concentration and total from the resulting reference mixture)."""
from __future__ import annotations

from .common import under_display_configs, shard, run_cases, BASE_ASSUMPTIONS, repo_suite, repo_suite_job

ID = 'C12'
LEVEL = 'exploration'
DECIDING = ['FROM']
MIN_EVAL = {'quick': 1200, 'thorough': 40000}
MIN_MONITOR = {'FROM.calls': 2000}
RULE = ('stocks of 2-4 substances (solid or liquid solute, liquid solvent, further components, enzymes as bystanders, dense '
        'solvents); pure-substance and container solvents (with and without the solute in them); the request is built '
        'from a chosen aliquot fraction and solvent amount: target concentration in a random numerator/denominator pair '
        'and spelling, total in L, g or mol; infeasible requests: a concentration above the stock\'s, a demand beyond the '
        'stock; evaluations = FROM postcondition evaluations on accepted calls; non-trivial = all postconditions compared '
        'on a returned solution; distinct by (units, solvent kind, arguments, stock)')
ASSUMPTIONS = BASE_ASSUMPTIONS + [
    'when the solvent container already holds the solute near the target concentration the 2x2 problem is ill-conditioned: '
    'refusals are then three-valued']
PAIRS = [('mol', 'L'), ('g', 'L'), ('g', 'g'), ('mol', 'mol'), ('mol', 'g'), ('L', 'L'), ('g', 'mol'), ('L', 'g'), ('L', 'mol')]


def required_buckets(tier):
    req = []
    for n, d in PAIRS:
        req.append(f'C12/{n}/{d}/')
    for q in ('L', 'g', 'mol'):
        req += [f'C12/mol/L/q={q}/pure/accepted', f'C12/mol/L/q={q}/container/accepted']
    req += ['C12/infeasible/above_stock', 'C12/infeasible/beyond_stock', 'C12/enz_bystander', 'C12/zero_entry_first', 'C12/infeasible/empty_solvent_container', 'C12/rare_number_spelling']
    return req


def plan(tier, seed):
    jobs = _plan(tier, seed)
    # a fraction of the budget under other documented configurations (display units / precisions, storage units with
    # unequal prefixes)
    jobs = jobs + under_display_configs(shard('constructive', 60, 2) if tier == 'quick' else shard('constructive', 2000, 8))
    if tier != 'quick' or False:
        jobs = jobs + repo_suite_job()
    return jobs


def _plan(tier, seed):
    if tier == 'quick':
        return shard('constructive', 700, 10)
    return shard('constructive', 25000, 32)


def run_job(job):
    if job['kind'] == 'repo_suite':
        return run_cases(job, repo_suite)
    return run_cases(job, constructive)


def constructive(rng, case, idx):
    import pyplate.pyplate as pp
    from pv.gen import World, spell, liquids
    from pv.props.c11 import spell_conc
    from pv import refmodel as R
    from pv.monitors import M
    C = pp.Container
    w = World(rng, case)
    w.check_aliasing = False
    cf = R.cfg()
    liqs = liquids(w.subs)
    for trial in range(4):
        solvent = rng.choice(liqs)
        pool = [s for s in w.subs if not s.is_enzyme() and s != solvent]
        if not pool:
            continue
        solute = rng.choice(pool)
        # ---- the stock
        init = [(solute, spell(rng, 10 ** rng.uniform(-5, -1), 'mol')),
                (rng.choice([solvent, solvent, rng.choice(liqs)]), spell(rng, 10 ** rng.uniform(-3, 0), 'L'))]
        init = [e for i, e in enumerate(init) if e[0] not in [x[0] for x in init[:i]]]
        extra = rng.random()
        enz = [s for s in w.subs if s.is_enzyme()]
        has_enz = False
        if extra < 0.3:
            o = [s for s in w.subs if not s.is_enzyme() and s not in (solute, solvent)]
            if o:
                init.append((rng.choice(o), spell(rng, 10 ** rng.uniform(-5, -2), 'mol')))
        elif extra < 0.5 and enz:
            init.append((rng.choice(enz), spell(rng, 10 ** rng.uniform(-2, 3), 'U')))
            has_enz = True
        rng.shuffle(init)
        if rng.random() < 0.15:
            # an entry that holds nothing (a tube emptied of something and refilled; an additive at '0 mg'), first in order
            zs = [s_ for s_ in w.subs if s_ not in [e_[0] for e_ in init]]
            if zs:
                z = rng.choice(zs)
                init.insert(0, (z, '0 U' if z.is_enzyme() else rng.choice(['0 mg', '0 mmol'])))
                M.bucket('C12/zero_entry_first')
        with M.active(case):
            try:
                stock = C('stock', initial_contents=init)
            except Exception:
                continue
        if R.measure(stock.contents, 'L') <= 0:
            continue
        # ---- solvent: pure or container
        skind = rng.choice(['pure', 'pure', 'container', 'container_solute', 'container_enz'])
        solv_obj = solvent
        if skind != 'pure':
            sinit = [(solvent, spell(rng, 10 ** rng.uniform(-3, 0), 'L'))]
            if skind == 'container_solute':
                sinit.append((solute, spell(rng, 10 ** rng.uniform(-7, -3), 'mol')))
            if skind == 'container_enz' and enz:
                sinit.append((rng.choice(enz), spell(rng, 10 ** rng.uniform(-2, 2), 'U')))
                has_enz = True
            elif rng.random() < 0.3:
                o = [s for s in w.subs if not s.is_enzyme() and s not in (solute, solvent)]
                if o:
                    sinit.append((rng.choice(o), spell(rng, 10 ** rng.uniform(-6, -3), 'mol')))
            if rng.random() < 0.15:
                zs = [s_ for s_ in w.subs if s_ not in [e_[0] for e_ in sinit] and s_ != solute]
                if zs:
                    z = rng.choice(zs)
                    sinit.insert(0, (z, '0 U' if z.is_enzyme() else '0 mg'))
                    M.bucket('C12/zero_entry_first')
            with M.active(case):
                try:
                    solv_obj = C('solv', initial_contents=sinit)
                except Exception:
                    continue
        if has_enz:
            M.bucket('C12/enz_bystander')
        # ---- the chosen mixture
        x = rng.uniform(0.01, 0.8)
        new = {s: a * x for s, a in stock.contents.items()}
        vol_x = R.measure(new, 'L')
        if skind == 'pure':
            y_canon = vol_x * 10 ** rng.uniform(-1, 1.5) / R.per(solvent, 'L')
            new[solvent] = new.get(solvent, 0.0) + R.stored_from_canon(solvent, y_canon)
        else:
            g = rng.uniform(0.01, 0.8)
            for s, a in solv_obj.contents.items():
                new[s] = new.get(s, 0.0) + a * g
        num, den = rng.choice(PAIRS)
        if R.per(solute, num) == 0:
            num = 'mol'
        cval = R.concentration(new, solute, num, den)
        c_stock = R.concentration(stock.contents, solute, num, den)
        if not (1e-5 < cval < 1e8):
            num, den = 'mol', 'L'
            cval = R.concentration(new, solute, num, den)
            c_stock = R.concentration(stock.contents, solute, num, den)
            if not (1e-5 < cval < 1e8):
                continue
        qb = rng.choice(['L', 'L', 'g', 'mol'])
        total = R.measure(new, qb)
        conc = spell_conc(rng, cval, num, den, solute)
        qty = spell(rng, total, qb, exact=True)
        fragile = False
        if skind != 'pure' and solute in solv_obj.contents:
            c_solv = R.concentration(solv_obj.contents, solute, num, den)
            if abs(c_solv - cval) < 0.5 * cval or abs(c_stock - c_solv) < 0.2 * c_stock:
                fragile = True
        if abs(c_stock - cval) < 1e-3 * c_stock:
            fragile = True
        name = rng.choice([None, 'diluted'])
        step = {'op': 'solution_from', 'stock': [[s.name, q] for s, q in init], 'solute': solute.name, 'conc': conc,
                'solvent': skind if skind != 'pure' else solvent.name, 'q': qty}
        expect = None if fragile else {'op': 'Container.create_solution_from', 'must': 'accept',
                                       'tag': f'constructive:{num}/{den}:q={qb}:{skind}'}
        w.do('Container.create_solution_from', step,
             lambda: C.create_solution_from(stock, solute, conc, solv_obj, qty, name), expect=expect)
        # ---- infeasible: above the stock's concentration (pure solvent), or beyond the stock's amount
        if skind == 'pure' and solvent not in (solute,):
            M.bucket('C12/infeasible/above_stock')
            cbad = spell_conc(rng, c_stock * rng.choice([1.01, 1.5, 10]), num, den, solute)
            w.do('Container.create_solution_from', dict(step, conc=cbad, infeasible='above_stock'),
                 lambda: C.create_solution_from(stock, solute, cbad, solv_obj, qty),
                 expect={'op': 'Container.create_solution_from', 'must': 'refuse', 'tag': 'above_stock'})
        if skind == 'pure' and solvent != solute and rng.random() < 0.3:
            # a round request in a rarer spelling of the number ('50. mL', '5.e1 mL', '+50 mL', '.05 L'): half the stock's
            # concentration, a tenth to a fifth of its volume
            vol_mL = R.measure(stock.contents, 'L') * 1e3 * rng.uniform(0.1, 0.2)
            if vol_mL >= 1:
                n_ = int(float(f'{vol_mL:.1g}'))
                c_half = spell_conc(rng, c_stock * 0.5, num, den, solute)
                qround = rng.choice([f'{n_}. mL', f'+{n_} mL', f'{n_}.0 mL', f'{n_ / 1000:.6f}'.rstrip('0').replace('0.', '.', 1) + ' L'])
                M.bucket('C12/rare_number_spelling')
                w.do('Container.create_solution_from', dict(step, conc=c_half, q=qround, round_request=True),
                     lambda: C.create_solution_from(stock, solute, c_half, solv_obj, qround),
                     expect={'op': 'Container.create_solution_from', 'must': 'accept', 'tag': 'round_request_rare_number_spelling'})
        if rng.random() < 0.1:
            # a solvent container that holds nothing to dilute with (empty, or only an enzyme): nothing can be made
            M.bucket('C12/infeasible/empty_solvent_container')
            with M.active(case):
                hollow = C('hollow') if (not enz or rng.random() < 0.5) else C('hollow', initial_contents=[(enz[0], '5 U')])
            w.do('Container.create_solution_from', dict(step, solvent='hollow', infeasible='empty_solvent_container'),
                 lambda: C.create_solution_from(stock, solute, conc, hollow, qty),
                 expect={'op': 'Container.create_solution_from', 'must': 'refuse', 'tag': 'empty_solvent_container'})
        M.bucket('C12/infeasible/beyond_stock')
        qbad = spell(rng, total * (1.0 / x) * rng.choice([1.01, 1.5, 20]), qb, exact=True)
        if not (skind != 'pure' and solute in solv_obj.contents):
            w.do('Container.create_solution_from', dict(step, q=qbad, infeasible='beyond_stock'),
                 lambda: C.create_solution_from(stock, solute, conc, solv_obj, qbad),
                 expect={'op': 'Container.create_solution_from', 'must': 'refuse', 'tag': 'beyond_stock'})


# --------------------------------------------------------------------------------------------------
# directed edge workloads shared between several checks (pv/edges.py)

_plan_without_edges, _run_job_without_edges = plan, run_job
_required_without_edges = globals().get('required_buckets')


def required_buckets(tier):
    return (list(_required_without_edges(tier)) if _required_without_edges else []) + [ID + '/edge/']


def plan(tier, seed):
    from .common import edges_jobs
    return _plan_without_edges(tier, seed) + edges_jobs(tier)


def run_job(job):
    if job['kind'] == 'edges':
        from pv.edges import edges
        from .common import run_cases
        return run_cases(job, edges)
    return _run_job_without_edges(job)
