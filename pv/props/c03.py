"""C03 Impossible states are never produced; infeasible requests are refused.

Deciding monitors: SANE on every value returned by every operation, FEAS (accept/refuse decision vs the
reference feasibility predicates, three-valued around each boundary).  Workloads: mixed histories with
natural faults, directed boundary probes on both sides of each boundary family, round-number
exact-capacity sweeps, the same requests as recipe steps, and create_solution / create_solution_from requests that
fit by construction or are pushed across a limit (the generators of C05 and C12)."""
from __future__ import annotations

from .common import under_display_configs, shard, run_cases, BASE_ASSUMPTIONS, repo_suite, repo_suite_job, under_density_configs

ID = 'C03'
LEVEL = 'exploration'
DECIDING = ['FEAS.transfer', 'FEAS.ctor', 'FEAS.fill_to', 'FEAS.dilute', 'SANE']
MIN_EVAL = {'quick': 20000, 'thorough': 300000}
MIN_MONITOR = {'FEAS.transfer': 2000, 'FEAS.ctor': 500, 'FEAS.fill_to': 300, 'FEAS.dilute': 100, 'PROBE': 1000}
RULE = ('mixed histories whose requests are drawn feasible / on a named boundary / infeasible from the live state, '
        'plus directed probes at relative distance 0, +-3e-6, +-1e-3 from each boundary (over-draw per unit, negative '
        'quantity, capacity at construction / transfer destination / fill_to / dilute, fill below current, dilution '
        'above current, zero-measure sources, the same as recipe steps) and round-number exact-capacity sweeps; '
        'evaluations = FEAS + SANE evaluations; non-trivial = a probe within 1e-3 of a boundary; distinct by '
        '(family, unit, distance, state)')
ASSUMPTIONS = BASE_ASSUMPTIONS + [
    'requests within 1e-6 relative (+ rounding quanta) of a boundary are three-valued (either decision accepted) '
    'except the exact cases the property names: exact-capacity construction/fill and whole-content transfers',
    'known finding: exact-capacity *transfers* refused by float noise in a minority of cases']
DIST = [-1e-3, -3e-6, 0.0, 3e-6, 1e-3]


def required_buckets(tier):
    req = []
    for u in ('L', 'g', 'mol', 'U'):
        req += [f'C03/transfer/{u}/infeasible:overdraw/refused', f'C03/transfer/{u}/feasible:/accepted',
                f'C03/transfer/{u}/infeasible:negative/refused']
    req += ['C03/transfer/L/boundary:whole_content/accepted', 'C03/sweep/whole_content', 'C03/transfer/L/infeasible:capacity/refused', 'C03/ctor/capacity/refused', 'C03/ctor/exact/accepted',
            'C03/ctor/negative_quantity/refused']
    for u in ('L', 'g', 'mol'):
        req += [f'C03/fill_to/{u}/infeasible:below_current/refused', f'C03/fill_to/{u}/feasible:/accepted']
    req += ['C03/fill_to/L/exact:capacity/accepted', 'C03/fill_to/L/infeasible:capacity/refused',
            'C03/dilute/infeasible:above_current/refused', 'C03/dilute/feasible:/accepted',
            'C03/probe/B8_recipe', 'C03/probe/B9_zero_measure', 'C03/sweep/', 'C03/solutions/create_solution',
            'C03/solutions/create_solution_from', 'C05/infeasible/', 'C12/infeasible/above_stock', 'C03/sweep/whole_content_in_equal_parts']
    return req


def plan(tier, seed):
    jobs = _plan(tier, seed)
    # the same histories under the documented non-default densities (a fraction of the budget)
    n_cfg = 24 if tier == 'quick' else 400
    jobs = jobs + under_density_configs(shard('history', n_cfg, 2 if tier == 'quick' else 8))
    # a fraction of the budget under other documented configurations (display units / precisions, storage units with
    # unequal prefixes)
    jobs = jobs + under_display_configs(shard('history', 16, 2) + shard('boundary', 16, 2) + shard('solutions', 20, 1) + shard('solutions_from', 16, 1) if tier == 'quick' else shard('history', 300, 8) + shard('boundary', 300, 8) + shard('solutions', 400, 4) + shard('solutions_from', 300, 4))
    if tier != 'quick' or False:
        jobs = jobs + repo_suite_job()
    return jobs


def _plan(tier, seed):
    if tier == 'quick':
        return (shard('history', 160, 6) + shard('boundary', 160, 8) + shard('sweep', 6, 2) + shard('witness', 1, 1)
                + shard('solutions', 240, 4) + shard('solutions_from', 160, 4) + shard('dilutions', 120, 2))
    return (shard('history', 3000, 20, big=True) + shard('boundary', 4000, 24) + shard('sweep', 60, 6, full=True)
            + shard('witness', 1, 1) + shard('solutions', 8000, 16) + shard('solutions_from', 6000, 16) + shard('dilutions', 4000, 16))


def run_job(job):
    if job['kind'] == 'repo_suite':
        return run_cases(job, repo_suite)
    fn = {'history': history, 'boundary': boundary, 'sweep': sweep, 'witness': witness,
          'solutions': solutions, 'solutions_from': solutions_from, 'dilutions': dilutions}[job['kind']]
    return run_cases(job, fn)


def solutions(rng, case, idx):
    """create_solution on both sides of its feasibility boundaries (the constructive generator of C05: every request is
    built from a chosen target mixture, so it fits by construction; the infeasible variants push one value across)."""
    from pv.props.c05 import constructive
    from pv.monitors import M
    M.bucket('C03/solutions/create_solution')
    constructive(rng, case, idx)


def dilutions(rng, case, idx):
    """dilute and fill_to requests that fit by construction or are pushed across a limit (the generator of C11)."""
    from pv.props.c11 import constructive
    from pv.monitors import M
    M.bucket('C03/solutions/dilute_and_fill_to')
    constructive(rng, case, idx)


def solutions_from(rng, case, idx):
    from pv.props.c12 import constructive
    from pv.monitors import M
    M.bucket('C03/solutions/create_solution_from')
    constructive(rng, case, idx)


def history(rng, case, idx):
    from pv.gen import World
    w = World(rng, case)
    w.populate()
    weights = {'cc': 5, 'cp': 4, 'pc': 3, 'pp': 3, 'remove': 1, 'fill': 4, 'observe': 0, 'newc': 2}
    for _ in range(rng.randint(10, 35)):
        w.history_step(weights)


# --------------------------------------------------------------------------------------------------

def _probe(w, family, unit, d, opname, step, fn, expect=None):
    from pv.monitors import M
    M.count('PROBE')
    M.bucket(f'C03/probe/{family}')
    step = dict(step, family=family, d=d)
    res, exc = w.do(opname, step, fn, expect=expect)
    M.note_nontrivial('C03', (family, unit, d, step.get('q'), step.get('state')))
    if len(M.samples['C03']) < 6 and d in (0.0, 3e-6):
        M.sample('C03', {'family': family, 'unit': unit, 'relative_distance_from_boundary': d,
                         'request': {k: v for k, v in step.items() if k not in ('state',)},
                         'outcome': step.get('outcome')})
    return res, exc


def boundary(rng, case, idx):
    import math
    import pyplate.pyplate as pp
    from pv.gen import World, spell, liquids
    from pv import refmodel as R
    from pv.monitors import M
    C = pp.Container
    w = World(rng, case)
    w.check_aliasing = False
    w.populate(n_containers=rng.randint(2, 3), n_plates=1)
    for _ in range(rng.randint(0, 6)):
        w.history_step({'cc': 4, 'cp': 3, 'pc': 1, 'pp': 1, 'fill': 1, 'remove': 1})
    cf = R.cfg()
    srcs = [n for n in w.containers() if any(a > 0 for a in w.objs[n].contents.values())]
    if not srcs:
        return
    sname = rng.choice(srcs)
    s = w.objs[sname]
    big = C('bigdst')
    state = tuple(sorted((x.name, a) for x, a in s.contents.items()))
    # ---- B1 over-draw in each unit, B2 negative
    from pv.handlers import request_quantum

    def resolvable(base_, m_):
        """requests are honoured to a quantum (1e-10 storage units): a source holding less than 1e4 quanta is below
        the resolution at which a relative distance of 3e-6 .. 1e-3 from the boundary means anything"""
        quantum = request_quantum(base_, s.contents)
        if base_ == 'U':
            quantum = cf.q          # activity requests and totals are compared after rounding to 1e-10 U
        # ... and what the source holds is itself only known to one storage quantum per substance
        from pv.handlers import storage_noise_in
        quantum = max(quantum, storage_noise_in(s.contents, base_))
        return m_ > 1e4 * max(quantum, 1e-300)

    for base in R.BASES:
        m = R.measure(s.contents, base)
        if m <= 0 or not resolvable(base, m):
            continue
        for d in DIST:
            q = spell(rng, m * (1 + d), base, exact=True)
            exp = None
            if d == 0.0 and base == 'L':
                # the whole content as the library itself reports it must be accepted
                q = w.whole_volume_request(s)
                exp = {'op': 'Container.transfer', 'must': 'accept', 'tag': 'whole_content_as_reported'}
            _probe(w, 'B1_overdraw', base, d, 'Container.transfer',
                   {'op': 'transfer', 'src': [sname, None], 'dst': ['bigdst', None], 'q': q, 'state': state},
                   lambda q=q: C.transfer(s, big, q), exp)
        for frac in (1e-3, 0.5):
            q = spell(rng, -m * frac, base, exact=True)
            _probe(w, 'B2_negative', base, -frac, 'Container.transfer',
                   {'op': 'transfer', 'src': [sname, None], 'dst': ['bigdst', None], 'q': q, 'state': state},
                   lambda q=q: C.transfer(s, big, q))
    # ---- B2 negative at construction
    sub = rng.choice(w.subs)
    base = 'U' if sub.is_enzyme() else rng.choice(['g', 'mol', 'L'])
    q = spell(rng, -10 ** rng.uniform(-6, 0), base)
    _probe(w, 'B2_negative_ctor', base, -1, 'Container.__init__', {'op': 'container', 'init': [[sub.name, q]], 'q': q},
           lambda: C('neg', initial_contents=[(sub, q)]))
    # ---- B3a capacity at construction
    liq = rng.choice(liquids(w.subs))
    others = [x for x in w.subs if x != liq and R.per(x, 'L') > 0]
    capL = 10 ** rng.uniform(-6, 0)
    cap = spell(rng, capL, 'L')
    capL = R.parse_quantity(cap)[0]
    for d in DIST:
        if others and rng.random() < 0.5:
            o = rng.choice(others)
            share = rng.uniform(0.1, 0.9)
            ob = 'U' if o.is_enzyme() else rng.choice(['g', 'mol'])
            oq = spell(rng, capL * share / R.per(o, 'L') * R.per(o, ob), ob)
            ov = R.parse_quantity(oq)[0] / R.per(o, ob) * R.per(o, 'L')
            init = [(o, oq), (liq, spell(rng, capL * (1 + d) - ov, 'L', exact=True))]
        else:
            init = [(liq, spell(rng, capL * (1 + d), 'L', exact=True))]
        _probe(w, 'B3_capacity_ctor', 'L', d, 'Container.__init__',
               {'op': 'container', 'max': cap, 'init': [[x.name, qq] for x, qq in init], 'q': init[-1][1]},
               lambda init=init: C('capc', cap, init))
    # ---- B3b capacity at a transfer destination (container and a plate well)
    vol_s = R.measure(s.contents, 'L')
    if vol_s > 0:
        room = vol_s * rng.uniform(0.05, 0.5)
        dcap = spell(rng, room, 'L')
        room = R.parse_quantity(dcap)[0]
        dst = C('capdst', dcap)
        for d in DIST:
            q = spell(rng, room * (1 + d), 'L', exact=True)
            _probe(w, 'B3_capacity_transfer', 'L', d, 'Container.transfer',
                   {'op': 'transfer', 'src': [sname, None], 'dst': ['capdst', None], 'q': q, 'state': state},
                   lambda q=q: C.transfer(s, dst, q))
        # by mass: aliquot whose volume just fits
        mg = R.measure(s.contents, 'g')
        if mg > 0:
            for d in (-1e-3, 1e-3):
                q = spell(rng, mg * (room * (1 + d) / vol_s), 'g', exact=True)
                _probe(w, 'B3_capacity_transfer', 'g', d, 'Container.transfer',
                       {'op': 'transfer', 'src': [sname, None], 'dst': ['capdst', None], 'q': q, 'state': state},
                       lambda q=q: C.transfer(s, dst, q))
        pl = pp.Plate('capp', dcap, rows=1, columns=2)
        for d in (-1e-3, 1e-3):
            q = spell(rng, min(room, vol_s / 2) * (1 + d) if room < vol_s / 2 else room * (1 + d), 'L', exact=True)
            if room < vol_s / 2:
                _probe(w, 'B3_capacity_transfer_plate', 'L', d, 'Plate.transfer',
                       {'op': 'transfer', 'src': [sname, None], 'dst': ['capp', None], 'q': q, 'state': state},
                       lambda q=q: pp.Plate.transfer(s, pl, q))
    # ---- B3c / B4 fill_to: capacity above, current below
    tgt = w.objs[rng.choice(w.containers())]
    solvent = rng.choice(liquids(w.subs))
    for base in ('L', 'g', 'mol'):
        cur = R.measure(tgt.contents, base)
        if cur > 0:
            for d in DIST:
                q = spell(rng, cur * (1 + d), base, exact=True)
                _probe(w, 'B4_fill_below_current', base, d, 'Container.fill_to',
                       {'op': 'fill_to', 'dst': [tgt.name, None], 'solvent': solvent.name, 'q': q,
                        'state': tuple(sorted((x.name, a) for x, a in tgt.contents.items()))},
                       lambda q=q: tgt.fill_to(solvent, q))
        if math.isfinite(tgt.max_volume):
            capL_t = tgt.max_volume * cf.vol_prefix
            roomL = capL_t - R.measure(tgt.contents, 'L')
            if roomL > 0:
                for d in DIST:
                    # target such that the final volume is cap*(1+d)
                    addL = capL_t * (1 + d) - R.measure(tgt.contents, 'L')
                    val = cur + addL / R.per(solvent, 'L') * R.per(solvent, base)
                    q = spell(rng, val, base, exact=True)
                    _probe(w, 'B3_capacity_fill', base, d, 'Container.fill_to',
                           {'op': 'fill_to', 'dst': [tgt.name, None], 'solvent': solvent.name, 'q': q,
                            'state': tuple(sorted((x.name, a) for x, a in tgt.contents.items()))},
                           lambda q=q: tgt.fill_to(solvent, q))
    # exact-capacity fill in litres on a fresh vessel holding something
    capq = spell(rng, 10 ** rng.uniform(-5, 0), 'L')
    capv = R.parse_quantity(capq)[0]
    try:
        with M.active(case):
            v = C('exactfill', capq, [(solvent, spell(rng, capv * rng.uniform(0.1, 0.9), 'L'))])
        _probe(w, 'B3_capacity_fill_exact', 'L', 0.0, 'Container.fill_to',
               {'op': 'fill_to', 'dst': ['exactfill', None], 'solvent': solvent.name, 'q': capq},
               lambda: v.fill_to(solvent, capq))
    except ValueError:
        pass
    # ---- B5 dilution target above / below current (binary solid-in-liquid solution)
    solids = [x for x in w.subs if x.is_solid()]
    if solids:
        solute = rng.choice(solids)
        solv = rng.choice(liquids(w.subs))
        try:
            with M.active(case):
                sol = C('dil', initial_contents=[(solv, spell(rng, 10 ** rng.uniform(-4, -1), 'L')),
                                                 (solute, spell(rng, 10 ** rng.uniform(-5, -2), 'mol'))])
        except ValueError:
            sol = None
        if sol is not None:
            for num, den in (('mol', 'L'), ('g', 'L'), ('g', 'g'), ('mol', 'mol'), ('mol', 'g')):
                c0 = R.concentration(sol.contents, solute, num, den)
                for d in (-0.5, -1e-3, 1e-3, 0.5):
                    cs = f'{c0 * (1 + d)!r} {num}/{den}'
                    _probe(w, 'B5_dilute_above_current', f'{num}/{den}', d, 'Container.dilute',
                           {'op': 'dilute', 'dst': 'dil', 'solute': solute.name, 'conc': cs, 'solvent': solv.name, 'q': cs},
                           lambda cs=cs: sol.dilute(solute, cs, solv))
            # a container emptied of everything (the solute is still a key, with a zero amount)
            try:
                with M.active(case):
                    emptied, _ = C.transfer(sol, C('sink'), w.whole_volume_request(sol))
                _probe(w, 'B5_dilute_emptied_container', 'mol/L', 0, 'Container.dilute',
                       {'op': 'dilute', 'dst': 'emptied', 'solute': solute.name, 'conc': '0.001 M', 'solvent': solv.name, 'q': '0.001 M'},
                       lambda: emptied.dilute(solute, '0.001 M', solv))
            except ValueError:
                pass
    # ---- B9 zero-measure sources
    empty = C('empty')
    enz = [x for x in w.subs if x.is_enzyme()]
    for base in ('L', 'g', 'mol', 'U'):
        q = spell(rng, 10 ** rng.uniform(-6, -3), base)
        _probe(w, 'B9_zero_measure', base, 1, 'Container.transfer',
               {'op': 'transfer', 'src': ['empty', None], 'dst': ['bigdst', None], 'q': q},
               lambda q=q: C.transfer(empty, big, q))
    if enz:
        e = enz[0]
        with M.active(case):
            eo = C('enzonly', initial_contents=[(e, '5 U')])
        q = spell(rng, 1e-6, 'mol')
        _probe(w, 'B9_zero_measure', 'mol', 1, 'Container.transfer',
               {'op': 'transfer', 'src': ['enzonly', None], 'dst': ['bigdst', None], 'q': q},
               lambda: C.transfer(eo, big, q))
    noenz = [n for n in srcs if not any(x.is_enzyme() and a > 0 for x, a in w.objs[n].contents.items())]
    if noenz:
        ne = w.objs[noenz[0]]
        _probe(w, 'B9_zero_measure', 'U', 1, 'Container.transfer',
               {'op': 'transfer', 'src': [noenz[0], None], 'dst': ['bigdst', None], 'q': '1 U'},
               lambda: C.transfer(ne, big, '1 U'))
    # ---- B8 the same requests as recipe steps: refused at bake with ValueError, accepted otherwise
    for base in R.BASES:
        m = R.measure(s.contents, base)
        if m <= 0 or not resolvable(base, m):
            continue
        for d, must in ((-0.5, 'accept'), (0.5, 'refuse')):
            q = spell(rng, m * (1 + d), base)
            M.count('PROBE')
            M.bucket('C03/probe/B8_recipe')
            r = pp.Recipe()
            outcome = None
            with M.active(case):
                try:
                    dstc = C('rdst')
                    r.uses(s, dstc)
                    r.transfer(s, dstc, q)
                    res = r.bake()
                    outcome = 'ok'
                except Exception as e:  # noqa
                    outcome = type(e).__name__
            if must == 'refuse' and outcome != 'ValueError':
                M.violate(['C03'], 'FEAS', f'C03:recipe_step_infeasible_not_refused_with_ValueError:{base}:{outcome}',
                          {'quantity': q, 'source': [(x.name, a) for x, a in s.contents.items()], 'outcome': outcome})
            if must == 'accept' and outcome != 'ok':
                M.violate(['C03'], 'FEAS', f'C03:recipe_step_feasible_refused:{base}:{outcome}',
                          {'quantity': q, 'source': [(x.name, a) for x, a in s.contents.items()], 'outcome': outcome})


# --------------------------------------------------------------------------------------------------

def sweep(rng, case, idx):
    """Round-number exact-capacity requests: n {uL, mL, L} of a liquid into an n {unit} vessel."""
    import pyplate.pyplate as pp
    from pv.monitors import M
    S, C = pp.Substance, pp.Container
    full = (case.get('params') or {}).get('full')
    liquids_ = [S.liquid('H2O', 18.0153, 1), S.liquid('DMSO', 78.13, 1.1004), S.liquid('EtOH', 46.07, 0.789),
                S.liquid(f'liq{idx}', round(10 ** rng.uniform(1, 2.7), 3), round(rng.uniform(0.5, 2.0), 3))]
    salt = S.solid('NaCl', 58.4428)
    liq = liquids_[idx % len(liquids_)]
    ns = range(1, 501) if full else rng.sample(range(1, 501), 120)
    refused_t = total_t = 0
    for n in ns:
        for u in ('uL', 'mL', 'L'):
            q = f'{n} {u}'
            M.bucket('C03/sweep/ctor')
            with M.active(case):
                M.expect = {'op': 'Container.__init__', 'must': 'accept', 'tag': 'exact_capacity'}
                try:
                    C('x', q, [(liq, q)])
                except Exception:
                    pass
                M.expect = None
                # exact fill on top of a solid
                try:
                    base = C('y', q, [(salt, f'{n / 10} {u[:-1]}g' if u != 'L' else f'{n / 10} kg')])
                except Exception:
                    base = None
                if base is not None:
                    M.bucket('C03/sweep/fill_to')
                    M.expect = {'op': 'Container.fill_to', 'must': 'accept', 'tag': 'exact_capacity'}
                    try:
                        base.fill_to(liq, q)
                    except Exception:
                        pass
                    M.expect = None
                # exact-capacity transfer (recorded finding: refused by float noise in a minority of cases)
                src = C('s', initial_contents=[(liq, f'{2 * n} {u}')])
                dst = C('d', q)
                total_t += 1
                M.bucket('C03/sweep/transfer')
                M.expect = {'op': 'Container.transfer', 'must': 'accept', 'tag': 'exact_capacity'}
                try:
                    C.transfer(src, dst, q)
                except ValueError:
                    refused_t += 1
                except Exception:
                    pass
                M.expect = None
                # round-number whole content by mass / moles / activity / volume must be accepted
                for init, whole in (([(salt, f'{n} mg'), (liq, f'{2 * n} mg')], f'{3 * n} mg'),
                                    ([(salt, f'{n} mmol'), (liq, f'{n} mmol')], f'{2 * n} mmol'),
                                    ([(liq, q), (salt, f'{n} mg')], None)):
                    try:
                        src = C('w', initial_contents=init)
                    except Exception:
                        continue
                    if whole is None:
                        whole = f'{src.get_volume("uL")} uL'
                    M.bucket('C03/sweep/whole_content')
                    M.expect = {'op': 'Container.transfer', 'must': 'accept', 'tag': 'whole_content_round_numbers'}
                    try:
                        C.transfer(src, C('d2'), whole)
                    except Exception:
                        pass
                    M.expect = None
            M.note_nontrivial('C03', ('sweep', liq.name, q))
        if n % 6 == 0:
            # the whole content of a container dispensed in m equal parts: m x q is exactly what it holds (in decimal; the float
            # product may land a hair above the stored volume) - a request that fits
            import decimal
            m_ = [2, 3, 6, 7, 12, 24][(n // 6) % 6]
            q_ = ['0.1', '1.1', '10.4', '2.5', '33.3', '0.7', '12.3'][(n // 6) % 7]
            for unit_ in ('uL', 'mg'):
                tot_ = decimal.Decimal(q_) * m_
                with M.active(case):
                    try:
                        stock_ = C('stock', initial_contents=[(liq, f'{tot_} {unit_}')])
                        plate_ = pp.Plate('p', '1 mL', rows=1 if m_ < 12 else 2, columns=m_ if m_ < 12 else m_ // 2)
                    except Exception:   # noqa
                        continue
                    M.bucket('C03/sweep/whole_content_in_equal_parts')
                    try:
                        pp.Plate.transfer(stock_, plate_, f'{q_} {unit_}')
                    except Exception:   # noqa
                        pass
    return None


SWEEP_STATE = {}


def witness(rng, case, idx):
    import pyplate.pyplate as pp
    from pv.monitors import M
    S, C = pp.Substance, pp.Container
    water = S.liquid('H2O', 18.0153, 1)
    lip = S.enzyme('lipase', '10 U/mg')
    with M.active(case):
        c = C('c', initial_contents=[(water, '10 mL'), (lip, '5 U')])
        try:
            c.fill_to(lip, '1 mol')      # former KF03 (repaired 91d2819): a solvent without measure in the target's unit must be refused
        except Exception:
            pass


def finalize(m, tier):
    """The exact-capacity transfer finding is float noise only if it refuses a minority of the sweep."""
    acc = m['buckets'].get('C03/transfer/L/boundary:capacity/accepted', 0)
    ref = m['buckets'].get('C03/transfer/L/boundary:capacity/refused', 0)
    out = {'coverage': {'exact_capacity_transfers': {'accepted': acc, 'refused': ref}}}
    if acc + ref >= 100 and ref >= 0.5 * (acc + ref):
        out['violations'] = [{
            'props': ['C03'], 'monitor': 'FEAS', 'mech': 'C03:exact_capacity_transfer_refused_systematically',
            'detail': {'accepted': acc, 'refused': ref,
                       'note': 'float noise cannot refuse most exact-capacity transfers; a different failure'},
            'case': {'kind': 'sweep', 'idx': 0}, 'seq': 0, 'tail': []}]
    return out


# --------------------------------------------------------------------------------------------------
# directed edge workloads shared between several checks (pv/edges.py)

_plan_without_edges, _run_job_without_edges = plan, run_job
_required_without_edges = globals().get('required_buckets')


def required_buckets(tier):
    return (list(_required_without_edges(tier)) if _required_without_edges else []) + [ID + '/edge/']


def plan(tier, seed):
    from .common import edges_jobs
    return _plan_without_edges(tier, seed) + edges_jobs(tier)


def run_job(job):
    if job['kind'] == 'edges':
        from pv.edges import edges
        from .common import run_cases
        return run_cases(job, edges)
    return _run_job_without_edges(job)
