"""Monitor core: wraps the real pyplate functions, records events, runs the online monitors.

No source hooks: attributes of the real classes are replaced, in the worker process only, by recording
wrappers (DESIGN.md section 3).  PyPlate's internal call sites go through the same class attributes, so
nested primitive calls (96 container transfers inside one plate transfer, every operation inside
Recipe.bake) are observed too.
"""
from __future__ import annotations

import collections
import contextlib
import hashlib
import json
import traceback

from . import fingerprint as F


class InjectedFault(BaseException):
    """Raised by failpoints (pv.failpoints); BaseException so that library `except Exception` cannot
    swallow it."""


class MonitorBug(BaseException):
    """An exception inside the monitoring code itself (a bug in the machinery, never a verdict)."""


class Mon:
    def __init__(self):
        self.reset()
        self.installed = False
        self.originals = {}

    def reset(self):
        self.enabled = False
        self.suspended = 0
        self.depth = 0
        self.seq = 0
        self.counters = collections.Counter()
        self.buckets = collections.Counter()
        self.violations = []
        self.tail = collections.deque(maxlen=120)
        self.nontrivial = collections.defaultdict(set)
        self.samples = collections.defaultdict(list)
        self.bugs = []
        self.expect = None
        self.case = None          # set by the worker: identifies the running case
        self.max_ratio = collections.defaultdict(float)   # monitor -> max |obs-exp|/tol seen
        self.max_violations = 400
        self.recipes = {}         # id(recipe) -> list of (obj, fingerprint) handed to it
        self.opstack = []
        self.addr_override = {}   # id(slicer) -> (index list, shape, slicer): wells a sub-sliced slicer is expected to address
        self.kf03_objects = {}    # id -> container: outcomes of the recorded finding KF03 (kept alive so ids stay unique)

    # ----------------------------------------------------------------------------------------------
    @contextlib.contextmanager
    def oracle(self):
        """Suspend recording and monitoring while an oracle calls the library."""
        self.suspended += 1
        try:
            yield
        finally:
            self.suspended -= 1

    @contextlib.contextmanager
    def active(self, case=None):
        prev = self.enabled, self.case
        self.enabled = True
        if case is not None:
            self.case = case
        try:
            yield
        finally:
            self.enabled, self.case = prev

    def count(self, name, n=1):
        self.counters[name] += n

    def bucket(self, name, n=1):
        self.buckets[name] += n

    def ratio(self, monitor, obs, exp, tol):
        """Record |obs-exp|/tol for the calibration report; returns True iff within tolerance."""
        d = abs(obs - exp)
        if tol > 0:
            r = d / tol
            if r > self.max_ratio[monitor] and r < 1e6:
                self.max_ratio[monitor] = r
        return d <= tol

    def note_nontrivial(self, prop, key):
        s = self.nontrivial[prop]
        if len(s) < 60000:
            s.add(hashlib.blake2b(repr(key).encode(), digest_size=8).hexdigest())

    def sample(self, prop, obj, cap=6):
        lst = self.samples[prop]
        if len(lst) < cap:
            lst.append(obj)

    def violate(self, props, monitor, mech, detail):
        """Record a violation.  `props`: property id or list of ids it refutes; `mech`: mechanism key
        used by the known-findings classifier (operation, role, relation, branch and the specific wrong
        outcome - never a seed or a random value)."""
        if isinstance(props, str):
            props = [props]
        self.counters['violations.' + monitor] += 1
        if len(self.violations) >= self.max_violations:
            self.counters['violations.dropped'] += 1
            return
        try:
            detail = json.loads(json.dumps(detail, default=lambda o: F.describe(o)))
        except Exception:
            detail = repr(detail)[:2000]
        self.violations.append({
            'props': props, 'monitor': monitor, 'mech': mech, 'detail': detail,
            'case': self.case, 'seq': self.seq, 'tail': list(self.tail)[-25:],
        })

    def event(self, **kw):
        self.tail.append(kw)

    # ----------------------------------------------------------------------------------------------
    def take_expect(self, op):
        e = self.expect
        if e is not None and e.get('op') == op and self.depth == 1:
            self.expect = None
            return e
        return None


M = Mon()


def _tracked(o):
    import pyplate.pyplate as pp
    return isinstance(o, (pp.Container, pp.Plate, pp.PlateSlicer, pp.Substance, list, tuple, dict))


def _tag(o):
    import pyplate.pyplate as pp
    if isinstance(o, pp.Container):
        return f'C:{o.name}'
    if isinstance(o, pp.Plate):
        return f'P:{o.name}{o.wells.shape}'
    if isinstance(o, pp.PlateSlicer):
        return f'S:{o.plate.name}[{o.item!r}]'
    if isinstance(o, pp.Substance):
        return f'X:{o.name}'
    if isinstance(o, (str, int, float, type(None))):
        return o
    if isinstance(o, (list, tuple)):
        return [_tag(x) for x in o][:6]
    if isinstance(o, dict):
        return {str(k): _tag(v) for k, v in list(o.items())[:6]}
    return type(o).__name__


class Handler:
    """Per-operation hooks.  pre() returns a context passed to post()."""
    op = '?'
    skip_immut_first = False     # constructors: arg 0 is the object under construction

    def pre(self, args, kwargs):
        return None

    def post(self, ctx, args, kwargs, result, exc):
        pass


class OneShot(list):
    """What a one-shot iterator argument yielded.  The library receives a fresh one-shot iterator over the same items; the
    handlers see this list (an oracle that iterates the caller's iterator itself finds it exhausted - or exhausts it)."""


def _is_one_shot(a):
    return hasattr(a, '__next__') and hasattr(a, '__iter__') and not hasattr(a, '__len__')


def call_monitored(op, fn, handler, args, kwargs):
    m = M
    call_args, call_kwargs = args, kwargs
    if any(_is_one_shot(a) for a in args) or any(_is_one_shot(v) for v in kwargs.values()):
        seen = [OneShot(a) if _is_one_shot(a) else a for a in args]
        seen_kw = {k: (OneShot(v) if _is_one_shot(v) else v) for k, v in kwargs.items()}
        call_args = tuple(iter(a) if isinstance(a, OneShot) else a for a in seen)
        call_kwargs = {k: (iter(v) if isinstance(v, OneShot) else v) for k, v in seen_kw.items()}
        args, kwargs = tuple(seen), seen_kw
        m.counters['one_shot_arguments'] += 1
    m.seq += 1
    seq = m.seq
    m.depth += 1
    m.opstack.append(op)
    m.counters['calls.' + op] += 1
    if m.depth > 1:
        m.counters['nested_calls'] += 1
    try:
        try:
            a0 = 1 if handler.skip_immut_first else 0
            watched = [(i, a) for i, a in enumerate(args) if i >= a0 and _tracked(a)]
            watched += [(k, v) for k, v in kwargs.items() if _tracked(v)]
            before = [F.fingerprint(a) for _, a in watched]
            ctx = handler.pre(args, kwargs)
            m.event(seq=seq, depth=m.depth, ev='call', op=op, args=[_tag(a) for a in args[a0:]],
                    kwargs={k: _tag(v) for k, v in kwargs.items()})
        except (MonitorBug, InjectedFault):
            raise
        except BaseException as e:   # noqa
            m.bugs.append(traceback.format_exc())
            raise MonitorBug(f'pre {op}: {e!r}') from e
        result = None
        exc = None
        try:
            result = fn(*call_args, **call_kwargs)
        except MonitorBug:
            raise
        except BaseException as e:   # noqa
            exc = e
        try:
            m.event(seq=seq, depth=m.depth, ev='raise' if exc is not None else 'return', op=op,
                    exc=(type(exc).__name__ + ': ' + str(exc)[:120]) if exc is not None else None)
            # IMMUT: every argument observably unchanged, whether the call returned or raised
            for (pos, a), fb in zip(watched, before):
                fa = F.fingerprint(a)
                m.counters['IMMUT'] += 1
                if fa != fb:
                    outcome = 'returned' if exc is None else (
                        'injected' if isinstance(exc, InjectedFault) else 'raised')
                    m.violate('C04', 'IMMUT', f'C04:arg_mutated:{op}:arg={pos}:{outcome}',
                              {'op': op, 'arg': pos, 'outcome': outcome, 'diff': F.diff(fb, fa),
                               'exc': repr(exc)[:200] if exc is not None else None})
            m.bucket(f'C04/{op}/' + ('returned' if exc is None else
                                     'injected' if isinstance(exc, InjectedFault) else 'raised'))
            if not isinstance(exc, InjectedFault):
                handler.post(ctx, args, kwargs, result, exc)
        except (MonitorBug, InjectedFault):
            raise
        except BaseException as e:   # noqa
            m.bugs.append(traceback.format_exc())
            raise MonitorBug(f'post {op}: {e!r}') from e
        if exc is not None:
            raise exc
        return result
    finally:
        m.depth -= 1
        m.opstack.pop()


def _wrap(cls, name, handler):
    raw = cls.__dict__[name]
    is_static = isinstance(raw, staticmethod)
    fn = raw.__func__ if is_static else raw
    op = f'{cls.__name__}.{name}'
    handler.op = op
    M.originals[(cls, name)] = raw

    def wrapper(*args, **kwargs):
        if not M.enabled or M.suspended:
            return fn(*args, **kwargs)
        return call_monitored(op, fn, handler, args, kwargs)

    wrapper.__name__ = getattr(fn, '__name__', name)
    wrapper.__qualname__ = getattr(fn, '__qualname__', name)
    wrapper.__doc__ = getattr(fn, '__doc__', None)
    wrapper.__wrapped__ = fn
    setattr(cls, name, staticmethod(wrapper) if is_static else wrapper)


def install(unit_monitors=False):
    """Attach the monitors to the real classes.  Returns a dict of missing public names (a missing
    public name makes a run inconclusive; private names are optional)."""
    if M.installed:
        return {}
    import pyplate.pyplate as pp
    from . import handlers as H
    table = H.handler_table(unit_monitors)
    missing = {}
    for (clsname, name), handler in table.items():
        cls = getattr(pp, clsname, None)
        if cls is None or name not in cls.__dict__:
            if not name.startswith('_') or name == '__init__':
                missing[f'{clsname}.{name}'] = True
            continue
        _wrap(cls, name, handler)
    M.installed = True
    M.missing = missing
    return missing


def uninstall():
    for (cls, name), raw in M.originals.items():
        setattr(cls, name, raw)
    M.originals.clear()
    M.installed = False
