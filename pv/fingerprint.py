"""Deep structural fingerprints of PyPlate values (C04).

Fields are enumerated explicitly (never __dict__), so an added cache attribute cannot alarm.
Floats are compared exactly (via repr-free tuples of the float objects themselves).
"""
from __future__ import annotations

import numpy


def _classes():
    import pyplate.pyplate as pp
    return pp


def fp_substance(s):
    return ('X', s.name, s._type, s.mol_weight, s.density, s.concentration, s.specific_activity)


def _fz(x):
    # normalise -0.0 so that a sign-of-zero difference is not reported as a change
    return 0.0 if x == 0 else x


def _reported_substances(c):
    """What the container itself *reports* through its public (memoised) observer: part of its observable state.
    The library caches this answer per equal container, so a shared cached answer that some operation updates in
    place shows up here and nowhere in the attributes."""
    try:
        return tuple(sorted(repr(fp_substance(s)) for s in c.get_substances()))
    except Exception as e:   # noqa
        return ('raised', type(e).__name__)


def fp_container(c):
    ec = getattr(c, 'experimental_conditions', None)
    return ('C', c.name, _reported_substances(c),
            tuple((fp_substance(s), _fz(a)) for s, a in c.contents.items()),
            _fz(c.volume), c.max_volume, getattr(c, 'instructions', None),
            repr(sorted(ec.items(), key=repr)) if isinstance(ec, dict) else repr(ec))


def fp_plate(p, with_ids=True):
    wells = p.wells
    flat = wells.flatten()
    return ('P', p.name, p.make, tuple(p.row_names), tuple(p.column_names), p.n_rows, p.n_columns,
            p.max_volume_per_well, wells.shape,
            tuple(id(w) for w in flat) if with_ids else None,
            tuple(fp_container(w) for w in flat))


def _fp_slices(sl):
    def one(s):
        if isinstance(s, slice):
            return ('s', s.start, s.stop, s.step)
        if isinstance(s, tuple):
            return tuple(one(x) for x in s)
        if isinstance(s, list):
            return ['l'] + [one(x) for x in s]
        return s
    return repr(one(sl))


def fp_slicer(s):
    return ('S', id(s.plate), fp_plate(s.plate), _fp_slices(s.slices))


def fingerprint(o):
    pp = _classes()
    if isinstance(o, pp.Container):
        return fp_container(o)
    if isinstance(o, pp.Plate):
        return fp_plate(o)
    if isinstance(o, pp.PlateSlicer):
        return fp_slicer(o)
    if isinstance(o, pp.Substance):
        return fp_substance(o)
    if isinstance(o, (list, tuple)):
        return (type(o).__name__,) + tuple(fingerprint(x) for x in o)
    if isinstance(o, dict):
        return ('D',) + tuple((fingerprint(k), fingerprint(v)) for k, v in o.items())
    if isinstance(o, numpy.ndarray):
        return ('A', o.shape, tuple(fingerprint(x) for x in o.flatten()))
    if isinstance(o, (str, int, float, bool, type(None))):
        return o
    return ('?', type(o).__name__)


def diff(a, b, path=''):
    """Human-readable first difference between two fingerprints."""
    if a == b:
        return None
    if isinstance(a, tuple) and isinstance(b, tuple) and len(a) == len(b):
        for i, (x, y) in enumerate(zip(a, b)):
            d = diff(x, y, f'{path}[{i}]')
            if d:
                return d
    return f'{path}: {a!r:.200} -> {b!r:.200}'


def snap_contents(c):
    """JSON-able snapshot of a container's physical state."""
    return {'name': c.name, 'volume': c.volume, 'max_volume': c.max_volume,
            'contents': [[s.name, a] for s, a in c.contents.items()]}


def describe(o):
    """Short JSON-able description of a value for witnesses and samples."""
    pp = _classes()
    if isinstance(o, pp.Container):
        return snap_contents(o)
    if isinstance(o, pp.Plate):
        return {'plate': o.name, 'shape': list(o.wells.shape),
                'wells': [snap_contents(w) for w in o.wells.flatten()[:12]]}
    if isinstance(o, pp.PlateSlicer):
        return {'slice_of': o.plate.name, 'item': repr(o.item), 'slices': _fp_slices(o.slices)}
    if isinstance(o, pp.Substance):
        return {'substance': o.name, 'kind': o._type, 'mw': o.mol_weight, 'density': o.density,
                'sa': o.specific_activity}
    if isinstance(o, (list, tuple)):
        return [describe(x) for x in o]
    if isinstance(o, dict):
        return {str(k): describe(v) for k, v in o.items()}
    if isinstance(o, (str, int, float, bool, type(None))):
        return o
    return repr(o)[:200]
