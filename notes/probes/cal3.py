import random, math, sys
exec(open('cal1.py').read().split("maxdev=")[0])
maxr={'size_src':0,'size_dst':0,'prop':0,'cons':0}; n=0; worst={}
for trial in range(600):
    subs=mk_subs()
    init=[]
    for s in subs:
        if s.is_enzyme(): init.append((s, qty('U', 10**rng.uniform(-2,3))))
        elif s.is_liquid(): init.append((s, qty('L', 10**rng.uniform(-6,0))))
        else: init.append((s, qty('g', 10**rng.uniform(-6,2))))
    src=Container('src', initial_contents=init); dst=Container('dst')
    for step in range(rng.randint(1,8)):
        units=['L','g']+(['mol'] if any(not s.is_enzyme() for s in src.contents) else [])+(['U'] if any(s.is_enzyme() for s in src.contents) else [])
        u=rng.choice(units); tot=total(src,u)
        if tot<=1e-9 or src.volume<=1e-6: break
        frac=rng.choice([10**rng.uniform(-6,-0.01), rng.uniform(0.01,0.9), 1.0])
        q=qty(u, tot*frac) if frac<1 else f"{tot!r} {u}"
        qv,qu=Unit.parse_quantity(q)
        if qv<{'g':1e-8,'L':1e-9,'mol':1e-12,'U':1e-6}[u]: continue
        try: s2,d2=Container.transfer(src,dst,q)
        except (ValueError,ZeroDivisionError) as e: continue
        n+=1
        f=qv/tot
        # tolerance in unit u
        floor=sum(1e-10*abs(Unit.convert_from(s,1.0,stor(s),u)) for s in src.contents)
        tol=2*floor+1e-9*qv+4e-16*tot*len(src.contents)+(1e-10 if u=='g' else 0)
        for key,val in (('size_src',(total(src,u)-total(s2,u))-qv),('size_dst',(total(d2,u)-total(dst,u))-qv)):
            r=abs(val)/tol
            if r>maxr[key]: maxr[key]=r; worst[key]=(q,tot,val,tol,[ (s.name,a) for s,a in src.contents.items()])
        for s in src.contents:
            b=src.contents[s]; dl=b-s2.contents[s]
            r=abs(dl-f*b)/(1e-10+1e-9*f*b+4e-16*b+((1e-10/tot)*b if u=='g' else 0))
            if r>maxr['prop']: maxr['prop']=r; worst['prop']=(q,s.name,b,dl,f*b)
            tb=b+dst.contents.get(s,0); ta=s2.contents[s]+d2.contents.get(s,0)
            r=abs(ta-tb)/(1e-10+4e-16*tb)
            if r>maxr['cons']: maxr['cons']=r
        src,dst=s2,d2
print(n,maxr); 
for k,v in worst.items(): print(k,v)
