import collections, json, functools, math
import numpy as np
import pyplate.pyplate as pp
from pyplate.pyplate import Container, Plate, PlateSlicer, Substance, Unit, config
C=collections.Counter(); V=[]
def stor(s): return 'U' if s.is_enzyme() else config.moles_storage_unit
def fp(o):
    if isinstance(o,Container): return ('C',o.name,tuple((s.name,a) for s,a in o.contents.items()),o.volume,o.max_volume,getattr(o,'instructions',None))
    if isinstance(o,Plate): return ('P',o.name,tuple(fp(w) for w in o.wells.flatten()))
    if isinstance(o,PlateSlicer): return ('S',id(o.plate),fp(o.plate),repr(o.slices))
    if isinstance(o,Substance): return ('X',o.name,o._type,o.mol_weight,o.density,o.specific_activity)
    if isinstance(o,(list,tuple)): return tuple(fp(x) for x in o)
    return repr(o)
def conts(o):
    if isinstance(o,Container): return [o]
    if isinstance(o,Plate): return list(o.wells.flatten())
    if isinstance(o,PlateSlicer): return list(o.plate.wells.flatten())
    if isinstance(o,(tuple,list)): return [c for x in o for c in conts(x)]
    return []
def sane(c,where):
    C['SANE']+=1
    for s,a in c.contents.items():
        if not (a>=-1e-9) : V.append(('SANE neg',where,c.name,s.name,a))
    if c.volume< -1e-9 or c.volume>c.max_volume*(1+1e-9)+1e-9: V.append(('SANE vol',where,c.name,c.volume,c.max_volume))
    v=sum(Unit.convert_from(s,a,stor(s),config.volume_storage_unit) for s,a in c.contents.items())
    C['BOOK']+=1
    if abs(v-c.volume)>1e-8*max(1,abs(v)): V.append(('BOOK',where,c.name,c.volume,v))
def tot(objs):
    t=collections.Counter()
    seen=set()
    for c in objs:
        if id(c) in seen: continue
        seen.add(id(c))
        for s,a in c.contents.items(): t[s]+=a
    return t
def wrap(cls,name,static=False,cons=False):
    orig=cls.__dict__[name]; f=orig.__func__ if static else orig
    @functools.wraps(f)
    def w(*a,**k):
        before=[fp(x) for x in a]+[fp(x) for x in k.values()]
        if cons: tb=tot(conts(a[0])+conts(a[1])) if not (isinstance(a[0],PlateSlicer) and isinstance(a[1],PlateSlicer) and a[0].plate is a[1].plate) else tot(conts(a[0]))
        try: r=f(*a,**k)
        except Exception as e:
            after=[fp(x) for x in a]+[fp(x) for x in k.values()]; C['IMMUT-raise:'+name]+=1
            if after!=before: V.append(('IMMUT on raise',name,type(e).__name__))
            raise
        after=[fp(x) for x in a]+[fp(x) for x in k.values()]; C['IMMUT:'+name]+=1
        if after!=before: V.append(('IMMUT',name,[i for i,(x,y) in enumerate(zip(before,after)) if x!=y]))
        for c in conts(r) if isinstance(r,(Container,Plate,tuple)) else []: sane(c,name)
        if cons and isinstance(r,tuple):
            ta=tot(conts(r[0])+conts(r[1])) if r[0] is not r[1] else tot(conts(r[0])); C['CONS']+=1
            for s in set(tb)|set(ta):
                if abs(tb[s]-ta[s])>1e-7*max(1,abs(tb[s])): V.append(('CONS',name,s.name,tb[s],ta[s]))
        return r
    setattr(cls,name,staticmethod(w) if static else w)
def pytest_configure(config):
    wrap(Container,'transfer',True,True); wrap(Plate,'transfer',True,True)
    for n in ['create_solution','create_solution_from']: wrap(Container,n,True)
    for n in ['dilute','fill_to','remove']: wrap(Container,n)
    for n in ['remove','fill_to']: wrap(Plate,n); wrap(PlateSlicer,n)
def pytest_sessionfinish(session, exitstatus):
    print('\nMONITOR COUNTS',dict(C)); print('VIOLATIONS',len(V))
    seen=collections.Counter(tuple(map(str,v[:2])) for v in V); print(seen)
    for v in V[:15]: print('  ',v)
