from pyplate import Substance, Container, Plate, Recipe, Unit
from pyplate.pyplate import config
import numpy as np, copy, itertools
water = Substance.liquid('H2O', 18.0153, 1)
salt = Substance.solid('NaCl', 58.4428)
dmso = Substance.liquid('DMSO', 78.13, 1.1004)
wc = Container('wc', initial_contents=[(water,'100 mL')])
d = Container('d')
r = Recipe().uses(wc, d)
r.transfer(wc, d, '60 mL')
sol = r.create_solution(salt, wc, concentration='1 M', total_quantity='10 mL', name='sol')
res = r.bake()
print({k:(v.get_volume('mL')) for k,v in res.items()})
# solvent container created inside recipe
r = Recipe()
w2 = r.create_container('w2', initial_contents=[(water,'100 mL')])
try:
    sol = r.create_solution(salt, w2, concentration='1 M', total_quantity='10 mL', name='sol')
    res = r.bake(); print({k:(v.get_volume('mL')) for k,v in res.items()})
except Exception as e: print('inside-created solvent:', type(e).__name__, e)
# create_solution_from with source changed before
stock = Container.create_solution(salt, water, concentration='1 M', total_quantity='100 mL', name='stock')
r = Recipe().uses(stock, d)
r.transfer(stock, d, '50 mL')
n = r.create_solution_from(stock, salt, '0.5 M', water, '20 mL', name='new')
res = r.bake(); print({k:(v.get_volume('mL')) for k,v in res.items()})
# dilute with new_name in a recipe
r = Recipe().uses(stock)
r.dilute(stock, salt, '0.5 M', water, new_name='diluted')
try:
    res = r.bake(); print({k:(v.name, v.get_volume('mL')) for k,v in res.items()})
except Exception as e: print('dilute new_name:', type(e).__name__, e)
# results keys exactly declared + created
pl = Plate('pl','1 mL',rows=2,columns=2)
r = Recipe().uses(stock, pl)
r.transfer(stock, pl[1,1], '10 uL'); r.transfer(pl[1,1], pl[2,:], '2 uL')
res = r.bake(); print(list(res.keys()), res['pl'].get_volumes())
# transfer from plate to container via recipe; whole plate source
r = Recipe().uses(res['pl'], d)
r.transfer(res['pl'], d, '1 uL')
res2 = r.bake(); print(res2['d'].get_volume('uL'), res2['pl'].get_volumes())
r = Recipe().uses(res['pl'], pl2:=Plate('pl2','1 mL',rows=2,columns=2))
r.transfer(res['pl'], pl2, '1 uL')
try:
    res2 = r.bake(); print(res2['pl2'].get_volumes(), res2['pl'].get_volumes())
except Exception as e: print('plate->plate in recipe', type(e).__name__, e)
