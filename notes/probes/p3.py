from pyplate import Substance, Container, Plate, Recipe, Unit
from pyplate.pyplate import config
import numpy as np, copy
water = Substance.liquid('H2O', 18.0153, 1)
salt = Substance.solid('NaCl', 58.4428)
lip = Substance.enzyme('lipase', '10 U/mg')
dmso = Substance.liquid('DMSO', 78.13, 1.1004)
# C04: slice repointing
p = Plate('p','1 mL',rows=2,columns=2)
src = Container('s', initial_contents=[(water,'10 mL'),(salt,'1 g')])
src,p = Plate.transfer(src,p,'100 uL')
sl = p[1,:]
before_plate = sl.plate
r1 = sl.remove(Substance.SOLID)
print('slice.plate re-pointed after remove:', sl.plate is r1, sl.plate is before_plate)
print('original plate unchanged?', p.get_volumes())
sl = p[1,:]
r1 = sl.fill_to(water,'200 uL'); print('fill_to re-point', sl.plate is r1)
r2 = sl.fill_to(water,'300 uL'); print('r1 vols after second op', r1.get_volumes(), r2.get_volumes())
# dilute without name: destination = self -> _add deep-copies; ok
c = Container.create_solution(salt, water, concentration='1 M', total_quantity='10 mL')
h = hash(c); d = c.dilute(salt,'0.5 M',water); print('dilute keeps arg', hash(c)==h, d is c)
pass
# Container.remove: instructions
r = c.remove(water); print(repr(r.instructions)); print(r.contents, r.volume)
# deep copy of Substance keys? 
a,b = Container.transfer(c, Container('d'), '1 mL')
print('substance identity shared?', list(a.contents)[0] is list(c.contents)[0])
# experimental_conditions dict etc
# Recipe: uses stores deepcopy; are objects handed to recipe changed after bake?
pl = Plate('pl','1 mL',rows=2,columns=2)
rec = Recipe().uses(c, pl)
sl = pl[1,:]
rec.transfer(c, sl, '10 uL')
rec.remove(sl, water)
rec.fill_to(sl, water, '20 uL')
res = rec.bake()
print('after bake: pl vols', pl.get_volumes(), 'sl.plate is pl', sl.plate is pl, 'c vol', c.volume)
print(res['pl'].get_volumes())
for s in rec.steps: print(s.instructions)
