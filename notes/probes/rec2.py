import random, math, sys, copy, collections, traceback
import numpy as np
exec(open('rec1.py').read().split("def gen_program")[0])
def mk(names):
    objs={}
    for n,(k,v) in names.items():
        if k=='C' and v is not None: objs[n]=Container(n, initial_contents=v) if v else Container(n)
        elif k=='P': objs[n]=Plate(n,'100 uL',rows=v[0],columns=v[1])
    return objs
def getsl(plate,s):
    if s is None: return plate
    if s[0]=='cell': return plate[s[1],s[2]]
    if s[0]=='row': return plate[s[1]]
    if s[0]=='col': return plate[:,s[1]]
    return plate[s[1]:s[2],s[3]:s[4]]
def ref(objs,r):
    n,s=r; o=objs[n]
    return getsl(o,s) if isinstance(o,Plate) else o
def apply_eager(cur,op):
    cur=dict(cur)
    if op[0]=='transfer':
        _,a,b,q=op; src=ref(cur,a); dst=ref(cur,b)
        if isinstance(src,Plate): src=src[:]
        if isinstance(cur[b[0]],Container): s2,d2=Container.transfer(src,dst,q)
        else: s2,d2=Plate.transfer(src,dst,q)
        if a[0]==b[0]: cur[a[0]]=d2
        else: cur[a[0]]=s2; cur[b[0]]=d2
    elif op[0]=='remove':
        _,t,what=op; cur[t[0]]=ref(cur,t).remove(what)
    elif op[0]=='fill_to':
        _,t,solv,q=op; cur[t[0]]=ref(cur,t).fill_to(solv,q)
    elif op[0]=='create_container':
        _,n,init=op; cur[n]=Container(n,initial_contents=init)
    elif op[0]=='dilute':
        _,t,sol,conc,solv=op; cur[t]=cur[t].dilute(sol,conc,solv)
    elif op[0]=='solution':
        _,n,sol,solv,kw=op; cur[n]=Container.create_solution(sol,solv,n,**kw)
    elif op[0]=='solution_from':
        _,n,srcn,sol,conc,solv,q=op; cur[srcn],cur[n]=Container.create_solution_from(cur[srcn],sol,conc,solv,q,n)
    return cur
def gen_program():
    names={}; 
    nC=rng.randint(1,3)
    for i in range(nC):
        init=[]
        for s in rng.sample(SUBS, rng.randint(1,3)):
            if s.is_enzyme(): init.append((s,f"{rng.randint(1,50)} U"))
            elif s.is_liquid(): init.append((s,f"{rng.randint(5,100)} mL"))
            else: init.append((s,f"{rng.randint(1,20)*100} mg"))
        if not any(s.is_liquid() for s,_ in init): init.append((water,'50 mL'))
        names[f'c{i}']=('C',init)
    names['e0']=('C',[])
    for i in range(rng.randint(1,2)):
        names[f'p{i}']=('P',(rng.randint(1,3),rng.randint(1,3)))
    cur=mk(names); prog=[]; stages=0; open_stage=None
    def sel(pname):
        R,C=names[pname][1]
        k=rng.randrange(5)
        if k==0: return None
        if k==1: return ('cell',rng.randint(1,R),rng.randint(1,C))
        if k==2: return ('row',rng.randint(1,R))
        if k==3: return ('col',rng.randint(1,C))
        r1=rng.randint(1,R); r2=rng.randint(r1,R); c1=rng.randint(1,C); c2=rng.randint(c1,C); return ('rect',r1,r2,c1,c2)
    tries=0
    while len([o for o in prog if o[0] not in('start_stage','end_stage')])<rng.randint(3,9) and tries<60:
        tries+=1
        cn=[n for n,v in cur.items() if isinstance(v,Container)]; pn=[n for n,v in cur.items() if isinstance(v,Plate)]
        if open_stage is None and rng.random()<0.25:
            open_stage=f'st{stages}'; stages+=1; prog.append(('start_stage',open_stage))
        kind=rng.choice(['t_cc','t_cp','t_cp','t_pc','t_pp','remove','fill','newc','dilute','solution','solution_from'])
        op=None
        if kind=='t_cc' and len(cn)>1:
            a,b=rng.sample(cn,2); op=('transfer',(a,None),(b,None),f"{rng.randint(1,20)*100} uL")
        elif kind=='t_cp':
            p=rng.choice(pn); op=('transfer',(rng.choice(cn),None),(p,sel(p)),f"{rng.randint(1,20)} uL")
        elif kind=='t_pc':
            p=rng.choice(pn); op=('transfer',(p,sel(p)),(rng.choice(cn),None),f"{rng.randint(1,3)} uL")
        elif kind=='t_pp' and len(pn)>1:
            p,q=rng.sample(pn,2); op=('transfer',(p,sel(p)),(q,sel(q)),f"{rng.randint(1,3)} uL")
        elif kind=='remove':
            tgt=rng.choice(cn+pn); what=rng.choice([water,salt,Substance.LIQUID,Substance.SOLID,lip,Substance.ENZYME])
            op=('remove',(tgt, sel(tgt) if tgt in pn and rng.random()<0.5 else None),what)
        elif kind=='fill':
            tgt=rng.choice(cn+pn)
            if tgt in pn: op=('fill_to',(tgt,sel(tgt) if rng.random()<0.5 else None),rng.choice([water,dmso]),f"{rng.randint(30,60)} uL")
            else: op=('fill_to',(tgt,None),rng.choice([water,dmso]),f"{rng.randint(150,300)} mL")
        elif kind=='newc':
            n=f'n{len(prog)}'; op=('create_container',n,[(water,f"{rng.randint(1,50)} mL"),(salt,f"{rng.randint(1,9)} g")])
        elif kind=='dilute':
            t=rng.choice(cn)
            if salt in cur[t].contents and cur[t].contents[salt]>0 and set(cur[t].contents)<= {salt,water}:
                c0=cur[t].get_concentration(salt,'M'); op=('dilute',t,salt,f"{round(c0*rng.uniform(0.2,0.9),4)} M",water)
        elif kind=='solution':
            n=f's{len(prog)}'; op=('solution',n,rng.choice([salt,sulf]),rng.choice([water,dmso]),dict(concentration=f"{rng.randint(1,10)/10} M", total_quantity=f"{rng.randint(5,50)} mL"))
        elif kind=='solution_from':
            t=rng.choice(cn)
            if salt in cur[t].contents and cur[t].contents[salt]>0 and cur[t].volume>0:
                c0=cur[t].get_concentration(salt,'M'); n=f'f{len(prog)}'
                op=('solution_from',n,t,salt,f"{round(c0*rng.uniform(0.2,0.9),4)} M",water,f"{rng.randint(1,5)} mL")
        if op is None: continue
        try: cur=apply_eager(cur,op); prog.append(op)
        except (ValueError,ZeroDivisionError,TypeError,AttributeError) as e:
            continue
        if open_stage and rng.random()<0.35:
            prog.append(('end_stage',open_stage)); open_stage=None
    used=set()
    for o in prog:
        if o[0]=='transfer': used|={o[1][0],o[2][0]}
        elif o[0] in('remove','fill_to'): used.add(o[1][0])
        elif o[0]=='dilute': used.add(o[1])
        elif o[0]=='solution_from': used.add(o[2])
    names={n:v for n,v in names.items() if n in used}
    return names,prog
def run_eager(names,prog):
    cur=mk(names); ledger=[{k:snap(v) for k,v in cur.items()}]
    for op in prog:
        if op[0] in('start_stage','end_stage'): continue
        cur=apply_eager(cur,op)
        ledger.append({k:snap(v) for k,v in cur.items()})
    return cur,ledger
def run_recipe(names,prog):
    objs=mk(names); r=Recipe().uses(*objs.values())
    for op in prog:
        if op[0]=='start_stage': r.start_stage(op[1])
        elif op[0]=='end_stage': r.end_stage(op[1])
        elif op[0]=='transfer': r.transfer(ref(objs,op[1]),ref(objs,op[2]),op[3])
        elif op[0]=='remove': r.remove(ref(objs,op[1]),op[2])
        elif op[0]=='fill_to': r.fill_to(ref(objs,op[1]),op[2],op[3])
        elif op[0]=='create_container': objs[op[1]]=r.create_container(op[1],initial_contents=op[2])
        elif op[0]=='dilute': r.dilute(objs[op[1]],op[2],op[3],op[4])
        elif op[0]=='solution': objs[op[1]]=r.create_solution(op[2],op[3],name=op[1],**op[4])
        elif op[0]=='solution_from': objs[op[1]]=r.create_solution_from(objs[op[2]],op[3],op[4],op[5],op[6],name=op[1])
    return r,objs
def eqsnap(a,b,tol=1e-6):
    if isinstance(a,dict):
        for s in set(a)|set(b):
            if abs(a.get(s,0)-b.get(s,0))>tol*max(1,abs(a.get(s,0))): return False
        return True
    return all(eqsnap(x,y) for ra,rb in zip(a,b) for x,y in zip(ra,rb))
def amount(sn, s):
    if sn is None: return 0.0
    if isinstance(sn,dict): return sn.get(s,0.0)
    return sum(w.get(s,0.0) for row in sn for w in row)
if __name__=='__main__':
    stats=collections.Counter(); examples={}
    def note(k,ex):
        stats[k]+=1; examples.setdefault(k,ex)
    for case in range(int(sys.argv[2]) if len(sys.argv)>2 else 300):
        names,prog=gen_program()
        if not [o for o in prog if o[0] not in('start_stage','end_stage')]: continue
        try: cur,ledger=run_eager(names,prog); eager_err=None
        except Exception as e: eager_err=e
        try:
            r,objs=run_recipe(names,prog); res=r.bake(); bake_err=None
        except Exception as e: bake_err=e
        if eager_err or bake_err:
            note(f'err eager={type(eager_err).__name__}:{str(eager_err)[:40]} bake={type(bake_err).__name__}:{str(bake_err)[:60]}',prog); continue
        stats['ok']+=1
        bad=False
        for n in cur:
            if n not in res: note('C08 missing key',prog); continue
            if not eqsnap(snap(cur[n]),snap(res[n])):
                fs=any(o[0]=='fill_to' and o[1][1] is not None for o in prog)
                note('C08 state mismatch; has fill_slice=%s'%fs, prog); bad=True
        if set(res)!=set(cur): note('C08 keys differ',prog)
        if bad: continue
        # C09 vs eager ledger (valid since states agree)
        steps=[o for o in prog if o[0] not in('start_stage','end_stage')]
        # stage -> step index ranges
        idx=0; stage_rng={'all':(0,len(steps))}; st={}
        for o in prog:
            if o[0]=='start_stage': st[o[1]]=idx
            elif o[0]=='end_stage': stage_rng[o[1]]=(st[o[1]],idx)
            else: idx+=1
        for k,v in st.items(): stage_rng.setdefault(k,(v,len(steps)))
        for tf,(a,b) in stage_rng.items():
            for s in SUBS:
                for dests in [None]+[[n] for n in res]+[list(res)]:
                    dn=[n for n in res if isinstance(res[n],Plate)] if dests is None else dests
                    exp=0.0
                    for k in range(a,b):
                        for n in dn: exp+=amount(ledger[k+1].get(n),s)-amount(ledger[k].get(n),s)
                        if steps[k][0]=='remove':
                            t=steps[k][1][0]; exp+=amount(ledger[k].get(t),s)-amount(ledger[k+1].get(t),s)
                    unit='U' if s.is_enzyme() else 'umol'
                    try:
                        got=r.get_substance_used(s,tf,unit,'plates' if dests is None else [res[n] for n in dests]); gerr=None
                    except ValueError as e: got=None
                    except Exception as e: got='EXC:'+type(e).__name__
                    if exp< -1e-6:
                        if got is not None: note(f'C09 expected ValueError(net decrease) got {got}', (prog,tf,s.name,dests,exp))
                        else: stats['C09 agree-raise']+=1
                    else:
                        if got is None: note('C09 unexpected ValueError', (prog,tf,s.name,dests,exp))
                        elif isinstance(got,str): note('C09 '+got,(prog,tf,s.name,dests,exp))
                        elif abs(got-exp)>0.051+1e-6*abs(exp):
                            kinds=[o[0]+('/slice' if o[0] in('remove','fill_to') and o[1][1] is not None else '') for o in steps[a:b]]
                            note('C09 value mismatch kinds=%s'%sorted(set(kinds)), (prog,tf,s.name,dests,exp,got))
                        else: stats['C09 agree']+=1
    print(stats)
    for k,v in examples.items(): print(k,'\n   ',v)
