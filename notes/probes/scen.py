import json, sys
from pyplate import Substance, Container, Plate, Recipe, Unit
out={}
def rec(k, f):
    try: out[k]=f()
    except Exception as e: out[k]=f'{type(e).__name__}: {str(e)[:60]}'
water = Substance.liquid('H2O', 18.0153, 1)
salt = Substance.solid('NaCl', 58.4428)
lip = Substance.enzyme('lipase', '10 U/mg')
rec('conv', lambda: Unit.convert(water,'1 mL','mmol'))
def a():
    c = Container('c', initial_contents=[(water,'10 mL'),(salt,'1 g')]); return [c.get_volume('mL'), c.get_concentration(salt,'M')]
rec('container', a)
def b():
    c = Container.create_solution(salt, water, concentration='1 M', total_quantity='10 mL'); return [c.get_volume('mL'), c.get_concentration(salt,'M'), c.instructions]
rec('create_solution', b)
def b2():
    wc = Container('wc', initial_contents=[(water,'100 mL')])
    r,c = Container.create_solution(salt, wc, concentration='1 M', total_quantity='10 mL'); return [c.get_volume('mL'), c.get_concentration(salt,'M'), r.get_volume('mL')]
rec('create_solution_container_solvent', b2)
def c_():
    c = Container.create_solution(salt, water, concentration='1 M', total_quantity='10 mL'); d=c.dilute(salt,'0.5 M',water); return [d.get_volume('mL'), d.get_concentration(salt,'M'), d.instructions]
rec('dilute', c_)
def d_():
    c = Container.create_solution(salt, water, concentration='1 M', total_quantity='100 mL'); r,n=Container.create_solution_from(c,salt,'0.5 M',water,'10 mL'); return [n.get_volume('mL'), n.get_concentration(salt,'M'), r.get_volume('mL')]
rec('solution_from', d_)
def e_():
    c = Container('c', initial_contents=[(water,'10 mL'),(salt,'1 g')]); d=Container('d'); a,b=Container.transfer(c,d,'1 g'); return [a.get_volume('mL'), b.get_volume('mL'), b.instructions]
rec('transfer_g', e_)
def f_():
    c = Container('c', initial_contents=[(water,'10 mL'),(salt,'1 g')]); p=Plate('p','1 mL',rows=2,columns=2)
    r=Recipe().uses(c,p); r.transfer(c,p,'100 uL'); r.fill_to(p[1,1],water,'200 uL'); r.bake()
    return [r.get_substance_used(salt,'all','mg'), r.get_container_flows(c,'all','mL'), r.get_amount_remaining(c,'all','mL'), [s.instructions for s in r.steps], r.results['p'].get_volumes(unit='uL').tolist(), r.results['p'].get_moles(salt,'umol').tolist()]
rec('recipe', f_)
def g_():
    c = Container('c', '50 mL', initial_contents=[(water,'50 mL')]); return c.get_volume('mL')
rec('exact_cap', g_)
rec('std_format', lambda: [Unit.convert_from_storage_to_standard_format(water, Unit.convert(water,'5 mL', __import__('pyplate').pyplate.config.moles_storage_unit)), Unit.convert_from_storage(Unit.convert_to_storage(5,'mL'),'mL')])
print(json.dumps(out))
