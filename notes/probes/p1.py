from pyplate import Substance, Container, Plate, Recipe, Unit
from pyplate.pyplate import config
import numpy as np
water = Substance.liquid('H2O', 18.0153, 1)
salt = Substance.solid('NaCl', 58.4428)
lip = Substance.enzyme('lipase', '10 U/mg')
dmso = Substance.liquid('DMSO', 78.13, 1.1004)

def tot(objs, s):
    t=0
    for o in objs:
        if isinstance(o, Container): t+=o.contents.get(s,0)
        else:
            for w in o.wells.flatten(): t+=w.contents.get(s,0)
    return t

# self transfer
c = Container('c', initial_contents=[(water,'10 mL'),(salt,'1 g')])
a,b = Container.transfer(c,c,'1 mL')
print('self-transfer: src', a.contents, 'dst', b.contents)
# same plate overlapping
p = Plate('p','1 mL',rows=2,columns=2)
src = Container('s', initial_contents=[(water,'10 mL')])
src,p = Plate.transfer(src,p,'100 uL')
print(p.get_volumes())
# well A1 -> row 1 (includes A1)
p1,p2 = Plate.transfer(p[1,1], p[1,:], '10 uL')
print('A1->row1 (overlap): ', p1.get_volumes(), p2.get_volumes(), p1 is p2)
# disjoint same plate
p1,p2 = Plate.transfer(p[1,:], p[2,:], '10 uL')
print('row1->row2 same plate: ', p1.get_volumes(), p2.get_volumes(), p1 is p2)
# elementwise overlapping (shifted)
p3 = Plate('p3','1 mL',rows=1,columns=3)
src,p3 = Plate.transfer(src,p3,'100 uL')
p1,p2 = Plate.transfer(p3[1,1:2], p3[1,2:3], '10 uL')
print('shifted overlap: ', p1.get_volumes(), p2.get_volumes(), p1 is p2)
# many-to-one
try:
    r = Plate.transfer(p[1,:], p[2,1], '10 uL')
    print('many-to-one', r[0].get_volumes())
except Exception as e: print('many-to-one:', type(e).__name__, e)
q = Plate('q','1 mL',rows=2,columns=2)
try:
    r = Plate.transfer(p[1,:], q[2,1], '10 uL')
    print('many-to-one 2 plates', r[0].get_volumes(), r[1].get_volumes())
except Exception as e: print('many-to-one 2 plates:', type(e).__name__, e)
# whole plate as source direct
try:
    r = Plate.transfer(p, q, '10 uL')
    print('plate->plate', r[0].get_volumes(), r[1].get_volumes())
except Exception as e: print('plate->plate direct:', type(e).__name__, e)
try:
    r = Container.transfer(p, Container('d'), '10 uL')
    print('plate->container', r[0].get_volumes(), r[1].volume)
except Exception as e: print('plate->container direct:', type(e).__name__, e)
