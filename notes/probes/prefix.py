import sys, time, collections
exec(open('rec2.py').read().split("if __name__=='__main__':")[0])
def used_names(ops):
    used=set()
    for o in ops:
        if o[0]=='transfer': used|={o[1][0],o[2][0]}
        elif o[0] in('remove','fill_to'): used.add(o[1][0])
        elif o[0]=='dilute': used.add(o[1])
        elif o[0]=='solution_from': used.add(o[2])
    return used
stats=collections.Counter(); t_full=t_pref=0
for case in range(int(sys.argv[2]) if len(sys.argv)>2 else 150):
    names,prog=gen_program()
    steps=[o for o in prog if o[0] not in('start_stage','end_stage')]
    if not steps: continue
    try:
        t=time.time(); r,objs=run_recipe(names,prog); res=r.bake(); t_full+=time.time()-t
        cur,ledger=run_eager(names,prog)
    except Exception as e: stats['err']+=1; continue
    if any(not eqsnap(snap(cur[n]),snap(res[n])) for n in cur): stats['c08 mismatch (skip)']+=1; continue
    init=mk(names)
    t=time.time()
    for k in range(0,len(steps)+1):
        pre=steps[:k]
        decl={n:v for n,v in names.items() if n in used_names(pre)}
        if k==0: L={}
        else:
            rr,oo=run_recipe(decl,pre); L=rr.bake()
        # compare with eager ledger[k]
        for n in ledger[k]:
            exp=ledger[k][n]
            got=snap(L[n]) if n in L else (snap(init[n]) if n in init else None)
            if got is None: stats['missing in prefix']+=1
            elif not eqsnap(exp,got): stats['prefix state mismatch']+=1
            else: stats['prefix state ok']+=1
    t_pref+=time.time()-t
print(stats, 'full bake total %.2fs, prefix ledgers total %.2fs'%(t_full,t_pref))
