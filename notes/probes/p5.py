from pyplate import Substance, Container, Plate, Recipe, Unit
from pyplate.pyplate import config
import numpy as np, copy, itertools
water = Substance.liquid('H2O', 18.0153, 1)
salt = Substance.solid('NaCl', 58.4428)
sulf = Substance.solid('Na2SO4', 142.04)
lip = Substance.enzyme('lipase', '10 U/mg')
dmso = Substance.liquid('DMSO', 78.13, 1.1004)
tea = Substance.liquid('TEA', 101.19, 0.726)
def conc(c, s, num, den):
    return c.get_concentration(s, f'{num}/{den}')
wc = Container('wc', initial_contents=[(water,'100 mL')])
for cu,tq in [('1 mol/L','10 mL'),('0.05 g/g','10 g'),('0.05 g/mL','10 mL'),('0.01 mol/mol','1 mol'),('1 mol/L','10 g'), ('0.05 g/g','10 mL')]:
    try:
        rest, sol = Container.create_solution(salt, wc, concentration=cu, total_quantity=tq)
        v,n,d = Unit.parse_concentration(cu)
        print(cu,tq,'-> conc', sol.get_concentration(salt, f'{n}/{d}'), 'want', v, 'vol mL', sol.get_volume('mL'), 'rest', rest.get_volume('mL'), sol.contents)
    except Exception as e: print(cu,tq,type(e).__name__,e)
# pure solvent comparisons
for cu,tq in [('0.05 g/g','10 g')]:
    sol = Container.create_solution(salt, water, concentration=cu, total_quantity=tq)
    print('pure', sol.contents, sol.get_concentration(salt,'g/g'))
# mixed solvent container
mix = Container('mix', initial_contents=[(water,'50 mL'),(dmso,'50 mL')])
rest, sol = Container.create_solution(salt, mix, concentration='1 M', total_quantity='10 mL')
print('mix 1M/10mL', sol.get_concentration(salt,'mol/L'), sol.get_volume('mL'), sol.contents, rest.contents)
# enzyme
sol = Container.create_solution(lip, water, concentration='0.5 U/mL', total_quantity='10 mL'); print(sol.contents, sol.get_concentration(lip,'U/mL'), sol.get_volume('mL'))
# multiple solutes different units
sol = Container.create_solution([salt,tea,lip], water, concentration=['0.1 M','5 %v/v','0.2 U/mL'], total_quantity='10 mL'); print(sol.contents, sol.get_concentration(salt,'M'), sol.get_concentration(tea,'L/L'), sol.get_concentration(lip,'U/mL'), sol.get_volume('mL'))
# quantity + total
sol = Container.create_solution(salt, water, quantity='1 g', total_quantity='10 mL'); print(sol.contents, sol.get_volume('mL'))
# conc + quantity
sol = Container.create_solution(salt, water, concentration='1 M', quantity='1 g'); print(sol.contents, sol.get_volume('mL'), sol.get_concentration(salt))
# infeasible
for kw in [dict(concentration='100 M', total_quantity='10 mL'), dict(quantity='20 g', total_quantity='10 mL'), dict(concentration='-1 M', total_quantity='10 mL'), dict(concentration='0 M', total_quantity='10 mL'), dict(concentration='1 M', total_quantity='0 mL'), dict(concentration='1 M', total_quantity='-10 mL')]:
    try:
        sol = Container.create_solution(salt, water, **kw); print(kw, 'OK', sol.contents)
    except Exception as e: print(kw, type(e).__name__, e)
