import time
from pyplate import Substance, Container, Plate, Recipe, Unit
water = Substance.liquid('H2O', 18.0153, 1); salt = Substance.solid('NaCl', 58.4428)
c = Container('c', initial_contents=[(water,'100 mL'),(salt,'1 g')]); d=Container('d')
t=time.time(); 
for i in range(2000): a,b=Container.transfer(c,d,'1 uL')
print('C->C transfer', (time.time()-t)/2000*1e6,'us')
for shape in [(2,2),(3,4),(8,12)]:
    p=Plate('p','1 mL',rows=shape[0],columns=shape[1])
    t=time.time(); n=50
    for i in range(n): a,b=Plate.transfer(c,p,'1 uL')
    print('C->plate',shape,(time.time()-t)/n*1e3,'ms')
    t=time.time()
    for i in range(n): a2,b2=Plate.transfer(b,p,'0.1 uL') if False else Plate.transfer(b[:],p[:],'0.1 uL')
    print('plate->plate',shape,(time.time()-t)/n*1e3,'ms')
t=time.time()
for i in range(200):
    r=Recipe().uses(c,d); p=Plate('p','1 mL',rows=2,columns=3); r.uses(p)
    r.transfer(c,d,'1 mL'); r.transfer(c,p,'10 uL'); r.fill_to(d,water,'5 mL'); r.remove(p[1,:],water); r.bake()
print('small recipe bake', (time.time()-t)/200*1e3,'ms')
t=time.time()
for i in range(2000): Container.create_solution(salt,water,concentration='1 M',total_quantity='10 mL')
print('create_solution',(time.time()-t)/2000*1e6,'us')
t=time.time()
for i in range(20000): Unit.convert_from(water,1.0,'mL','mmol')
print('convert_from',(time.time()-t)/20000*1e6,'us')
