import sys, copy, time
from pyplate import Substance, Container, Plate
import pyplate.pyplate as pp, pyplate.slicer as ps
class Injected(Exception): pass
mon=sys.monitoring; TOOL=mon.DEBUGGER_ID
mon.use_tool_id(TOOL,'fp')
state={'count':0,'fire_at':None,'files':{pp.__file__, ps.__file__}}
def on_line(code, line):
    if code.co_filename not in state['files']: return mon.DISABLE
    state['count']+=1
    if state['fire_at'] is not None and state['count']==state['fire_at']:
        raise Injected(f'{code.co_name}:{line}')
mon.register_callback(TOOL, mon.events.LINE, on_line)
water = Substance.liquid('H2O', 18.0153, 1); salt=Substance.solid('NaCl',58.44)
src=Container('s',initial_contents=[(water,'10 mL'),(salt,'1 g')]); p=Plate('p','1 mL',rows=2,columns=2)
def fp(o):
    if isinstance(o,Container): return (o.name,tuple(o.contents.items()),o.volume,o.max_volume,o.instructions)
    return (o.name,tuple(fp(w) for w in o.wells.flatten()))
def run(fire_at):
    state['count']=0; state['fire_at']=fire_at
    mon.set_events(TOOL, mon.events.LINE); mon.restart_events()
    try:
        try: Plate.transfer(src,p[1,:],'10 uL'); return None
        except Injected as e: return str(e)
    finally:
        mon.set_events(TOOL, 0)
b=(fp(src),fp(p)); t=time.time()
run(None); n=state['count']; print('lines in call',n)
bad=0; sites=set()
for k in range(1,n+1):
    r=run(k); sites.add(r)
    if (fp(src),fp(p))!=b: bad+=1; print('MUTATED at',r); b=(fp(src),fp(p))
print('failpoints',n,'distinct sites',len(sites),'mutations',bad,'time',round(time.time()-t,2))
