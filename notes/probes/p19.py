from pyplate import Substance, Container, Plate, Recipe, Unit
water = Substance.liquid('H2O', 18.0153, 1)
salt = Substance.solid('NaCl', 58.4428)
lip = Substance.enzyme('lipase', '10 U/mg')
dmso = Substance.liquid('DMSO', 78.13, 1.1004)
for v,u in [(5,'L'),(5,'mL'),(5,'uL'),(0.5,'uL'),(5,'nL'),(0.5,'nL'),(2500,'L')]:
    c = Container('c', initial_contents=[(water,f'{v} {u}')]); print(v,u,'|',c.instructions)
for v,u in [(5,'kg'),(5,'g'),(5,'mg'),(5,'ug'),(0.5,'ug'),(5,'ng')]:
    c = Container('c', initial_contents=[(salt,f'{v} {u}')]); print(v,u,'|',c.instructions)
for v in [5000, 5,0.5,0.005,0.0000005]:
    c = Container('c', initial_contents=[(lip,f'{v} U')]); print(v,'U |',c.instructions)
c = Container('c', '5 uL'); print(c.instructions); c = Container('c', '0.5 uL'); print(c.instructions); c = Container('c', '5 nL'); print(c.instructions)
print('-- human readable')
for val,unit in [(5,'L'),(0.5,'L'),(0.0005,'L'),(5e-7,'L'),(5e-10,'L'),(5000,'L'),(-0.5,'L'),(0.5,'mL'),(0.5,'mg'),(0.5,'mmol'),(0.5,'U'),(1e-3,'L'),(1e-6,'L'),(0.9999999,'L')]:
    print(val,unit,'->',Unit.get_human_readable_unit(val,unit))
print('-- std format')
for q in [1e6, 1, 1e-3, 1e-7]:
    print(q, Unit.convert_from_storage_to_standard_format(water,q), Unit.convert_from_storage_to_standard_format(salt,q), Unit.convert_from_storage_to_standard_format(lip,q))
print('-- transfer instr')
s = Container('s', initial_contents=[(water,'10 mL'),(salt,'1 g')]); d=Container('d')
for q in ['1 mL','1 g','10 mmol','5 uL','0.5 uL']:
    a,b = Container.transfer(s,d,q); print(q,'|',b.instructions.splitlines()[-1])
so = Container('so', initial_contents=[(salt,'10 g')])
for q in ['1 g','100 mg','10 mmol','1 mL']:
    a,b = Container.transfer(so,d,q); print('solids-only',q,'|',b.instructions.splitlines()[-1])
eo = Container('eo', initial_contents=[(lip,'100 U')])
for q in ['10 U','1 mg']:
    a,b = Container.transfer(eo,d,q); print('enzyme-only',q,'|',b.instructions.splitlines()[-1])
# whole content transferred: has_liquid evaluated on depleted source?
a,b = Container.transfer(s,d,'11 mL'); print('all','|',b.instructions.splitlines()[-1], a.contents)
print('-- fill/dilute instr')
f = s.fill_to(water,'20 mL'); print(f.instructions.splitlines()[-1])
f = s.fill_to(dmso,'20 g'); print(f.instructions.splitlines()[-1])
f = s.fill_to(water,'11.0005 mL'); print(f.instructions.splitlines()[-1])
cs = Container.create_solution(salt, water, concentration='1 M', total_quantity='10 mL'); print(cs.instructions)
dl = cs.dilute(salt,'0.9 M',water); print(dl.instructions.splitlines()[-1])
wc = Container('wc', initial_contents=[(water,'100 mL')]); r, cs2 = Container.create_solution(salt, wc, concentration='1 M', total_quantity='10 mL'); print(cs2.instructions)
r, n = Container.create_solution_from(cs, salt, '0.5 M', water, '5 mL'); print(n.instructions)
r, n = Container.create_solution_from(cs, salt, '0.5 M', water, '5 uL'); print(n.instructions)
