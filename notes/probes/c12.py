import random, sys, collections
from pyplate import Substance, Container, Unit
from pyplate.pyplate import config
rng=random.Random(int(sys.argv[1]) if len(sys.argv)>1 else 0)
def stor(s): return 'U' if s.is_enzyme() else config.moles_storage_unit
def mk_sub(kind,i):
    if kind=='S': return Substance.solid(f's{i}', round(10**rng.uniform(1.3,2.8),2))
    if kind=='L': return Substance.liquid(f'l{i}', round(10**rng.uniform(1.2,2.5),2), round(rng.uniform(0.6,1.8),3))
    return Substance.enzyme(f'e{i}', f"{round(10**rng.uniform(0,3),2)} U/mg")
def tot(c,u): return sum(Unit.convert_from(s,a,stor(s),u) for s,a in c.contents.items())
def conc(c,s,num,den): return Unit.convert_from(s,c.contents.get(s,0),stor(s),num)/tot(c,den)
fmt=lambda v: repr(float(f'{v:.10g}'))
stats=collections.Counter(); ex={}
def note(k,e): stats[k]+=1; ex.setdefault(k,e)
def rand_container(name, must, extra_kinds):
    init=[(must[0],f"{fmt(10**rng.uniform(0,2))} mL")]
    for s in must[1:]: init.append((s,f"{fmt(10**rng.uniform(-1,1))} g"))
    for k in extra_kinds:
        s=mk_sub(k,rng.randint(10,99)); init.append((s, f"{fmt(10**rng.uniform(-1,1))} {'U' if k=='E' else 'g'}"))
    return Container(name,initial_contents=init)
for case in range(int(sys.argv[2]) if len(sys.argv)>2 else 2000):
    solute=mk_sub(rng.choice('SL'),0); liq=mk_sub('L',1)
    stock=rand_container('stock',[liq,solute],rng.choice([[],[],['S'],['L'],['E'],['S','E']]))
    solvkind=rng.choice(['pure','pure','cont','cont_solute','cont_enz'])
    solvsub=mk_sub('L',2)
    if solvkind=='pure': solvent=solvsub
    elif solvkind=='cont': solvent=rand_container('solv',[solvsub],rng.choice([[],['S'],['L']]))
    elif solvkind=='cont_solute':
        solvent=Container('solv',initial_contents=[(solvsub,f"{fmt(10**rng.uniform(0,2))} mL"),(solute,f"{fmt(10**rng.uniform(-3,-1.5))} g")])
    else: solvent=rand_container('solv',[solvsub],['E'])
    # choose aliquots
    fx=rng.uniform(0.05,0.6); 
    x_mL=stock.get_volume('mL')*fx
    y_mL=x_mL*10**rng.uniform(-1,1.2)
    if isinstance(solvent,Container): y_mL=min(y_mL, solvent.get_volume('mL')*0.8)
    # build expected mixture using library transfers (ALIQ is checked elsewhere)
    exp=Container('exp')
    _,exp=Container.transfer(stock,exp,f"{x_mL!r} mL")
    if isinstance(solvent,Container): _,exp=Container.transfer(solvent,exp,f"{y_mL!r} mL")
    else: exp=exp._add(solvent,f"{y_mL!r} mL")
    num=rng.choice(['mol','g','L']); den=rng.choice(['mol','g','L']); qu=rng.choice(['L','g','mol'])
    c=conc(exp,solute,num,den); q=tot(exp,qu)
    cs=f"{fmt(c)} {num}/{den}"; qs=f"{fmt(q)} {qu}"
    try: r=Container.create_solution_from(stock,solute,cs,solvent,qs)
    except Exception as e:
        note(f'raised {type(e).__name__}:{str(e)[:45]} solv={solvkind} q={qu} {num}/{den}',(cs,qs)); continue
    new=r[-1]
    worst=max(abs(new.contents.get(s,0)-a)/max(a,1e-3) for s,a in exp.contents.items())
    tol=1e-6+30*1e-10/c
    if set(k for k,v in new.contents.items() if v>1e-9)!=set(k for k,v in exp.contents.items() if v>1e-9): note(f'substance set solv={solvkind}',(cs,qs))
    elif worst>tol:
        enz_in_stock=any(s.is_enzyme() for s in stock.contents); 
        note(f'mismatch solv={solvkind} q={qu} den={den} enz_stock={enz_in_stock}',(worst,tol,cs,qs))
    else: stats['ok']+=1
    # conservation
    ins=collections.Counter(); outs=collections.Counter()
    for s,a in stock.contents.items(): ins[s]+=a
    if isinstance(solvent,Container):
        for s,a in solvent.contents.items(): ins[s]+=a
    for cc in r:
        for s,a in cc.contents.items(): outs[s]+=a
    for s in set(ins)|set(outs):
        d=outs[s]-ins[s]
        if isinstance(solvent,Substance) and s==solvent:
            if d< -1e-6: note('conservation: solvent decreased',(cs,qs))
        elif abs(d)>1e-6*max(1,ins[s]): note(f'conservation violated solv={solvkind}',(s.name,ins[s],outs[s]))
print(stats)
for k,v in ex.items(): print(k,'\n   ',v)
