import sys
exec(open('rec2.py').read().split("if __name__=='__main__':")[0])
import pyplate; print(pyplate.__file__)
def tot_snap(sn,u):
    def one(d): return sum(Unit.convert_from(s,a,stor(s),u) for s,a in d.items())
    if sn is None: return None
    if isinstance(sn,dict): return one(sn)
    return np.array([[one(w) for w in row] for row in sn])
stats=collections.Counter(); examples={}
def note(k,ex):
    stats[k]+=1; examples.setdefault(k,ex)
for case in range(int(sys.argv[2]) if len(sys.argv)>2 else 300):
    names,prog=gen_program()
    if any(o[0]=='fill_to' and o[1][1] is not None for o in prog): continue
    steps=[o for o in prog if o[0] not in('start_stage','end_stage')]
    if not steps: continue
    try:
        cur,ledger=run_eager(names,prog); r,objs=run_recipe(names,prog); res=r.bake()
    except Exception as e: stats['err']+=1; continue
    if any(not eqsnap(snap(cur[n]),snap(res[n])) for n in cur): stats['c08mismatch']+=1; continue
    idx=0; stage_rng={'all':(0,len(steps))}; st={}
    for o in prog:
        if o[0]=='start_stage': st[o[1]]=idx
        elif o[0]=='end_stage': stage_rng[o[1]]=(st[o[1]],idx)
        else: idx+=1
    for k,v in st.items(): stage_rng.setdefault(k,(v,len(steps)))
    def touched(o):
        if o[0]=='transfer': return {o[1][0],o[2][0]}
        if o[0] in('remove','fill_to'): return {o[1][0]}
        if o[0]=='dilute': return {o[1]}
        if o[0]=='create_container': return {o[1]}
        if o[0]=='solution': return {o[1]}
        if o[0]=='solution_from': return {o[1],o[2]}
    for tf,(a,b) in stage_rng.items():
        for n in res:
            ks=[k for k in range(a,b) if n in touched(steps[k])]
            if not ks: continue
            for u in ['uL','mg','umol','U']:
                prec=config.precisions.get(u,config.precisions['default'])
                # remaining
                for mode,k in (('before',ks[0]),('after',ks[-1]+1)):
                    exp=tot_snap(ledger[k].get(n),u)
                    if exp is None: exp=0.0 if isinstance(res[n],Container) else None
                    try: got=r.get_amount_remaining(res[n],tf,u,mode)
                    except Exception as e: note(f'C15 remaining EXC {type(e).__name__}',(prog,tf,n,u,mode)); continue
                    if got is None or exp is None or not np.allclose(got,exp,rtol=1e-6,atol=1e-6):
                        note(f'C15 remaining mismatch mode={mode} firstkind={steps[ks[0]][0]}',(prog,tf,n,u,mode,exp,got))
                    else: stats['rem agree']+=1
                # flows
                ein=0.0; eout=0.0
                for k in ks:
                    b4=tot_snap(ledger[k].get(n),u); af=tot_snap(ledger[k+1].get(n),u)
                    if b4 is None: b4=0.0*af
                    d=af-b4
                    ein=ein+np.maximum(d,0); eout=eout+np.maximum(-d,0)
                try: got=r.get_container_flows(res[n],tf,u)
                except Exception as e: note(f'C15 flows EXC {type(e).__name__}',(prog,tf,n,u)); continue
                tol=0.5*10**-prec+1e-6
                if not (np.allclose(got['in'],ein,rtol=1e-6,atol=tol) and np.allclose(got['out'],eout,rtol=1e-6,atol=tol)):
                    kinds=sorted(set(steps[k][0]+('/slice' if steps[k][0]=='remove' and steps[k][1][1] is not None else '')+('/plate' if isinstance(res[n],Plate) else '') for k in ks))
                    note(f'C15 flows mismatch kinds={kinds}',(prog,tf,n,u,ein,eout,got))
                else: stats['flows agree']+=1
print(stats)
for k,v in examples.items(): print(k,'\n   ',v)
