from pyplate import Substance, Container, Plate, Recipe, Unit
from pyplate.pyplate import config
import numpy as np, copy, itertools
water = Substance.liquid('H2O', 18.0153, 1)
salt = Substance.solid('NaCl', 58.4428)
sulf = Substance.solid('Na2SO4', 142.04)
dmso = Substance.liquid('DMSO', 78.13, 1.1004)
tea = Substance.liquid('TEA', 101.19, 0.726)
lip = Substance.enzyme('lipase', '10 U/mg')
# binary dilute in each unit
c = Container.create_solution(salt, water, concentration='1 M', total_quantity='10 mL')
for tgt in ['0.5 M','0.5 m','0.02 g/mL','1 %w/w','0.005 mol/mol', '2 %w/v']:
    try:
        d = c.dilute(salt, tgt, water)
        v,n,dn = Unit.parse_concentration(tgt)
        print('binary', tgt, d.get_concentration(salt, f'{n}/{dn}'), 'want', v)
    except Exception as e: print('binary', tgt, type(e).__name__, e)
# three component
c3 = Container('c3', initial_contents=[(water,'10 mL'),(salt,'0.5 g'),(sulf,'1 g')])
print('c3 conc', c3.get_concentration(salt,'M'))
for tgt in ['0.3 M','0.02 g/mL','1 %w/w']:
    d = c3.dilute(salt, tgt, water); v,n,dn = Unit.parse_concentration(tgt)
    print('ternary', tgt, d.get_concentration(salt, f'{n}/{dn}'), 'want', v)
# different solvent than present
pass
# enzyme bystander
ce = Container('ce', initial_contents=[(water,'10 mL'),(salt,'0.5 g'),(lip,'1 U')])
d = ce.dilute(salt, '0.3 M', water); print('enz bystander', d.get_concentration(salt,'M'), d.contents)
# capacity
cc = Container('cc', '15 mL', initial_contents=[(water,'10 mL'),(salt,'0.5 g')])
try: d = cc.dilute(salt,'0.1 M',water); print('cap', d.volume)
except Exception as e: print('cap', type(e).__name__, e)
# liquid solute
cl = Container.create_solution(tea, water, concentration='1 M', total_quantity='10 mL')
d = cl.dilute(tea, '0.5 M', water); print('liquid solute', d.get_concentration(tea,'M'))
d = cl.dilute(tea, '5 %v/v', water); print('liquid solute v/v', d.get_concentration(tea,'L/L'))
# fill_to units
for q in ['20 mL','20 g','1 mol']:
    f = c3.fill_to(water, q); 
    u = q.split()[1]
    tot = sum(Unit.convert_from(s, a, 'umol', u) for s,a in f.contents.items())
    print('fill_to', q, tot, {s.name: f.contents[s]-c3.contents.get(s,0) for s in f.contents})
f = ce.fill_to(water, '20 mL'); print('fill_to w/ enzyme: volume', f.get_volume('mL'), 'contents-sum non-enz', sum(Unit.convert_from(s,a,'umol','mL') for s,a in f.contents.items() if not s.is_enzyme()))
f = ce.fill_to(dmso, '20 g'); print(f.contents)
try: f = ce.fill_to(lip, '20 mg'); print('fill enzyme solvent', f.contents)
except Exception as e: print(type(e).__name__, e)
