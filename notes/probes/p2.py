from pyplate import Substance, Container, Plate, Recipe, Unit
from pyplate.pyplate import config
water = Substance.liquid('H2O', 18.0153, 1)
salt = Substance.solid('NaCl', 58.4428)
lip = Substance.enzyme('lipase', '10 U/mg')
dmso = Substance.liquid('DMSO', 78.13, 1.1004)
bad=[];n=0
for v in range(1,301):
    for u in ['mL','uL','L']:
        n+=1
        try:
            Container('c', f'{v} {u}', [(water, f'{v} {u}')])
        except ValueError as e:
            bad.append((v,u))
print('exact capacity construct refused', len(bad), 'of', n, bad[:10])
# why
v=50
print(Unit.convert(water,'50 mL',config.volume_storage_unit), Unit.convert_to_storage(0.05,'L'), Unit.parse_quantity('50 mL'))
bad=[];n=0
for v in range(1,301):
    n+=1
    try:
        c=Container('c', f'{v} mL'); c=c.fill_to(water, f'{v} mL')
    except ValueError as e: bad.append(v)
print('fill_to exact refused', len(bad), 'of', n, bad[:10])
bad=[];n=0
for v in range(1,301):
    n+=1
    try:
        s=Container('s', initial_contents=[(water, f'{v} mL')]); c=Container('c', f'{v} mL'); s,c=Container.transfer(s,c,f'{v} mL')
    except ValueError as e: bad.append((v,str(e)[:40]))
print('transfer exact refused', len(bad), 'of', n, bad[:10])
# overdraw by mass/moles/U, negative
s=Container('s', initial_contents=[(water,'1 mL'),(lip,'5 U')]); d=Container('d')
for q in ['2 g','1 mol','10 U','-1 mL','-1 g', '2 mL', '0 mL', '0 g']:
    try:
        a,b=Container.transfer(s,d,q); print(q,'->',a.contents,a.volume,'|',b.contents,b.volume)
    except Exception as e: print(q,type(e).__name__,e)
# fill_to below current
c=Container('c',initial_contents=[(water,'10 mL'),(salt,'1 g')])
try:
    r=c.fill_to(water,'5 mL'); print('fill below', r.contents, r.volume)
except Exception as e: print('fill below',type(e).__name__,e)
try:
    r=c.fill_to(dmso,'5 mL'); print('fill below other solvent', r.contents, r.volume)
except Exception as e: print('fill below',type(e).__name__,e)
try:
    r=Container('x',initial_contents=[(water,'-1 mL')]); print('neg construct', r.contents, r.volume)
except Exception as e: print('neg construct',type(e).__name__,e)
try:
    r=Container('x',initial_contents=[(water,'nan mL')]); print('nan construct', r.contents, r.volume)
except Exception as e: print('nan construct',type(e).__name__,e)
try:
    r=Container('x',initial_contents=[(water,'inf mL')]); print('inf construct', r.contents, r.volume)
except Exception as e: print('inf construct',type(e).__name__,e)
