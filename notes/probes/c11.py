import random, sys, collections
from pyplate import Substance, Container, Unit
from pyplate.pyplate import config
rng=random.Random(int(sys.argv[1]) if len(sys.argv)>1 else 0)
def stor(s): return 'U' if s.is_enzyme() else config.moles_storage_unit
def mk_sub(kind,i):
    if kind=='S': return Substance.solid(f's{i}', round(10**rng.uniform(1.3,2.8),2))
    if kind=='L': return Substance.liquid(f'l{i}', round(10**rng.uniform(1.2,2.5),2), round(rng.uniform(0.6,1.8),3))
def tot(c,u): return sum(Unit.convert_from(s,a,stor(s),u) for s,a in c.contents.items())
def conc(c,s,num,den): return Unit.convert_from(s,c.contents.get(s,0),stor(s),num)/tot(c,den)
stats=collections.Counter(); ex={}
def note(k,e): stats[k]+=1; ex.setdefault(k,e)
fmt=lambda v: repr(float(f'{v:.9g}'))
for case in range(int(sys.argv[2]) if len(sys.argv)>2 else 2000):
    solute=mk_sub(rng.choice('SL'),0); solvent=mk_sub('L',1)
    c=Container('c',initial_contents=[(solvent,f"{fmt(10**rng.uniform(-1,2))} mL"),(solute,f"{fmt(10**rng.uniform(-2,1))} g")])
    num=rng.choice(['mol','g','L']); den=rng.choice(['mol','g','L'])
    c0=conc(c,solute,num,den)
    f=rng.uniform(0.05,0.95)
    tgt=c0*f
    # choose prefix spelling so that value is readable
    s=f"{fmt(tgt)} {num}/{den}"
    try: d=c.dilute(solute,s,solvent)
    except Exception as e: note(f'raised {type(e).__name__}:{str(e)[:50]} {num}/{den}',(s,c0,c.contents)); continue
    got=conc(d,solute,num,den)
    rel=abs(got-tgt)/tgt; tol=1e-6+20*1e-10/tgt
    only_solvent = all(abs(d.contents[x]-c.contents[x])<1e-9*max(1,c.contents[x]) for x in c.contents if x!=solvent) and d.contents[solvent]>c.contents[solvent]
    if rel>tol: note(f'miss {num}/{den}',(rel,tol,s,c0))
    elif not only_solvent: note('changed other',(s,))
    else: stats['ok']+=1
    # near-boundary: target slightly above current must raise; slightly below accepted
    for fac,exp in ((1.001,'raise'),(0.999,'ok')):
        s2=f"{fmt(c0*fac)} {num}/{den}"
        try: c.dilute(solute,s2,solvent); r='ok'
        except ValueError: r='raise'
        if r!=exp and 1e-10/c0<1e-4: note(f'boundary {fac} exp {exp} got {r} {num}/{den}',(s2,c0))
print(stats)
for k,v in ex.items(): print(k,'\n   ',v)
