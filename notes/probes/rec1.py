import random, math, sys, copy, collections, traceback
import numpy as np
from pyplate import Substance, Container, Plate, Recipe, Unit
from pyplate.pyplate import config, PlateSlicer
rng = random.Random(int(sys.argv[1]) if len(sys.argv)>1 else 0)
water = Substance.liquid('H2O', 18.0153, 1); dmso = Substance.liquid('DMSO', 78.13, 1.1004)
salt = Substance.solid('NaCl', 58.4428); sulf=Substance.solid('Na2SO4',142.04); lip = Substance.enzyme('lipase', '10 U/mg')
SUBS=[water,dmso,salt,sulf,lip]
def stor(s): return 'U' if s.is_enzyme() else config.moles_storage_unit
def ctotal(c,u): return sum(Unit.convert_from(s,a,stor(s),u) for s,a in c.contents.items())
def snap(obj):
    if isinstance(obj, Container): return dict(obj.contents)
    return [[dict(w.contents) for w in row] for row in obj.wells]
def gen_program():
    """returns list of ops over names"""
    prog=[]; names={}
    # declared objects
    nC=rng.randint(1,3)
    for i in range(nC):
        init=[]
        for s in rng.sample(SUBS, rng.randint(1,3)):
            if s.is_enzyme(): init.append((s,f"{rng.randint(1,50)} U"))
            elif s.is_liquid(): init.append((s,f"{rng.randint(5,100)} mL"))
            else: init.append((s,f"{rng.randint(1,20)*100} mg"))
        if not any(s.is_liquid() for s,_ in init): init.append((water,'50 mL'))
        names[f'c{i}']=('C',init)
    names['e0']=('C',[])
    for i in range(rng.randint(1,2)):
        names[f'p{i}']=('P',(rng.randint(1,3),rng.randint(1,3)))
    cn=[n for n,v in names.items() if v[0]=='C']; pn=[n for n,v in names.items() if v[0]=='P']
    def sel(pname):
        R,C=names[pname][1]
        k=rng.randrange(5)
        if k==0: return None  # whole plate
        if k==1: return ('cell',rng.randint(1,R),rng.randint(1,C))
        if k==2: return ('row',rng.randint(1,R))
        if k==3: return ('col',rng.randint(1,C))
        r1=rng.randint(1,R); r2=rng.randint(r1,R); c1=rng.randint(1,C); c2=rng.randint(c1,C); return ('rect',r1,r2,c1,c2)
    stages=0; open_stage=None
    for k in range(rng.randint(2,8)):
        if open_stage is None and rng.random()<0.3:
            open_stage=f'st{stages}'; stages+=1; prog.append(('start_stage',open_stage))
        op=rng.choice(['t_cc','t_cp','t_cp','t_pc','t_pp','remove','fill','fill','newc','dilute'])
        if op=='t_cc':
            a,b=rng.sample(cn,2) if len(cn)>1 else (cn[0],cn[0])
            prog.append(('transfer',(a,None),(b,None),f"{rng.randint(1,20)*100} uL"))
        elif op=='t_cp':
            p=rng.choice(pn); prog.append(('transfer',(rng.choice(cn),None),(p,sel(p)),f"{rng.randint(1,20)} uL"))
        elif op=='t_pc':
            p=rng.choice(pn); prog.append(('transfer',(p,sel(p)),(rng.choice(cn),None),f"{rng.randint(1,3)} uL"))
        elif op=='t_pp':
            p=rng.choice(pn); q=rng.choice(pn); prog.append(('transfer',(p,sel(p)),(q,sel(q)),f"{rng.randint(1,3)} uL"))
        elif op=='remove':
            tgt=rng.choice(cn+pn); what=rng.choice([water,salt,Substance.LIQUID,Substance.SOLID,lip])
            prog.append(('remove',(tgt, sel(tgt) if tgt in pn and rng.random()<0.5 else None),what))
        elif op=='fill':
            tgt=rng.choice(cn+pn)
            if tgt in pn: prog.append(('fill_to',(tgt,sel(tgt) if rng.random()<0.5 else None),water,f"{rng.randint(30,60)} uL"))
            else: prog.append(('fill_to',(tgt,None),water,f"{rng.randint(150,300)} mL"))
        elif op=='newc':
            n=f'n{k}'; names[n]=('C',None); cn.append(n)
            prog.append(('create_container',n,[(water,f"{rng.randint(1,50)} mL")]))
        elif op=='dilute':
            pass
        if open_stage and rng.random()<0.4:
            prog.append(('end_stage',open_stage)); open_stage=None
    return names,prog
def mk(names):
    objs={}
    for n,(k,v) in names.items():
        if k=='C' and v is not None: objs[n]=Container(n, initial_contents=v) if v else Container(n)
        elif k=='P': objs[n]=Plate(n,'100 uL',rows=v[0],columns=v[1])
    return objs
def getsl(plate,s):
    if s is None: return plate
    if s[0]=='cell': return plate[s[1],s[2]]
    if s[0]=='row': return plate[s[1]]
    if s[0]=='col': return plate[:,s[1]]
    return plate[s[1]:s[2],s[3]:s[4]]
def ref(objs,r):
    n,s=r; o=objs[n]
    return getsl(o,s) if isinstance(o,Plate) else o
def run_eager(names,prog):
    cur=mk(names); ledger=[{k:snap(v) for k,v in cur.items()}]
    for op in prog:
        if op[0] in('start_stage','end_stage'): continue
        if op[0]=='transfer':
            _,a,b,q=op; src=ref(cur,a); dst=ref(cur,b)
            if isinstance(src,Plate): src=src[:]
            if isinstance(cur[b[0]],Container): s2,d2=Container.transfer(src,dst,q)
            else: s2,d2=Plate.transfer(src,dst,q)
            if a[0]==b[0]: cur[a[0]]=d2
            else: cur[a[0]]=s2; cur[b[0]]=d2
        elif op[0]=='remove':
            _,t,what=op; cur[t[0]]=ref(cur,t).remove(what)
        elif op[0]=='fill_to':
            _,t,solv,q=op; cur[t[0]]=ref(cur,t).fill_to(solv,q)
        elif op[0]=='create_container':
            _,n,init=op; cur[n]=Container(n,initial_contents=init)
        ledger.append({k:snap(v) for k,v in cur.items()})
    return cur,ledger
def run_recipe(names,prog):
    objs=mk(names); r=Recipe().uses(*objs.values())
    for op in prog:
        if op[0]=='start_stage': r.start_stage(op[1])
        elif op[0]=='end_stage': r.end_stage(op[1])
        elif op[0]=='transfer': r.transfer(ref(objs,op[1]),ref(objs,op[2]),op[3])
        elif op[0]=='remove': r.remove(ref(objs,op[1]),op[2])
        elif op[0]=='fill_to': r.fill_to(ref(objs,op[1]),op[2],op[3])
        elif op[0]=='create_container': objs[op[1]]=r.create_container(op[1],initial_contents=op[2])
    return r,objs
def eqsnap(a,b,tol=1e-6):
    if isinstance(a,dict):
        for s in set(a)|set(b):
            if abs(a.get(s,0)-b.get(s,0))>tol*max(1,abs(a.get(s,0))): return False
        return True
    return all(eqsnap(x,y) for ra,rb in zip(a,b) for x,y in zip(ra,rb))
stats=collections.Counter(); examples={}
def note(k,ex):
    stats[k]+=1; examples.setdefault(k,ex)
for case in range(int(sys.argv[2]) if len(sys.argv)>2 else 300):
    names,prog=gen_program()
    try: cur,ledger=run_eager(names,prog); eager_err=None
    except Exception as e: eager_err=e
    try:
        r,objs=run_recipe(names,prog); res=r.bake(); bake_err=None
    except Exception as e: bake_err=e
    if eager_err or bake_err:
        if bool(eager_err)!=bool(bake_err):
            be = bake_err; 
            note(f'C08 err mismatch eager={type(eager_err).__name__}:{str(eager_err)[:40]} bake={type(bake_err).__name__}:{str(bake_err)[:40]}',prog)
        else: stats['both_err:'+type(eager_err).__name__]+=1
        continue
    stats['ok']+=1
    # C08
    for n in cur:
        if n not in res: note('C08 missing key',prog); continue
        if not eqsnap(snap(cur[n]),snap(res[n])):
            kinds=set(o[0]+('/slice' if (o[0] in('fill_to','remove') and o[1][1] is not None) else '') for o in prog)
            note('C08 state mismatch; has fill_slice=%s'%('fill_to/slice' in kinds), prog)
    if set(res)!=set(cur): note('C08 keys differ',prog)
print(stats)
for k,v in examples.items(): print(k,'\n   ',v)
