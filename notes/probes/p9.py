from pyplate import Substance, Container, Plate, Recipe, Unit
from pyplate.pyplate import config
import numpy as np, copy, itertools
water = Substance.liquid('H2O', 18.0153, 1)
salt = Substance.solid('NaCl', 58.4428)
dmso = Substance.liquid('DMSO', 78.13, 1.1004)
lip = Substance.enzyme('lipase', '10 U/mg')
stock = Container.create_solution(salt, water, concentration='1 M', total_quantity='100 mL', name='stock')
pl = Plate('pl','1 mL',rows=2,columns=2)
pl2 = Plate('pl2','1 mL',rows=2,columns=2)
d = Container('d')
r = Recipe().uses(stock, pl, pl2, d)
r.start_stage('s1')
r.transfer(stock, pl, '100 uL')
r.transfer(pl, pl2, '10 uL')
r.end_stage('s1')
r.start_stage('s2')
r.transfer(pl2[1,:], d, '5 uL')
r.remove(pl[1,:], water)
r.fill_to(d, water, '1 mL')
res = r.bake()
for obj in [pl, pl2, stock, d]:
    for tf in ['all','s1','s2']:
        for unit in ['uL','mg','umol']:
            try:
                print(obj.name, tf, unit, 'flows', r.get_container_flows(obj, tf, unit))
            except Exception as e: print(obj.name, tf, unit, 'flows', type(e).__name__, e)
            for mode in ['before','after']:
                try:
                    print(obj.name, tf, unit, mode, 'remaining', r.get_amount_remaining(obj, tf, unit, mode))
                except Exception as e: print(obj.name, tf, unit, mode, 'remaining', type(e).__name__, e)
        break
for s in [water, salt]:
    for tf in ['all','s1','s2']:
        for dests in ['plates', [pl], [pl2], [d], [stock], [pl,pl2,d]]:
            try:
                print(s.name, tf, dests if isinstance(dests,str) else [x.name for x in dests], r.get_substance_used(s, tf, 'umol', dests))
            except Exception as e: print(s.name, tf, dests if isinstance(dests,str) else [x.name for x in dests], type(e).__name__, str(e)[:80])
