import random, math, sys
from pyplate import Substance, Container, Plate, Recipe, Unit
from pyplate.pyplate import config
rng = random.Random(int(sys.argv[1]) if len(sys.argv)>1 else 0)
def mk_subs():
    subs=[]
    for i in range(rng.randint(2,5)):
        k=rng.choice('SLE')
        if k=='S': subs.append(Substance.solid(f's{i}', round(10**rng.uniform(1,3),3)))
        elif k=='L': subs.append(Substance.liquid(f'l{i}', round(10**rng.uniform(1,2.7),3), round(rng.uniform(0.5,2.0),4)))
        else: subs.append(Substance.enzyme(f'e{i}', f"{round(10**rng.uniform(-1,3),3)} U/{rng.choice(['g','mg','ug'])}"))
    return subs
PREF={'L':['n','u','m','','c','d'],'g':['n','u','m','','k'],'mol':['n','u','m',''],'U':['']}
def qty(unit, base_value):
    p=rng.choice(PREF[unit]); mult=Unit.convert_prefix_to_multiplier(p)
    v=base_value/mult
    return f"{float(f'{v:.6g}')} {p}{unit}"
def stor(s): return 'U' if s.is_enzyme() else config.moles_storage_unit
def total(c,u): return sum(Unit.convert_from(s,a,stor(s),u) for s,a in c.contents.items())
maxdev={'cons':0,'size_src':0,'size_dst':0,'vol':0,'prop':0}
n=0
for trial in range(400):
    subs=mk_subs()
    init=[]
    for s in subs:
        if s.is_enzyme(): init.append((s, qty('U', 10**rng.uniform(-2,3))))
        elif s.is_liquid(): init.append((s, qty('L', 10**rng.uniform(-6,0))))
        else: init.append((s, qty('g', 10**rng.uniform(-6,2))))
    src=Container('src', initial_contents=init); dst=Container('dst')
    for step in range(rng.randint(1,8)):
        units=['L','g']+(['mol'] if any(not s.is_enzyme() for s in src.contents) else [])+(['U'] if any(s.is_enzyme() for s in src.contents) else [])
        u=rng.choice(units); tot=total(src,u)
        if tot<=0: break
        frac=rng.choice([10**rng.uniform(-6,-0.01), rng.uniform(0.01,0.9)])
        q=qty(u, tot*frac)
        qv,qu=Unit.parse_quantity(q)
        try:
            s2,d2=Container.transfer(src,dst,q)
        except ValueError as e:
            print('refused',q,tot,e); continue
        n+=1
        for s in set(src.contents)|set(dst.contents):
            b=src.contents.get(s,0)+dst.contents.get(s,0); a=s2.contents.get(s,0)+d2.contents.get(s,0)
            maxdev['cons']=max(maxdev['cons'],abs(a-b)/max(1,abs(b)))
            f=qv/tot
            maxdev['prop']=max(maxdev['prop'],abs((src.contents.get(s,0)-s2.contents.get(s,0))-f*src.contents.get(s,0))/max(1e-3,f*src.contents.get(s,0)) if src.contents.get(s,0)>1e-3 else 0)
        maxdev['size_src']=max(maxdev['size_src'],abs((total(src,u)-total(s2,u))-qv)/qv)
        maxdev['size_dst']=max(maxdev['size_dst'],abs((total(d2,u)-total(dst,u))-qv)/qv)
        for c in (s2,d2):
            v=total(c,config.volume_storage_unit); maxdev['vol']=max(maxdev['vol'],abs(v-c.volume)/max(1,v))
        src,dst=s2,d2
print(n,maxdev)
