import random, sys, collections
import numpy as np
from pyplate import Substance, Container, Plate, Unit
from pyplate.pyplate import config
rng=random.Random(int(sys.argv[1]) if len(sys.argv)>1 else 0)
PRE={'n':1e-9,'u':1e-6,'m':1e-3,'':1,'k':1e3}
def stor_mult(): return PRE[config.moles_storage_unit[:-3]]
def base_amount(s,a): return a if s.is_enzyme() else a*stor_mult()   # mol or U
def factor(s,u):  # base amount (mol|U) -> unit u (base units only: mol,g,L,U)
    if s.is_enzyme(): return {'U':1.0,'g':1/s.specific_activity,'L':1/s.density/1000,'mol':0.0}[u]
    return {'mol':1.0,'g':s.mol_weight,'L':s.mol_weight/s.density/1000,'U':0.0}[u]
def tot(c,u): return sum(base_amount(s,a)*factor(s,u) for s,a in c.contents.items())
def mk_sub(kind,i):
    if kind=='S': return Substance.solid(f's{i}', round(10**rng.uniform(1.3,2.8),2))
    if kind=='L': return Substance.liquid(f'l{i}', round(10**rng.uniform(1.2,2.5),2), round(rng.uniform(0.6,1.8),3))
    return Substance.enzyme(f'e{i}', f"{round(10**rng.uniform(0,3),2)} U/mg")
stats=collections.Counter(); ex={}
def note(k,e): stats[k]+=1; ex.setdefault(k,e)
for case in range(int(sys.argv[2]) if len(sys.argv)>2 else 300):
    subs=[mk_sub(k,i) for i,k in enumerate(rng.choice(['SL','SLE','LLE','SSL','LE','SLL']))]
    c=Container('c',initial_contents=[(s,f"{round(10**rng.uniform(-1,1.5),4)} {'U' if s.is_enzyme() else 'mL' if s.is_liquid() else 'g'}") for s in subs])
    d=Container('d')
    for _ in range(rng.randint(0,5)):
        op=rng.choice(['t','t','remove','fill'])
        try:
            if op=='t': c,d=Container.transfer(c,d,f"{round(c.get_volume('mL')*rng.uniform(0.01,0.3),5)} mL")
            elif op=='remove': d=d.remove(rng.choice(subs))
            elif op=='fill': d=d.fill_to(next(s for s in subs if s.is_liquid()),f"{round(d.get_volume('mL')*rng.uniform(1.05,2)+0.01,5)} mL")
        except ValueError: pass
    for obj in (c,d):
        for u,m in [('L',1),('mL',1e-3),('uL',1e-6)]:
            got=obj.get_volume(u); exp=tot(obj,'L')/m; stats['vol']+=1
            if abs(got-exp)>1e-9*max(1,abs(exp))+1e-10*2: note(f'get_volume {u}',(got,exp))
        if tot(obj,'L')<=0: continue
        for s in subs:
            for num in ['mol','g','L','U']:
                for den in ['mol','g','L']:
                    D=tot(obj,den); N=base_amount(s,obj.contents.get(s,0))*factor(s,num)
                    if D<=0: continue
                    exp=N/D
                    try: got=obj.get_concentration(s,f'{num}/{den}')
                    except Exception as e: note(f'get_conc EXC {type(e).__name__} {num}/{den} enz={s.is_enzyme()}',(str(e),)); continue
                    stats['conc']+=1
                    tol=1e-9*abs(exp)+1e-10+ (abs(exp)*1e-10/D if den=='L' else 0)
                    if abs(got-exp)>tol: note(f'get_conc mismatch {num}/{den} enz={s.is_enzyme()}',(got,exp,tol,D))
            got=obj.get_concentration(s,'M') if True else None
    # plate observers
    p=Plate('p','2 mL',rows=2,columns=3)
    try:
        _,p=Plate.transfer(c,p[1,:],f"{round(c.get_volume('uL')*0.05,3)} uL"); _,p=Plate.transfer(d,p[:,2],f"{round(d.get_volume('uL')*0.05,3)} uL")
    except (ValueError,ZeroDivisionError): continue
    for u,m in [('uL',1e-6),('mL',1e-3)]:
        prec=config.precisions.get(u,config.precisions['default'])
        got=p.get_volumes(unit=u); exp=np.array([[tot(w,'L')/m for w in row] for row in p.wells]); stats['pv']+=1
        if not np.all(np.abs(got-exp)<=0.5*10**-prec+1e-9): note(f'get_volumes {u}',(got.tolist(),exp.tolist()))
        for s in subs:
            got=p.get_volumes(s,unit=u); exp=np.array([[base_amount(s,w.contents.get(s,0))*factor(s,'L')/m for w in row] for row in p.wells]); stats['pvs']+=1
            if not np.all(np.abs(got-exp)<=0.5*10**-prec+1e-9): note(f'get_volumes subst {u} enz={s.is_enzyme()}',(got.tolist(),exp.tolist()))
        tv=p.get_volume(u)
        if abs(tv-exp.sum()*0)<0: pass
    for u,m in [('umol',1e-6),('mmol',1e-3),('mol',1)]:
        prec=config.precisions.get(u,config.precisions['default'])
        for s in subs:
            got=p.get_moles(s,u); exp=np.array([[base_amount(s,w.contents.get(s,0))*factor(s,'mol')/m for w in row] for row in p.wells]); stats['pm']+=1
            if not np.all(np.abs(got-exp)<=0.5*10**-prec+1e-9): note(f'get_moles {u} enz={s.is_enzyme()}',(got.tolist(),exp.tolist()))
    if p.get_substances()!=set().union(*[set(w.contents) for w in p.wells.flatten()]): note('get_substances',())
print(stats)
for k,v in ex.items(): print(k,'\n   ',v)
