import random
from pyplate import Substance, Container, Plate, Recipe, Unit
import pyplate; print(pyplate.__file__)
from pyplate.pyplate import config
water = Substance.liquid('H2O', 18.0153, 1)
dmso = Substance.liquid('DMSO', 78.13, 1.1004)
tea = Substance.liquid('TEA', 101.19, 0.726)
salt = Substance.solid('NaCl', 58.4428)
random.seed(0)
def trial(kind, sub, v, u):
    q=f'{v} {u}'
    try:
        if kind=='construct': Container('c', q, [(sub, q)])
        elif kind=='fill': Container('c', q).fill_to(sub, q)
        elif kind=='transfer':
            s=Container('s', initial_contents=[(sub, q)]); c=Container('c', q); Container.transfer(s,c,q)
        elif kind=='transfer_mix':
            s=Container('s', initial_contents=[(sub, q),(salt,'1 g')]); c=Container('c', f'{s.get_volume(u)} {u}'); Container.transfer(s,c,f'{s.get_volume(u)} {u}')
        elif kind=='plate':
            s=Container('s', initial_contents=[(sub, f'{v*4} {u}')]); p=Plate('p', q, rows=2, columns=2); Plate.transfer(s,p,q)
        return True
    except ValueError as e:
        return False
for kind in ['construct','fill','transfer','transfer_mix','plate']:
    for sub in [water,dmso,tea]:
        bad=0;n=0;ex=[]
        for i in range(600):
            u=random.choice(['mL','uL','L'])
            v=random.choice([random.randint(1,500), round(random.uniform(0.1,500),1), round(random.uniform(0.1,500),3)])
            n+=1
            if not trial(kind,sub,v,u): bad+=1; ex.append((v,u))
        print(kind, sub.name, bad, '/', n, ex[:4])
