import random, sys, collections, re
from pyplate import Substance, Container, Plate, Recipe, Unit
from pyplate.pyplate import config
rng=random.Random(int(sys.argv[1]) if len(sys.argv)>1 else 0)
PRE={'n':1e-9,'u':1e-6,'µ':1e-6,'m':1e-3,'c':1e-2,'d':1e-1,'':1,'da':10,'k':1e3,'M':1e6}
def stor_mult(): return PRE[config.moles_storage_unit[:-3]]
def base_amount(s,a): return a if s.is_enzyme() else a*stor_mult()
def factor(s,u):
    if s.is_enzyme(): return {'U':1.0,'g':1/s.specific_activity,'L':1/s.density/1000,'mol':0.0}[u]
    return {'mol':1.0,'g':s.mol_weight,'L':s.mol_weight/s.density/1000,'U':0.0}[u]
TOK=re.compile(r'(-?\d+(?:\.\d+)?(?:e-?\d+)?) (n|u|µ|m|c|d|da|k|M|)(mol|g|L|U)\b')
def tokens(line):
    out=[]
    for m in TOK.finditer(line):
        val=float(m.group(1)); unit=m.group(2)+m.group(3)
        prec=config.precisions.get(unit,config.precisions['default'])
        out.append((val*PRE[m.group(2)], m.group(3), 0.5*10**-prec*PRE[m.group(2)], m.end()))
    return out
def matches(line, dims, after_name=None):
    """dims: dict base unit -> true amount in base units"""
    for v,b,tol,end in tokens(line):
        if after_name is not None and not line[end:].startswith(' of '+after_name): continue
        if b in dims and abs(v-dims[b])<=tol*(1+1e-9)+1e-9*abs(dims[b]): return True
    return False
def mk_sub(kind,i):
    if kind=='S': return Substance.solid(f's{i}', round(10**rng.uniform(1.3,2.8),2))
    if kind=='L': return Substance.liquid(f'l{i}', round(10**rng.uniform(1.2,2.5),2), round(rng.uniform(0.6,1.8),3))
    return Substance.enzyme(f'e{i}', f"{round(10**rng.uniform(0,3),2)} U/mg")
def dims_of(delta):  # delta: dict substance->storage amount
    return {u:sum(base_amount(s,a)*factor(s,u) for s,a in delta.items()) for u in ['L','g','mol','U']}
stats=collections.Counter(); ex={}
def note(k,e): stats[k]+=1; ex.setdefault(k,e)
def qty(unit,base): 
    p=rng.choice({'L':['n','u','m',''],'g':['n','u','m','','k'],'mol':['n','u','m',''],'U':['']}[unit]); return f"{float(f'{base/PRE[p]:.5g}')} {p}{unit}"
for case in range(int(sys.argv[2]) if len(sys.argv)>2 else 1500):
    subs=[mk_sub(k,i) for i,k in enumerate(rng.choice(['SL','SLE','LLE','SSL','LE','SLL','S','E','SE','L']))]
    init=[(s,qty('U' if s.is_enzyme() else 'L' if s.is_liquid() else 'g',10**rng.uniform(-7,0))) for s in subs]
    try: c=Container('c',initial_contents=init)
    except ValueError: continue
    line=c.instructions
    for s in subs:
        d=dims_of({s:c.contents[s]})
        if matches(line,d,s.name): stats['ctor ok']+=1
        else: note(f'ctor mismatch kind={"E" if s.is_enzyme() else "L" if s.is_liquid() else "S"}',(line,{k:v for k,v in d.items()}))
    # transfer
    u=rng.choice(['L','g']); tot=dims_of(c.contents)[u]
    if tot>0:
        q=qty(u,tot*10**rng.uniform(-4,-0.05))
        try:
            a,b=Container.transfer(c,Container('d'),q)
            moved={s:c.contents[s]-a.contents[s] for s in c.contents}
            line=b.instructions.splitlines()[-1]; d=dims_of(moved)
            kind='liq' if any(s.is_liquid() for s in subs) else 'noliq'
            small = d['L']<1e-6
            if matches(line,d): stats[f'transfer ok {kind}']+=1
            else: note(f'transfer mismatch {kind} sub-uL={small}',(q,line,d))
        except (ValueError,ZeroDivisionError): pass
    # fill_to
    liq=next((s for s in subs if s.is_liquid()),None)
    if liq is not None:
        cur=dims_of({s:a for s,a in c.contents.items() if not s.is_enzyme()})['L']
        add=10**rng.uniform(-8,-1)
        try:
            f=c.fill_to(liq,f"{cur+add!r} L")
            line=f.instructions.splitlines()[-1]; d=dims_of({liq:f.contents[liq]-c.contents[liq]})
            if matches(line,d): stats['fill ok']+=1
            else: note(f'fill mismatch sub-uL={d["L"]<1e-6}',(line,d))
        except ValueError: pass
print(stats)
for k,v in ex.items(): print(k,'\n   ',v)
