from pyplate import Plate
import itertools, collections
def names(sl):
    g = sl.get()
    return [w.name for w in g.flatten()], g.shape
def ref_axis(sel, labels):
    """returns list of indices or raises"""
    n=len(labels)
    def res(x, is_stop=False):
        if isinstance(x,bool): raise TypeError
        if isinstance(x,int):
            if not 1<=x<=n: raise ValueError
            return x-1
        if isinstance(x,str):
            if x not in labels: raise ValueError
            return labels.index(x)
        raise TypeError
    if isinstance(sel, slice):
        st = 0 if sel.start is None else res(sel.start)
        sp = n-1 if sel.stop is None else res(sel.stop)
        k = 1 if sel.step is None else sel.step
        if not isinstance(k,int) or k<1: raise ValueError
        return list(range(st, sp+1, k)), True
    return [res(sel)], False
out=collections.Counter(); examples={}
for R,C,rl,cl in [(1,1,None,None),(1,3,None,None),(3,1,None,None),(2,3,None,None),(3,4,None,None),(3,3,['i','ii','iii'],['a','b','c']),(28,2,None,None)]:
    p = Plate('p','1 mL', rows=rl or R, columns=cl or C)
    rows, cols = p.row_names, p.column_names
    def atoms(labels):
        n=len(labels)
        ints=list(range(0,n+2)); labs=labels[:min(n,3)]+[labels[-1]]+['ZZ']
        return ints+labs
    ra, ca = atoms(rows), atoms(cols)
    def slices(at):
        s=[slice(None)]
        for a in [None]+at:
            for b in [None]+at:
                for k in [None,1,2,3]:
                    s.append(slice(a,b,k))
        return s
    rs, cs = slices(ra), slices(ca)
    import random
    random.seed(1)
    sels=[]
    for a in ra: sels.append(a)
    for s in rs[:200]: sels.append(s)
    for a in ra:
        for b in ca: sels.append((a,b)); 
    for a in ra:
        for b in ca:
            if isinstance(a,str) or isinstance(b,str): sels.append(f'{a}:{b}')
    for s in random.sample(rs,min(60,len(rs))):
        for b in ca: sels.append((s,b))
    for a in ra:
        for s in random.sample(cs,min(60,len(cs))): sels.append((a,s))
    for s in random.sample(rs,min(40,len(rs))):
        for t in random.sample(cs,min(40,len(cs))): sels.append((s,t))
    for sel in sels:
        # reference
        try:
            if isinstance(sel,str) and ':' in sel:
                a,b = sel.split(':'); 
                ri,_=ref_axis(a,rows); ci,_=ref_axis(b,cols)
            elif isinstance(sel,tuple):
                ri,_=ref_axis(sel[0],rows); ci,_=ref_axis(sel[1],cols)
            else:
                ri,_=ref_axis(sel,rows); ci=list(range(len(cols)))
            exp=[f'well {rows[i]},{cols[j]}' for i in ri for j in ci]
            if not exp: exp='EMPTY'
        except (ValueError,TypeError) as e:
            exp='ERR'
        try:
            got,shape=names(p[sel])
            if not got: got='EMPTY'
        except Exception as e:
            got='ERR'; gerr=type(e).__name__
        key=None
        if exp!=got:
            key=('exp '+('ERR' if exp=='ERR' else 'EMPTY' if exp=='EMPTY' else 'wells'),'got '+('ERR:'+gerr if got=='ERR' else 'EMPTY' if got=='EMPTY' else 'wells'))
            out[key]+=1
            examples.setdefault(key,[]).append(((R,C),sel,exp if isinstance(exp,str) else exp[:4],got if isinstance(got,str) else got[:4]))
        else: out['agree']+=1
print(out)
for k,v in examples.items():
    print(k)
    for e in v[:12]: print('   ',e)
