import random, sys, collections, itertools
import numpy as np
from pyplate import Substance, Container, Unit
from pyplate.pyplate import config
rng=random.Random(int(sys.argv[1]) if len(sys.argv)>1 else 0)
def stor(s): return 'U' if s.is_enzyme() else config.moles_storage_unit
def base(s): return 'U' if s.is_enzyme() else 'mol'
def meas(s,amt_base,u): return Unit.convert_from(s,amt_base,base(s),u)   # uses library conversion (C06 checks it separately)
def mk_sub(kind,i):
    if kind=='S': return Substance.solid(f's{i}', round(10**rng.uniform(1.3,2.8),2))
    if kind=='L': return Substance.liquid(f'l{i}', round(10**rng.uniform(1.2,2.5),2), round(rng.uniform(0.6,1.8),3))
    return Substance.enzyme(f'e{i}', f"{round(10**rng.uniform(0,3),2)} U/mg")
stats=collections.Counter(); ex={}
def note(k,e): stats[k]+=1; ex.setdefault(k,e)
def fmt(v): return repr(float(f'{v:.9g}'))
for case in range(int(sys.argv[2]) if len(sys.argv)>2 else 2000):
    n=rng.choice([1,1,2,3])
    solutes=[mk_sub(rng.choice('SLE'),i) for i in range(n)]
    solvent=mk_sub('L','v')
    # target mixture in base units (mol / U)
    target={}
    total_vol_L=10**rng.uniform(-4,-1)
    # solvent
    target[solvent]=Unit.convert_from(solvent,total_vol_L,'L','mol')
    for s in solutes:
        frac=10**rng.uniform(-4,-1.3)
        if s.is_enzyme(): target[s]=Unit.convert_from(s,total_vol_L*frac,'L','U')
        else: target[s]=Unit.convert_from(s,total_vol_L*frac,'L','mol')
    def total(u): return sum(meas(s,a,u) for s,a in target.items())
    kind=rng.choice(['ct','cq','qt'])
    kw={}; units_used=[]
    if 'c' in kind:
        cs=[]
        for s in solutes:
            num=rng.choice(['U','g','L'] if s.is_enzyme() else ['mol','g','L']); den=rng.choice(['mol','g','L'])
            c=meas(s,target[s],num)/total(den)
            cs.append(f"{fmt(c)} {num}/{den}"); units_used.append((num,den))
        kw['concentration']=cs if (n>1 or rng.random()<0.5) else cs[0]
    if 'q' in kind:
        qs=[]
        for s in solutes:
            u=rng.choice(['U','g','L'] if s.is_enzyme() else ['mol','g','L']); qs.append(f"{fmt(meas(s,target[s],u))} {u}"); units_used.append(('q',u))
        kw['quantity']=qs if (n>1 or rng.random()<0.5) else qs[0]
    if 't' in kind:
        u=rng.choice(['mol','g','L']); kw['total_quantity']=f"{fmt(total(u))} {u}"; units_used.append(('t',u))
    try:
        res=Container.create_solution(solutes if n>1 or rng.random()<0.5 else solutes[0], solvent, **kw)
    except Exception as e:
        note(f'raised {type(e).__name__}:{str(e)[:40]} kind={kind} n={n} kinds={"".join("E" if s.is_enzyme() else "L" if s.is_liquid() else "S" for s in solutes)}',(kw,[(s,s.mol_weight,s.density,s.specific_activity) for s in solutes],(solvent.mol_weight,solvent.density),units_used)); continue
    ok=set(res.contents)==set(target)
    worst=0
    for s,a in target.items():
        got=Unit.convert_from(s,res.contents.get(s,0),stor(s),base(s))
        worst=max(worst,abs(got-a)/a)
    if not ok: note('substance set mismatch',kw)
    elif worst>1e-6: note(f'amount mismatch>1e-6 kind={kind} n={n}',(worst,kw,units_used))
    else:
        stats['ok']+=1; stats['maxdev_e9']=max(stats['maxdev_e9'],int(worst*1e9))
print(stats)
for k,v in ex.items(): print(k,'\n   ',v)
