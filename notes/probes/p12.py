from pyplate import Substance, Container, Plate, Recipe, Unit
from pyplate.pyplate import config
import numpy as np, copy, itertools
water = Substance.liquid('H2O', 18.0153, 1)
salt = Substance.solid('NaCl', 58.4428)
sulf = Substance.solid('Na2SO4', 142.04)
dmso = Substance.liquid('DMSO', 78.13, 1.1004)
tea = Substance.liquid('TEA', 101.19, 0.726)
lip = Substance.enzyme('lipase', '10 U/mg')
stock = Container.create_solution(salt, water, concentration='1 M', total_quantity='100 mL', name='stock')
def tot(c,u): return sum(Unit.convert_from(s,a,'U' if s.is_enzyme() else 'umol',u) for s,a in c.contents.items())
for tgt, q, solv in [('0.5 M','10 mL',water),('0.5 M','10 g',water),('0.5 M','0.5 mol',water),('0.02 g/mL','10 mL',water),('1 %w/w','10 g',water),('0.005 mol/mol','10 mL',water),
                     ('0.5 M','10 mL',dmso),('1 %w/w','10 g',dmso),('0.005 mol/mol','10 g',dmso), ('0.01 g/mL','10 g',dmso), ('0.2 m','10 mL',dmso)]:
    try:
        rest, new = Container.create_solution_from(stock, salt, tgt, solv, q)
        v,n,dn = Unit.parse_concentration(tgt); qu=q.split()[1]
        print(tgt,q,solv.name,'conc',new.get_concentration(salt,f'{n}/{dn}'),'want',v,'total',tot(new,qu), 'rest', rest.get_volume('mL'))
    except Exception as e: print(tgt,q,solv.name,type(e).__name__,e)
# container solvent
solvc = Container.create_solution(sulf, tea, concentration='1 M', total_quantity='100 mL', name='solvc')
rest, rs, new = Container.create_solution_from(stock, salt, '0.5 M', solvc, '10 mL'); print('container solvent', new.get_concentration(salt,'M'), new.get_volume('mL'), rest.get_volume('mL'), rs.get_volume('mL'))
rest, rs, new = Container.create_solution_from(stock, salt, '1 %w/w', solvc, '10 g'); print('container solvent w/w', new.get_concentration(salt,'g/g'), tot(new,'g'))
# solvent container containing solute
solv2 = Container.create_solution(salt, water, concentration='0.2 M', total_quantity='100 mL', name='solv2')
rest, rs, new = Container.create_solution_from(stock, salt, '0.5 M', solv2, '10 mL'); print('solvent has solute', new.get_concentration(salt,'M'), new.get_volume('mL'))
# multi-component stock
st3 = Container('st3', initial_contents=[(water,'100 mL'),(salt,'5 g'),(sulf,'3 g'),(dmso,'10 mL')])
print('st3', st3.get_concentration(salt,'M'))
rest, new = Container.create_solution_from(st3, salt, '0.3 M', water, '10 mL'); print('multi', new.get_concentration(salt,'M'), new.get_volume('mL'))
rest, new = Container.create_solution_from(st3, salt, '1 %w/w', water, '10 g'); print('multi', new.get_concentration(salt,'g/g'), tot(new,'g'))
# stock with enzyme
ste = Container('ste', initial_contents=[(water,'100 mL'),(salt,'5 g'),(lip,'2 U')])
try:
    rest, new = Container.create_solution_from(ste, salt, '0.3 M', water, '10 mL'); print('enz', new.get_concentration(salt,'M'), new.get_volume('mL'))
except Exception as e: print('enz', type(e).__name__, e)
# unreachable / exceeding
for tgt,q in [('2 M','10 mL'),('0.5 M','1 L'),('1 M','100 mL'),('1 M','10 mL'),('0 M','10 mL')]:
    try:
        rest, new = Container.create_solution_from(stock, salt, tgt, water, q); print(tgt,q,'OK',new.get_concentration(salt,'M'),new.get_volume('mL'))
    except Exception as e: print(tgt,q,type(e).__name__,e)
# liquid solute
stl = Container.create_solution(tea, water, concentration='1 M', total_quantity='100 mL', name='stl')
rest, new = Container.create_solution_from(stl, tea, '5 %v/v', water, '10 mL'); print('liquid v/v', new.get_concentration(tea,'L/L'))
