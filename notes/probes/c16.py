import itertools, sys, collections
from pyplate import Substance, Container, Plate, Recipe
water = Substance.liquid('H2O', 18.0153, 1); salt = Substance.solid('NaCl', 58.4428)
def fresh():
    A=Container('A',initial_contents=[(water,'100 mL'),(salt,'5 g')]); B=Container('B'); P=Plate('P','1 mL',rows=1,columns=2); X=Container('X',initial_contents=[(water,'10 mL')])
    return dict(A=A,B=B,P=P,X=X)
SYMS=['usesA','usesB','usesP','usesA2','ccN','ccA','csM','csA','csSolvA','csSolvX','csfA','csfX','tAB','tAP','tXA','tAX','rmA','rmX','dilA','dilX','fillB','fillX','st1','st2','stall','en1','en2','bake']
class Model:
    def __init__(s): s.decl=set(); s.used=set(); s.open=None; s.stages={'all'}; s.locked=False; s.n=0
    def step(s,sym):
        """returns 'ok' | 'raise' | 'runtime' """
        declaring={'usesA':'A','usesB':'B','usesP':'P','usesA2':'A','ccN':'N','ccA':'A','csM':'M','csA':'A','csSolvA':'SA','csSolvX':'SX','csfA':'FA','csfX':'FX'}
        if sym=='bake':
            if s.locked: return 'runtime'
            if s.decl-s.used: return 'raise'
            s.locked=True; s.open=None; return 'ok'
        if sym in('st1','st2','stall','en1','en2'):
            if s.locked: return 'any'   # unspecified type after bake
            name={'st1':'s1','st2':'s2','stall':'all','en1':'s1','en2':'s2'}[sym]
            if sym.startswith('st'):
                if name in s.stages or s.open: return 'raise'
                s.open=name; s.stages.add(name); return 'ok'   # name reserved at start? impl adds at end_stage
            else:
                if s.open!=name: return 'raise'
                s.open=None; return 'ok'
        if s.locked: return 'runtime'
        if sym in declaring:
            nm=declaring[sym]
            if sym=='csSolvA' and 'A' not in s.decl: return 'raise'
            if sym=='csSolvX': return 'raise'
            if sym=='csfA' and 'A' not in s.decl: return 'raise'
            if sym=='csfX': return 'raise'
            if nm in s.decl: return 'raise'
            s.decl.add(nm)
            if not sym.startswith('uses'):
                s.used.add(nm); s.n+=1
                if sym=='csSolvA': s.used.add('A')
                if sym=='csfA': s.used.add('A')
            return 'ok'
        need={'tAB':['A','B'],'tAP':['A','P'],'tXA':['X','A'],'tAX':['A','X'],'rmA':['A'],'rmX':['X'],'dilA':['A'],'dilX':['X'],'fillB':['B'],'fillX':['X']}[sym]
        if any(n not in s.decl for n in need): return 'raise'
        s.used|=set(need); s.n+=1; return 'ok'
def do(r,o,sym):
    A,B,P,X=o['A'],o['B'],o['P'],o['X']
    if sym=='usesA' or sym=='usesA2': r.uses(A)
    elif sym=='usesB': r.uses(B)
    elif sym=='usesP': r.uses(P)
    elif sym=='ccN': r.create_container('N',initial_contents=[(water,'1 mL')])
    elif sym=='ccA': r.create_container('A')
    elif sym=='csM': r.create_solution(salt,water,name='M',concentration='1 M',total_quantity='1 mL')
    elif sym=='csA': r.create_solution(salt,water,name='A',concentration='1 M',total_quantity='1 mL')
    elif sym=='csSolvA': r.create_solution(salt,A,name='SA',concentration='2 M',total_quantity='1 mL')
    elif sym=='csSolvX': r.create_solution(salt,X,name='SX',concentration='2 M',total_quantity='1 mL')
    elif sym=='csfA': r.create_solution_from(A,salt,'0.1 M',water,'1 mL',name='FA')
    elif sym=='csfX': r.create_solution_from(X,salt,'0.1 M',water,'1 mL',name='FX')
    elif sym=='tAB': r.transfer(A,B,'1 mL')
    elif sym=='tAP': r.transfer(A,P,'10 uL')
    elif sym=='tXA': r.transfer(X,A,'1 mL')
    elif sym=='tAX': r.transfer(A,X,'1 mL')
    elif sym=='rmA': r.remove(A,salt)
    elif sym=='rmX': r.remove(X,salt)
    elif sym=='dilA': r.dilute(A,salt,'0.01 M',water)
    elif sym=='dilX': r.dilute(X,salt,'0.01 M',water)
    elif sym=='fillB': r.fill_to(B,water,'50 mL')
    elif sym=='fillX': r.fill_to(X,water,'50 mL')
    elif sym=='st1': r.start_stage('s1')
    elif sym=='st2': r.start_stage('s2')
    elif sym=='stall': r.start_stage('all')
    elif sym=='en1': r.end_stage('s1')
    elif sym=='en2': r.end_stage('s2')
    elif sym=='bake': r.bake()
L=int(sys.argv[1]) if len(sys.argv)>1 else 3
stats=collections.Counter(); ex={}
for seq in itertools.product(SYMS,repeat=L):
    r=Recipe(); o=fresh(); m=Model()
    for i,sym in enumerate(seq):
        exp=m.step(sym)
        n0=len(r.steps)
        try: do(r,o,sym); got='ok'
        except RuntimeError as e: got='runtime'
        except Exception as e: got='raise:'+type(e).__name__
        okk = (exp=='any') or (exp=='ok' and got=='ok') or (exp=='raise' and got!='ok') or (exp=='runtime' and got=='runtime')
        # bake of an infeasible program may raise ValueError legitimately (e.g. dilute infeasible) -> treat model 'ok' but got raise at bake as 'bake-infeasible'
        if not okk:
            key=f'{sym}: exp {exp} got {got}'
            stats[key]+=1; ex.setdefault(key,seq[:i+1]); break
        if got!='ok' and exp=='ok': break
        if got!='ok' and len(r.steps)!=n0: stats['steps grew on refused call']+=1
    else: stats['conform']+=1
print(stats)
for k,v in ex.items(): print(k,v)
