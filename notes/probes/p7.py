from pyplate import Substance, Container, Plate, Recipe, Unit
import numpy as np
water = Substance.liquid('H2O', 18.0153, 1)
src = Container('s', initial_contents=[(water,'10 mL')])
p = Plate('p','1 mL',rows=3,columns=3); q = Plate('q','1 mL',rows=3,columns=3)
_,p = Plate.transfer(src,p,'100 uL')
def t(label,f):
    try:
        r=f(); print(label,'OK'); 
        for x in r:
            if isinstance(x,Plate): print(x.name, x.get_volumes().tolist())
            elif isinstance(x,Container): print(x.name, x.get_volume('uL'))
    except Exception as e: print(label,type(e).__name__,str(e)[:100])
t('C->list', lambda: Plate.transfer(src, q[['A:1','B:2','C:3']], '10 uL'))
t('list->C', lambda: Container.transfer(p[['A:1','B:2']], Container('d'), '10 uL'))
t('list->list', lambda: Plate.transfer(p[['A:1','B:2']], q[['C:1','C:2']], '10 uL'))
t('1->list', lambda: Plate.transfer(p['A:1'], q[['C:1','C:2']], '10 uL'))
t('list1->rect', lambda: Plate.transfer(p[['A:1']], q[1:2,1:2], '10 uL'))
t('list->1', lambda: Plate.transfer(p[['A:1','B:2']], q['C:1'], '10 uL'))
t('rect->list same size', lambda: Plate.transfer(p[1,1:2], q[['C:1','C:2']], '10 uL'))
t('stepped->stepped', lambda: Plate.transfer(p[::2,::2], q[::2,::2], '10 uL'))
t('row->col', lambda: Plate.transfer(p[1,:], q[:,1], '10 uL'))
t('dup list dest', lambda: Plate.transfer(src, q[['A:1','A:1']], '10 uL'))
t('remove list', lambda: (p[['A:1','B:2']].remove(water),))
t('fill list', lambda: (p[['A:1','B:2']].fill_to(water,'200 uL'),))
t('empty slice dest', lambda: Plate.transfer(src, q[3:1], '10 uL'))
