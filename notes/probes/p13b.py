from pyplate import Plate
p = Plate('p','1 mL', rows=3, columns=4)
def t(sel):
    try:
        g = p[sel].get(); print(repr(sel), '->', [w.name[5:] for w in g.flatten()], g.shape)
    except Exception as e: print(repr(sel), '->', type(e).__name__, e)
for sel in [slice(None,None,0), slice(None,None,-1), slice(3,1,-1), slice(1,3,-1), (slice(None),slice(None,None,-2)), True, (True,1), 1.0, (1.0,1), None, (1,2,3), (slice(None),), ((1,1),), [], ['A:1','B:2',(3,4),('C','1')], ['A'], [1], [(1,)], ['A:1:2'], 'A:1:2', 'A:', ':1', ':', 'a:1', ' A:1', 'A:01', [('A',1),'B:2'], [(slice(None),1)], ['A:1','A:1'], (['A:1'], slice(None)), ([1,2], 1), ('A','1'), ('A',1), (1,'1'), 'C:4', 'D:1', 'A:5', (0,1), (1,0), (4,1), (1,5), -1, (-1,1), slice(-1,None), slice(None,-1)]:
    t(sel)
