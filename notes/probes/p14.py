from pyplate import Unit, Substance, Container
def t(f, s):
    try: print(repr(s), '->', f(s))
    except Exception as e: print(repr(s), '->', type(e).__name__, e)
for s in ['10 mL','10  mL','10mL',' 10 mL','10 mL ','1e3 uL','1E-3 L','+5 g','-5 g','nan g','inf L','0x10 mL','1_000 mL','1,5 mL','10 ml','10 ML','10 kL','10 daL','10 dL','10 cL','10 µL','10 nL','10 pL','10 mU','10 U','10 kU','10 M','10 mM','10 m','10 mmol','10 Mmol','10 mol','10 mole','10 gal','10 kg','10 Mg','10 ug','10 L/L','10 %','10 mL/mL', '10 l', '10 G', '', ' ', '10', 'mL', '10 \tmL', '١٠ mL', '10 xmL', '10 mmL', '10 mg', '10 dag', '10 dg', '10 damol']:
    t(Unit.parse_quantity, s)
print('---- conc')
for s in ['1 M','1 mM','1 uM','1 m','1 mm','1 mol/L','1 mmol/mL','0.01 mmol/10 uL','1 umol/uL','5 %w/v','5 %v/v','5 %w/w','5%w/w','5 % w/w','5 %W/W','5 %', '1 g/100 mL','1 g/mL','1 mg/kg','1 U/mL','10 U/mg','1 g/U','1 mol/mol','1 L/L','1 g/0 mL','1 g/-1 mL','-1 M','1 M/L','1 mol/L/L','1 /L','1 mol/','mol/L','1 mol / L','1 mol/ L','1 mol /L','1  mol/L','1 mol/2  L','1 x/L','1 mol/x','1 M ','1 MM','1 kM','1','1 ','', 'M', '1 N', '1 g/dL','1 g/daL','1 ppm','1 mol/kg','1 mmol/g','0.05 nM','1e-3 M','1 nmol/ML', '1 mol/1e3 mL', '1 mol/1 L', '1 2 mol/L', '1 mol/1 2 L']:
    t(Unit.parse_concentration, s)
