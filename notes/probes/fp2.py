import sys, copy, time, collections
from pyplate import Substance, Container, Plate, Recipe
import pyplate.pyplate as pp, pyplate.slicer as ps
from pyplate.pyplate import PlateSlicer
class Injected(BaseException): pass
mon=sys.monitoring; TOOL=mon.DEBUGGER_ID
mon.use_tool_id(TOOL,'fp')
state={'count':0,'fire_at':None,'files':{pp.__file__, ps.__file__},'on':False}
def on_line(code, line):
    if code.co_filename not in state['files']: return mon.DISABLE
    if not state['on']: return
    state['count']+=1
    if state['fire_at'] is not None and state['count']==state['fire_at']:
        state['site']=(code.co_name,line); raise Injected()
mon.register_callback(TOOL, mon.events.LINE, on_line)
mon.set_events(TOOL, mon.events.LINE)
water = Substance.liquid('H2O', 18.0153, 1); salt=Substance.solid('NaCl',58.44); lip=Substance.enzyme('lip','10 U/mg')
def fp(o):
    if isinstance(o,Container): return ('C',o.name,tuple(o.contents.items()),o.volume,o.max_volume,o.instructions)
    if isinstance(o,Plate): return ('P',o.name,id(o.wells),tuple(fp(w) for w in o.wells.flatten()))
    if isinstance(o,PlateSlicer): return ('S',id(o.plate),fp(o.plate),repr(o.slices))
    if isinstance(o,Substance): return ('X',o.name,o._type,o.mol_weight,o.density,o.specific_activity)
    if isinstance(o,(list,tuple)): return tuple(fp(x) for x in o)
    return repr(o)
def setup():
    src=Container('s',initial_contents=[(water,'10 mL'),(salt,'1 g'),(lip,'5 U')]); d=Container('d','50 mL')
    p=Plate('p','1 mL',rows=2,columns=3); _,p=Plate.transfer(src,p,'100 uL'); q=Plate('q','1 mL',rows=2,columns=3)
    wc=Container('wc',initial_contents=[(water,'100 mL')])
    stock=Container.create_solution(salt,water,concentration='1 M',total_quantity='50 mL',name='stock')
    return dict(src=src,d=d,p=p,q=q,wc=wc,stock=stock)
OPS={
 'C->C': lambda o: (Container.transfer,(o['src'],o['d'],'1 mL')),
 'C->slice': lambda o: (Plate.transfer,(o['src'],o['q'][1,:],'10 uL')),
 'slice->C': lambda o: (Container.transfer,(o['p'][:,2],o['d'],'5 uL')),
 'slice->slice': lambda o: (Plate.transfer,(o['p'][1,:],o['q'][2,:],'5 uL')),
 '1->N same plate': lambda o: (Plate.transfer,(o['p'][1,1],o['p'][2,:],'5 uL')),
 'create_solution': lambda o: (Container.create_solution,(salt,water),dict(concentration='1 M',total_quantity='10 mL')),
 'create_solution cont': lambda o: (Container.create_solution,([salt],o['wc']),dict(concentration='1 M',total_quantity='10 mL')),
 'solution_from': lambda o: (Container.create_solution_from,(o['stock'],salt,'0.5 M',water,'10 mL')),
 'dilute': lambda o: (o['stock'].dilute,(salt,'0.5 M',water)),
 'fill_to': lambda o: (o['src'].fill_to,(water,'20 mL')),
 'remove': lambda o: (o['src'].remove,(salt,)),
 'plate.remove': lambda o: (o['p'].remove,(water,)),
 'slice.remove': lambda o: (PlateSlicer.remove,(o['p'][1,:],water)),
 'slice.fill_to': lambda o: (PlateSlicer.fill_to,(o['p'][1,:],water,'500 uL')),
}
def recipe_op(o):
    def run():
        r=Recipe().uses(o['src'],o['d'],o['p']); sl=o['p'][1,:]
        r.transfer(o['src'],o['d'],'1 mL'); r.transfer(o['src'],sl,'5 uL'); r.remove(sl,water); r.fill_to(o['d'],water,'5 mL'); r.bake()
    return run,()
OPS['recipe build+bake']=recipe_op
res={}
for name,mk in OPS.items():
    o=setup(); call=mk(o); f,args=call[0],call[1]; kw=call[2] if len(call)>2 else {}
    objs=list(o.values())+[a for a in args]+( [f.__self__] if hasattr(f,'__self__') else [])
    base=[fp(x) for x in objs]
    state['fire_at']=None; state['count']=0; state['on']=True; mon.restart_events()
    try: f(*args,**kw)
    finally: state['on']=False
    n=state['count']; muts=collections.Counter(); sites=set()
    for k in range(1,n+1):
        state['fire_at']=k; state['count']=0; state['on']=True; mon.restart_events()
        try: f(*args,**kw)
        except Injected: pass
        finally: state['on']=False
        sites.add(state.get('site'))
        now=[fp(x) for x in objs]
        if now!=base:
            muts[state['site']]+=1
            # rebuild fresh
            o=setup(); call=mk(o); f,args=call[0],call[1]; kw=call[2] if len(call)>2 else {}
            objs=list(o.values())+[a for a in args]+( [f.__self__] if hasattr(f,'__self__') else [])
            base=[fp(x) for x in objs]
    print(f'{name:22s} failpoints={n:5d} sites={len(sites):4d} mutated_at={dict(muts) if muts else 0}')
