import random, sys, collections, copy
import numpy as np
from pyplate import Substance, Container, Plate, Unit
from pyplate.pyplate import config, PlateSlicer
rng=random.Random(int(sys.argv[1]) if len(sys.argv)>1 else 0)
water = Substance.liquid('H2O', 18.0153, 1); dmso = Substance.liquid('DMSO', 78.13, 1.1004)
salt = Substance.solid('NaCl', 58.4428); lip = Substance.enzyme('lipase', '10 U/mg')
SUBS=[water,dmso,salt,lip]
def rand_sel(R,C):
    k=rng.randrange(7)
    if k==0: return slice(None), list(range(R)), list(range(C)), 'rect'
    if k==1:
        r=rng.randint(1,R); c=rng.randint(1,C); return (r,c),[r-1],[c-1],'rect'
    if k==2:
        r=rng.randint(1,R); return r,[r-1],list(range(C)),'rect'
    if k==3:
        c=rng.randint(1,C); return (slice(None),c),list(range(R)),[c-1],'rect'
    if k==4:
        r1=rng.randint(1,R); r2=rng.randint(r1,R); c1=rng.randint(1,C); c2=rng.randint(c1,C); return (slice(r1,r2),slice(c1,c2)),list(range(r1-1,r2)),list(range(c1-1,c2)),'rect'
    if k==5:
        sr=rng.randint(1,2); sc=rng.randint(1,2); return (slice(None,None,sr),slice(None,None,sc)),list(range(0,R,sr)),list(range(0,C,sc)),'rect'
    cells=[(rng.randint(1,R),rng.randint(1,C)) for _ in range(rng.randint(1,3))]
    cells=list(dict.fromkeys(cells))
    return [c for c in cells], cells, None, 'list'
def addressed(selinfo):
    sel,rows,cols,kind=selinfo
    if kind=='rect': return [(i,j) for i in rows for j in cols], (len(rows),len(cols))
    return [(r-1,c-1) for r,c in rows], (len(rows),)
def cfp(c): return (tuple((s.name,round(a,6)) for s,a in c.contents.items() if abs(a)>1e-9), round(c.volume,6))
def fill_plate(R,C):
    p=Plate('p','500 uL',rows=R,columns=C)
    for _ in range(rng.randint(1,4)):
        src=Container('src',initial_contents=[(s,f"{rng.randint(1,9)} {'U' if s.is_enzyme() else 'mL' if s.is_liquid() else 'g'}") for s in rng.sample(SUBS,rng.randint(1,3))]+[(water,'5 mL')])
        si=rand_sel(R,C)
        try: _,p=Plate.transfer(src,p[si[0]],f"{rng.randint(5,40)} uL")
        except ValueError: pass
    return p
stats=collections.Counter(); ex={}
def note(k,e): stats[k]+=1; ex.setdefault(k,e)
def close(a,b):
    ka={s:v for s,v in a.contents.items() if abs(v)>1e-9}; kb={s:v for s,v in b.contents.items() if abs(v)>1e-9}
    return set(ka)==set(kb) and all(abs(ka[s]-kb[s])<=1e-7*max(1,abs(ka[s])) for s in ka) and abs(a.volume-b.volume)<=1e-7*max(1,a.volume)
for case in range(int(sys.argv[2]) if len(sys.argv)>2 else 500):
    R=rng.randint(1,4); C=rng.randint(1,4)
    p=fill_plate(R,C)
    op=rng.choice(['c2s','s2c','s2s','remove','fill'])
    si=rand_sel(R,C); idx,shape=addressed(si)
    before=copy.deepcopy(p)
    try:
        if op=='c2s':
            src=Container('src',initial_contents=[(water,'5 mL'),(salt,'1 g')]); q=f"{rng.randint(1,30)} uL"
            exp={}; cur=src; err=None
            try:
                for (i,j) in idx: cur,exp[(i,j)]=Container.transfer(cur,p.wells[i,j],q)
            except ValueError as e: err=e
            try: s2,p2=Plate.transfer(src,p[si[0]],q); gerr=None
            except ValueError as e: gerr=e
            if bool(err)!=bool(gerr): note(f'{op} err mismatch',(si[0],str(err),str(gerr))); continue
            if err: stats[op+' both raise']+=1; continue
            if not close(s2,cur): note(f'{op} container side mismatch',(si[0],))
        elif op=='s2c':
            dst=Container('dst'); q=f"{rng.randint(1,5)} uL"
            exp={}; cur=dst; err=None
            try:
                for (i,j) in idx: exp[(i,j)],cur=Container.transfer(p.wells[i,j],cur,q)
            except (ValueError,ZeroDivisionError) as e: err=e
            try: p2,d2=Container.transfer(p[si[0]],dst,q); gerr=None
            except (ValueError,ZeroDivisionError) as e: gerr=e
            if bool(err)!=bool(gerr): note(f'{op} err mismatch',(si[0],str(err),str(gerr))); continue
            if err: stats[op+' both raise']+=1; continue
            if not close(d2,cur): note(f'{op} container side mismatch',(si[0],))
        elif op=='remove':
            what=rng.choice([water,salt,Substance.LIQUID,Substance.SOLID,Substance.ENZYME])
            exp={(i,j):p.wells[i,j].remove(what) for (i,j) in idx}
            p2=p[si[0]].remove(what)
        elif op=='fill':
            q=f"{rng.randint(100,400)} uL"; exp={}; err=None
            try:
                for (i,j) in idx: exp[(i,j)]=p.wells[i,j].fill_to(water,q)
            except ValueError as e: err=e
            try: p2=p[si[0]].fill_to(water,q); gerr=None
            except ValueError as e: gerr=e
            if bool(err)!=bool(gerr): note(f'{op} err mismatch',(si[0],str(err),str(gerr))); continue
            if err: stats[op+' both raise']+=1; continue
        elif op=='s2s':
            R2=rng.randint(1,4); C2=rng.randint(1,4); pq=fill_plate(R2,C2); pq.name='q'
            sj=rand_sel(R2,C2); jdx,shape2=addressed(sj); q=f"{rng.randint(1,5)} uL"
            n1=len(idx); n2=len(jdx)
            legal = (n1==1 and shape in((1,1),)) or (n2==1 and shape2==(1,1)) or (shape==shape2)
            exp={}; expq={}; err=None
            if legal:
                try:
                    if n1==1 and shape==(1,1):
                        cur=p.wells[idx[0]]
                        for b in jdx: cur,expq[b]=Container.transfer(cur,pq.wells[b],q)
                        exp[idx[0]]=cur
                    elif n2==1:
                        cur=pq.wells[jdx[0]]
                        for a in idx: exp[a],cur=Container.transfer(p.wells[a],cur,q)
                        expq[jdx[0]]=cur
                    else:
                        for a,b in zip(idx,jdx): exp[a],expq[b]=Container.transfer(p.wells[a],pq.wells[b],q)
                except (ValueError,ZeroDivisionError) as e: err=e
            try: p2,q2=Plate.transfer(p[si[0]],pq[sj[0]],q); gerr=None
            except Exception as e: gerr=e
            if not legal:
                if gerr is None: note('s2s illegal shapes accepted',(si[0],sj[0],shape,shape2))
                else: stats['s2s illegal rejected:'+type(gerr).__name__]+=1
                continue
            if bool(err)!=bool(gerr): note(f's2s err mismatch form={"1N" if n1==1 else "N1" if n2==1 else "NN"} kinds={si[3]},{sj[3]} gerr={type(gerr).__name__}',(si[0],sj[0],str(err),str(gerr)[:60])); continue
            if err: stats[op+' both raise']+=1; continue
            for (i,j) in [(i,j) for i in range(R2) for j in range(C2)]:
                e=expq.get((i,j),pq.wells[i,j])
                if not close(q2.wells[i,j],e): note('s2s dest well mismatch',(si[0],sj[0]))
    except Exception as e:
        note(f'{op} EXC {type(e).__name__}: {str(e)[:60]} selkind={si[3]}',(si[0],)); continue
    bad=False
    for i in range(R):
        for j in range(C):
            e=exp.get((i,j))
            if e is None:
                if cfp(p2.wells[i,j])!=cfp(before.wells[i,j]): note(f'{op} untouched well changed',(si[0],(i,j))); bad=True
            elif not close(p2.wells[i,j],e): note(f'{op} addressed well mismatch',(si[0],(i,j))); bad=True
    if cfp(p.wells[0,0])!=cfp(before.wells[0,0]): note('arg mutated',op)
    if not bad: stats[op+' ok']+=1
print(stats)
for k,v in ex.items(): print(k,'\n   ',v)
