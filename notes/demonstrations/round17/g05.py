"""C05 counterexamples: create_solution accepts requests whose stated values do not determine a mixture
(incomplete repair 1666764: the determinant test looks only at the rows it classed as 'dilute')."""
import sys
from pyplate import Substance, Container

water = Substance.liquid('water', 18.0153, 1.0)
lipase = Substance.enzyme('lipase', '250 U/g')
protease = Substance.enzyme('protease', '3 U/ug')
amylase = Substance.enzyme('amylase', '10 U/mg')
SPEC = {lipase: 250., protease: 3e6, amylase: 1e4}   # U/g


def mass_g(contents):      # first principles: enzymes U -> g by specific activity, water umol -> g
    return sum(v / SPEC[s] if s.is_enzyme() else v * 1e-6 * s.mol_weight for s, v in contents.items())


def try_make(solutes, conc, total):
    try:
        return Container.create_solution(solutes, water, concentration=conc, total_quantity=total)
    except ValueError as e:
        return e


def underdetermined_shares_accepted():
    """Two enzymes stated only as shares of one another's activity that add up to one ('0.999 U/U' + '0.001 U/U'),
    plus a total: the total activity is open (every scale fits), the commit 1666764 refuses this form
    ('0.9 U/U' + '0.1 U/U'), yet this one is served with arbitrary amounts."""
    failures = []
    ref = try_make([lipase, protease], ['0.9 U/U', '0.1 U/U'], '50 mg')
    print("  reference  0.9/0.1   in 50 mg ->", repr(ref) if isinstance(ref, Exception) else ref.contents)
    got = {}
    for conc, total in [(['0.999 U/U', '0.001 U/U'], '50 mg'), (['0.999 U/U', '0.001 U/U'], '1 g'),
                        (['0.9992 U/U', '0.0008 U/U'], '1 L'), (['0.9992 U/U', '0.0008 U/U'], '1 mL')]:
        r = try_make([lipase, protease], conc, total)
        if isinstance(r, Exception):
            print("  refused   ", conc, total, r)
            continue
        c = r.contents
        got[(tuple(conc), total)] = c
        print("  ACCEPTED  ", conc, total, {s.name: v for s, v in c.items()})
        failures.append(f"under-determined request {conc} in {total} accepted: {{{', '.join(f'{s.name}: {v}' for s, v in c.items())}}}")
    # the answer is not determined: another mixture (half the enzymes, water made up) meets every stated value as well
    key = (('0.999 U/U', '0.001 U/U'), '50 mg')
    if key in got:
        c = got[key]
        alt = {lipase: c[lipase] / 2, protease: c[protease] / 2}
        alt[water] = (0.050 - mass_g(alt)) / water.mol_weight * 1e6
        for label, m in (('returned', c), ('alternative', alt)):
            act = m[lipase] + m[protease]
            print(f"    {label:11s}: lipase share {m[lipase] / act:.6f}, protease share {m[protease] / act:.6f}, "
                  f"total {mass_g(m) * 1000:.6f} mg, lipase {m[lipase]:.6f} U")
        # and the library's own answers do not scale with the total (20 x the total, 12.8 x the enzyme)
        k2 = (('0.999 U/U', '0.001 U/U'), '1 g')
        if k2 in got:
            print(f"    lipase per mg of solution: 50 mg -> {c[lipase] / 50:.5f} U/mg, 1 g -> {got[k2][lipase] / 1000:.5f} U/mg")
    return failures


def contradictory_shares_accepted():
    """'0.7 U/U' + '0.3 U/U' leave nothing for the third enzyme, which is nevertheless stated at 2 U per mol:
    no mixture with positive amounts exists (protease = 0 and water = 0 is the only solution)."""
    failures = []
    r = try_make([amylase, lipase, protease], ['0.7 U/U', '0.3 U/U', '2 U/mol'], '3 kg')
    if isinstance(r, Exception):
        print("  refused:", r)
        return failures
    c = r.contents
    mol = c[water] * 1e-6
    got = c[protease] / mol
    print("  ACCEPTED  ['0.7 U/U','0.3 U/U','2 U/mol'] in 3 kg ->", {s.name: v for s, v in c.items()})
    print(f"    protease read back {got:.4f} U/mol (stated 2), water {mol:.3e} mol in a 3 kg 'solution'")
    failures.append(f"contradictory request accepted; protease {got:.4f} U/mol for the stated 2 U/mol, water {mol:.2e} mol")
    return failures


if __name__ == '__main__':
    fails = []
    print("1. under-determined shares:")
    fails += underdetermined_shares_accepted()
    print("2. contradictory shares:")
    fails += contradictory_shares_accepted()
    if fails:
        print("FAIL")
        for f in fails:
            print(" -", f)
        sys.exit(1)
    print("PASS")
