"""C09: get_substance_used answers 0 for a stage in which the destination plate really loses material,
when the same stage holds a create_solution step whose solvent container lists the solute with a zero amount
(the zero-change allowance of 45bb2bc counts the solute added from outside as 'moved', i.e. as rounding noise)."""
import sys
from pyplate import Substance, Container, Plate, Recipe

water = Substance.liquid('water', 18.0153, 1)
salt = Substance.solid('NaCl', 58.44)


def build(diluent_kind):
    stock = Container('stock', initial_contents=[(water, '50 mL'), (salt, '10 mmol')])
    plate = Plate('plate', '2 mL')
    waste = Container('waste')
    r = Recipe()
    if diluent_kind == 'zero entry':        # a bottle declared with '0 mol' of the salt
        diluent = Container('diluent', initial_contents=[(water, '100 mL'), (salt, '0 mol')])
    elif diluent_kind == 'clean':           # control: plain water
        diluent = Container('diluent', initial_contents=[(water, '100 mL')])
    else:                                   # 'emptied and refilled': a brine bottle emptied, then refilled with water
        diluent = Container('diluent', initial_contents=[(water, '10 mL'), (salt, '1 mmol')])
    r.uses(stock, diluent, plate, waste)
    if diluent_kind == 'emptied and refilled':
        r.transfer(diluent, waste, f"{diluent.get_volume('mL')} mL")
        r.fill_to(diluent, water, '100 mL')
    r.start_stage('load')
    r.transfer(stock, plate, '100 uL')          # every well gains 19.769 umol of salt
    r.end_stage('load')
    r.start_stage('work')
    r.create_solution(salt, diluent, name='sol', concentration='1 M', total_quantity='20 mL')  # touches no plate
    r.transfer(plate['A'], waste, '50 uL')      # the plate LOSES 12 * 9.884 = 118.61 umol of salt
    r.end_stage('work')
    return r, plate


def ledger(r, plate, stage):
    """independent: salt on the plate at the end minus at the start of the steps of the stage (umol)."""
    steps = r.steps[r.stages[stage]]
    def on_plate(step, i):
        for pair in (step.to, step.frm):
            if pair[0] is not None and pair[0].name == 'plate':
                return sum(w.contents.get(salt, 0) for w in pair[i].wells.flatten())
        return None
    first = next(v for v in (on_plate(s, 0) for s in steps) if v is not None)
    last = next(v for v in (on_plate(s, 1) for s in reversed(steps)) if v is not None)
    return last - first   # config default storage unit is umol


def check(kind):
    r, plate = build(kind)
    r.bake()
    ok = True
    change = ledger(r, plate, 'work')
    try:
        got = r.get_substance_used(salt, 'work', 'umol', destinations=[plate])
        outcome = f"returned {got}"
        if change < -1e-6:
            ok = False
    except ValueError as e:
        outcome = "ValueError"
    load = r.get_substance_used(salt, 'load', 'umol', destinations=[plate])
    total = r.get_substance_used(salt, 'all', 'umol', destinations=[plate])
    print(f"[{kind}] plate's salt changes by {change:.4f} umol over stage 'work'; get_substance_used(work) {outcome};"
          f" load={load}, all={total}")
    if not ok:
        print(f"   -> net decrease of {-change:.4f} umol must raise ValueError; and load + work = {load} + {got} "
              f"!= all = {total}")
    return ok


if __name__ == '__main__':
    results = [check('clean'), check('zero entry'), check('emptied and refilled')]
    if all(results):
        print('PASS')
        sys.exit(0)
    print('FAIL')
    sys.exit(1)
