"""
C19 counterexample: the baked instruction of a recipe fill_to step on a plate names wells by gluing the row label
and the column label together without a separator.  On a plate with numeric row and column labels two different wells
get the same name, so the instruction states two different amounts for "the same" well: it no longer says which
amount goes where (the amounts named for a well are not the amounts added to it).

Public API only.  Prints FAIL and exits 1 on the defective library, PASS / exit 0 otherwise.
"""
import re
import sys

from pyplate import Substance, Container, Plate, Recipe


def ambiguous_plate_fill_instruction():
    water = Substance.liquid('water', 18.0153, 1.0)
    dmso = Substance.liquid('DMSO', 78.13, 1.1004)

    labels = [str(i) for i in range(1, 13)]                       # a 12 x 12 plate labelled 1..12 both ways
    plate = Plate('p', '1 mL', rows=labels, columns=labels)
    stock = Container('stock', initial_contents=[(dmso, '10 mL')])

    recipe = Recipe().uses(plate, stock)
    recipe.transfer(stock, plate['1:11'], '100 uL')                # row '1',  column '11'
    recipe.transfer(stock, plate['11:1'], '300 uL')                # row '11', column '1'
    recipe.fill_to(plate, water, '500 uL')                         # whole plate: 400 uL, 200 uL, 500 uL elsewhere
    recipe.bake()

    failures = []
    for step in recipe.steps[2:]:
        before, after = step.to[0], step.to[-1]
        added = {}                                                 # (row label, column label) -> uL of water added
        for r, row in enumerate(plate.row_names):
            for c, col in enumerate(plate.column_names):
                delta = after.wells[r, c].get_volume('uL') - before.wells[r, c].get_volume('uL')
                if abs(delta) > 1e-6:
                    added[(row, col)] = delta
        text = step.instructions
        # every "<amount> <unit> to [<well>, <well>, ...]" group of the instruction
        for amount, unit, wells in re.findall(r'([\d.]+) (\w+) to \[([^\]]*)\]', text):
            stated = float(amount) * {'uL': 1., 'mL': 1e3, 'L': 1e6}[unit]
            for token in re.split(r',\s*', wells):
                for end in token.split(':') if token.count(':') == 1 and not any(
                        token == f"{row}:{col}" for row in labels for col in labels) else [token]:
                    # all wells a reader can take this name for: row label, optional separator, column label
                    meant = [(row, col) for row in labels for col in labels
                             if re.fullmatch(re.escape(row) + r'\W?' + re.escape(col), end)]
                    wrong = [well for well in meant if abs(added.get(well, 0.) - stated) > 0.5]
                    if len(meant) > 1 and wrong:
                        failures.append(f"step {step.instructions!r}: the name {end!r} fits the wells "
                                        f"{['%s:%s' % w for w in meant]}; stated {stated} uL, actually added "
                                        f"{[round(added.get(w, 0.), 3) for w in meant]} uL")
    return failures


if __name__ == '__main__':
    problems = ambiguous_plate_fill_instruction()
    if problems:
        print('FAIL')
        for problem in dict.fromkeys(problems):
            print(' ', problem)
        sys.exit(1)
    print('PASS')
    sys.exit(0)
