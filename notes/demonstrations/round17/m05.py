"""C05 counterexamples (public API only). Prints FAIL + observations and exits 1 on the defective library."""
import sys
from pyplate import Substance, Container

water = Substance.liquid('water', 18.0153, 1.0)
dmso = Substance.liquid('DMSO', 78.13, 1.1004)
etoh = Substance.liquid('ethanol', 46.07, 0.789)
salt = Substance.solid('NaCl', 58.44)
gluc = Substance.solid('glucose', 180.156)
lys = Substance.enzyme('lysozyme', '100 U/mg')
amy = Substance.enzyme('amylase', '50 U/mg')
problems = []


def make(*a, **k):
    try:
        r = Container.create_solution(*a, **k)
        return r[1] if isinstance(r, tuple) else r
    except ValueError as e:
        return e


def total_in_activity_units():
    """concentration + total in U: 100 U at 10 U/g is 100 U (1 mg) of enzyme in 10 g: 9.999 g of water. Served before
    59039e7; now every total in U is refused, because the solvent's share *in the unit of the total* (U) is 0."""
    for solvent in (water, Container('stock', initial_contents=[(water, '1 L')])):
        for conc, grams in (('10 U/g', 10.0), ('10 U/L', None), ('2 U/mol', None)):
            r = make(lys, solvent, concentration=conc, total_quantity='100 U')
            if isinstance(r, Exception):
                problems.append(f"total in U: create_solution(lysozyme, {solvent.name}, concentration={conc!r}, "
                                f"total_quantity='100 U') refused: {r}")
            elif grams is not None:
                got = r.contents[water] * 18.0153e-6 + 100 / 100e3
                if abs(got - grams) > 1e-6 or abs(r.contents[lys] - 100) > 1e-9:
                    problems.append(f"total in U: wrong contents {r.contents}")


def near_neat_refused():
    """solvent = 1e-12 .. 1e-13 of the stated total: 0.5 ug of water in 1000 kg is 0.028 umol, 2.8e8 storage quanta; the
    double arithmetic resolves it to 1e-4 relative, and the tree before 59039e7 served all of these within 1 %."""
    for sol, q, t, exp_umol in ((gluc, '999.9999999995 kg', '1000 kg', 5e-7 / 18.0153 * 1e6),
                                (etoh, '999.999999999 L', '1000 L', 1e-6 / 18.0153 * 1e6),
                                (salt, '249.999999999975 mol', '250 mol', 2.5e-11 * 1e6)):
        r = make(sol, water, quantity=q, total_quantity=t)
        if isinstance(r, Exception):
            problems.append(f"near-neat: quantity={q!r}, total_quantity={t!r} ({exp_umol:.4g} umol of water wanted) refused: {r}")
        elif abs(r.contents[water] - exp_umol) > 0.01 * exp_umol:
            problems.append(f"near-neat: water {r.contents[water]} umol, expected {exp_umol}")


def no_room_without_total_accepted():
    """the sibling of 59039e7 without a stated total: shares that add up to one and the matching quantities leave nothing
    for the solvent - no mixture with a positive amount of solvent exists - but the cancellation noise is returned as
    'water' (59039e7 refuses exactly this when a total is stated)."""
    for sols, cs, qs in (([salt, gluc], ['0.030 mol/mol', '0.970 mol/mol'], ['30 mol', '970 mol']),
                         ([dmso, etoh], ['0.997 L/L', '0.003 L/L'], ['997 L', '3 L']),
                         ([etoh, gluc], ['0.211 L/L', '0.789 L/L'], ['211 L', '789 L'])):
        r = make(sols, water, concentration=cs, quantity=qs)
        if not isinstance(r, Exception):
            problems.append(f"no room for the solvent, yet accepted: concentration={cs}, quantity={qs} -> "
                            f"{ {s.name: v for s, v in r.contents.items()} } (umol)")


def enzyme_shares_with_quantities_refused():
    """consistent and fully determined: 70 U + 30 U (0.7 / 0.3 of the activity), 58.44 mg NaCl at 1 mM -> 1 L. Only the
    first stated quantity enters the solve, so the two share rows are dependent and the request is refused."""
    for order in ((0, 1, 2), (2, 0, 1)):
        sols, cs, qs = [lys, amy, salt], ['0.7 U/U', '0.3 U/U', '1 mM'], ['70 U', '30 U', '58.44 mg']
        r = make([sols[i] for i in order], water, concentration=[cs[i] for i in order], quantity=[qs[i] for i in order])
        if isinstance(r, Exception):
            problems.append(f"consistent enzyme shares + quantities refused (order {order}): {type(r).__name__}: {r}")


for f in (total_in_activity_units, near_neat_refused, no_room_without_total_accepted, enzyme_shares_with_quantities_refused):
    f()
if problems:
    print('FAIL')
    for p in problems:
        print(' -', p)
    sys.exit(1)
print('PASS')
