"""
C09 - Recipe.get_substance_used, closed set of destinations, true answer 0, refused.

A create_solution_from step at the source's own concentration adds no solvent: it only moves a portion of the source
(solute AND solvent) into the new container.  Asked for the solvent over {source, new container} the answer is 0 (what one
loses the other gains).  The allowance of 45bb2bc / 457cb49 counts such a step as "moving" every substance except the
solvent operand (`substance != step.operands[2]`), so when the two roundings of the moved water disagree by one stored
digit the query raises 'contain 1e-10 umol less' instead of answering 0 - the defect 45bb2bc repaired, left in for the
solvent.  The solute of the very same step is answered 0.0.
"""
import sys
from pyplate import Substance, Container, Recipe

water = Substance.liquid('water', 18.0153, 1.0)
salt = Substance.solid('NaCl', 58.4428)


def solvent_moved_by_solution_from():
    failures = []
    # 1 mg NaCl in 19 uL water = 20 uL of a '1 mg/20 uL' stock; (V uL water, q uL taken)
    for v, q in ((19, 10.0), (19, 2.0), (49, 15.0), (79, 40.0)):
        recipe = Recipe()
        stock = Container('stock', '1 mL', [(salt, '1 mg'), (water, f'{v} uL')])
        recipe.uses(stock)
        aliquot = recipe.create_solution_from(stock, salt, f'1 mg/{v + 1} uL', water, f'{q} uL', name='aliquot')
        recipe.bake()
        step = recipe.steps[0]
        # first principles: water held by the two containers before and after the only step of the recipe
        before = step.frm[0].contents.get(water, 0) + step.to[0].contents.get(water, 0)
        after = step.frm[1].contents.get(water, 0) + step.to[1].contents.get(water, 0)
        lost_by_stock = step.frm[0].contents[water] - step.frm[1].contents[water]
        gained_by_aliquot = step.to[1].contents[water]
        # (nothing came from outside: the aliquot holds what the stock lost, up to one stored digit)
        assert abs(after - before) < 2e-10 and abs(lost_by_stock - gained_by_aliquot) < 2e-10, (before, after)
        solute_answer = recipe.get_substance_used(salt, destinations=[stock, aliquot])
        try:
            answer = recipe.get_substance_used(water, destinations=[stock, aliquot])
        except ValueError as error:
            failures.append(f"stock of 1 mg NaCl + {v} uL water, {q} uL taken at its own concentration: "
                            f"'{step.instructions}' / '{step.to[1].instructions}'; "
                            f"water in stock+aliquot before {before!r} umol, after {after!r} umol; "
                            f"get_substance_used(NaCl, [stock, aliquot]) = {solute_answer}; "
                            f"get_substance_used(water, [stock, aliquot]) raised ValueError: {error}")
        else:
            if answer != 0:
                failures.append(f"v={v} q={q}: answered {answer}, expected 0")
    return failures


def discard_from_an_object_outside_the_destinations():
    """
    Second, separate observation (arguable under the literal wording 'plus whatever remove steps discarded'): what a remove
    step discards from an object that is NOT among the destinations is added to the answer for the destinations.
    """
    from pyplate import Plate
    failures = []
    recipe = Recipe()
    stock = Container('stock', '20 mL', [(water, '10 mL')])
    old = Container('old buffer', '20 mL', [(water, '5 mL')])
    plate = Plate('plate', '200 uL')
    recipe.uses(stock, old, plate)
    recipe.start_stage('dispense')
    recipe.transfer(stock, plate, '10 uL')      # 96 x 10 uL enter the plate
    recipe.end_stage('dispense')
    recipe.start_stage('cleanup')
    recipe.remove(old, water)                   # 5 mL poured away from a container that is no destination
    recipe.end_stage('cleanup')
    recipe.bake()
    got = recipe.get_substance_used(water, 'cleanup', 'uL', [plate])
    if got != 0:
        failures.append(f"stage 'cleanup' touches only 'old buffer'; get_substance_used(water, 'cleanup', 'uL', [plate]) "
                        f"= {got}, expected 0 (the plate neither gained nor lost, nothing was discarded from it)")
    got = recipe.get_substance_used(water, 'all', 'uL')
    if got != 960:
        failures.append(f"whole recipe, default destinations (the plate): {got} uL, expected 960.0 (96 x 10 uL entered it)")
    try:
        got = recipe.get_substance_used(water, 'all', 'uL', [stock])
        failures.append(f"'stock' lost 960 uL and nothing was discarded from it: expected ValueError (net decrease), "
                        f"got {got} uL 'used'")
    except ValueError:
        pass
    return failures


if __name__ == '__main__':
    found = solvent_moved_by_solution_from() + discard_from_an_object_outside_the_destinations()
    if found:
        print("FAIL")
        for line in found:
            print(" -", line)
        sys.exit(1)
    print("PASS")
    sys.exit(0)
