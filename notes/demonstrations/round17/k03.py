"""C03: requests that leave exactly nothing for the solvent are infeasible (create_solution refuses x <= 0 itself),
yet a share of them is accepted and a 'solution in water' with a noise amount of water is returned."""
import sys
from pyplate import Substance, Container, Recipe

water = Substance.liquid('water', 18.0153, 1.0)
salt = Substance.solid('NaCl', 58.44)
kcl = Substance.solid('KCl', 74.55)
etoh = Substance.liquid('EtOH', 46.07, 0.789)
suc = Substance.solid('sucrose', 342.3)


def outcome(call):
    try:
        result = call()
    except ValueError:
        return None
    return {s.name: v for s, v in result.contents.items()}


def solute_alone_is_the_total():
    """one solute: quantity == total_quantity (the same string) leaves nothing for the solvent."""
    glucose = Substance.solid('glucose', 180.156)
    failures, accepted, asked = [], 0, 0
    for substance in (salt, kcl, suc, etoh, glucose):
        for value in (1, 2, 3, 5, 7, 10, 25, 50, 100, 250, 500, 1000):
            for unit in ('g', 'kg', 'mg', 'mL', 'L', 'mol', 'mmol'):
                q = f"{value} {unit}"
                asked += 1
                got = outcome(lambda: Container.create_solution(substance, water, quantity=q, total_quantity=q))
                if got is not None:
                    accepted += 1
                    if accepted <= 3 or q == '10 mL':
                        failures.append(f"{substance.name}: quantity={q!r} total_quantity={q!r}: accepted, contents (umol) {got}")
    if accepted:
        failures.append(f"... {accepted} of {asked} round-number requests 'quantity == total_quantity' accepted, the others refused")
    return failures


def stated_quantities_fill_the_total():
    """quantity + total_quantity: the solutes alone make up the stated total (all values exact in binary)."""
    failures = []
    cases = [([salt, kcl], ['600 kg', '400 kg'], '1000 kg'),
             ([salt, kcl], ['700 kg', '300 kg'], '1000 kg'),
             ([salt, kcl], ['9 kg', '1 kg'], '10 kg'),
             ([salt, kcl], ['60000 mg', '40000 mg'], '100000 mg'),
             ([etoh, suc], ['0.7 L', '0.3 L'], '1 L'),
             ([salt, kcl], ['300 kg', '700 kg'], '1000 kg')]   # (this one is refused, as it should be)
    for solutes, quantities, total in cases:
        got = outcome(lambda: Container.create_solution(solutes, water, quantity=quantities, total_quantity=total))
        if got is not None:
            failures.append(f"quantity={quantities} total_quantity={total!r}: accepted, contents (umol) {got}")
    return failures


def stated_shares_add_up_to_one():
    """concentration + total_quantity: mass fractions of the solutes add up to exactly one."""
    failures = []
    for shares, total in [(['0.1 g/g', '0.9 g/g'], '1 kg'), (['0.7 g/g', '0.3 g/g'], '1000 kg'),
                          (['0.3 g/g', '0.7 g/g'], '5 mol'), (['0.3 g/g', '0.7 g/g'], '1 kg')]:  # last: refused
        got = outcome(lambda: Container.create_solution([salt, kcl], water, concentration=shares, total_quantity=total))
        if got is not None:
            failures.append(f"concentration={shares} total_quantity={total!r}: accepted, contents (umol) {got}")
    return failures


def recipe_form():
    recipe = Recipe()
    recipe.create_solution([salt, kcl], water, quantity=['600 kg', '400 kg'], total_quantity='1000 kg', name='brine')
    try:
        results = recipe.bake()
    except ValueError:
        return []
    return [f"Recipe.create_solution(quantity=['600 kg', '400 kg'], total_quantity='1000 kg') baked: "
            f"{ {s.name: v for s, v in results['brine'].contents.items()} }"]


failures = solute_alone_is_the_total() + stated_quantities_fill_the_total() + stated_shares_add_up_to_one() + recipe_form()
if failures:
    print("FAIL: requests that leave no room for the solvent were accepted instead of raising ValueError")
    for line in failures:
        print("  ", line)
    sys.exit(1)
print("PASS")
