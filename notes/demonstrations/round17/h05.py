"""
C05: create_solution must meet every stated constraint (here: the total quantity) or raise ValueError.

Two enzymes stated as shares of the activity that add up to 100 % ('0.9 U/U' + '0.1 U/U'), a third solute and a
total volume of a few microlitres: the library returns a container that holds far more than the stated total
(3.83 uL for '3 uL', 10.77 uL for '10 uL', 0.26 uL for '20 nL').  Before commit 4f365c2 every one of these calls
raised ValueError.
"""
import sys
from pyplate import Substance, Container

water = Substance.liquid('water', 18.0153, 1.0)
glycerol = Substance.liquid('glycerol', 92.09, 1.261)
bsa = Substance.solid('BSA', 66430)
salt = Substance.solid('NaCl', 58.44)
amylase = Substance.enzyme('amylase', '1000 U/mg')
catalase = Substance.enzyme('catalase', '5 U/mg')


def volume_litres(container):
    """ first principles: a liquid/solid has mol * g/mol / (g/mL) mL, an enzyme U / (U/mL) mL (default densities 1) """
    total = 0.
    for substance, amount in container.contents.items():
        if substance.is_enzyme():
            total += amount / substance.density / 1000.
        else:
            total += amount * 1e-6 * substance.mol_weight / substance.density / 1000.   # stored in umol
    return total


def total_volume_is_met():
    cases = [([amylase, bsa, catalase], ['0.9 U/U', '1 mg/mL', '0.1 U/U'], '3 uL', 3e-6),
             ([catalase, bsa, amylase], ['0.1 U/U', '1 mg/mL', '0.9 U/U'], '10 uL', 10e-6),
             ([amylase, salt, catalase], ['0.3 U/U', '1 mM', '0.7 U/U'], '10 uL', 10e-6),
             ([amylase, catalase, glycerol], ['0.3 U/U', '0.7 U/U', '1 nL/L'], '20 nL', 20e-9)]
    ok = True
    for solutes, concentrations, total, litres in cases:
        try:
            result = Container.create_solution(solutes, water, concentration=concentrations, total_quantity=total)
        except ValueError as exc:
            print(f"  refused (fine): {concentrations} in {total}: {exc}")
            continue
        got = volume_litres(result)
        reported = result.get_volume('uL')
        if abs(got - litres) > 1e-6 * litres:
            ok = False
            print(f"  {concentrations} total_quantity={total!r}: returned container holds {got * 1e6:.6g} uL "
                  f"(get_volume: {reported} uL), {got / litres - 1:+.1%} off the stated total; "
                  f"contents {dict((s.name, v) for s, v in result.contents.items())}")
    return ok


if __name__ == '__main__':
    good = total_volume_is_met()
    print('PASS' if good else 'FAIL: create_solution accepted the request and missed the stated total quantity')
    sys.exit(0 if good else 1)
