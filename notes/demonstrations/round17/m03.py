"""C03: a request that fits must be accepted.  Since 59039e7 every create_solution request whose total is stated in
activity units ('U') with an ordinary solvent is refused ("The solutes leave no room for the solvent."), because the
new test compares the solvent's share *of the total's unit* - water measures 0 U - with 1e-12 of the total."""
import sys
from pyplate import Substance, Container, Recipe

enz = Substance.enzyme('amylase', '100 U/mg')
salt = Substance.solid('NaCl', 58.4428)
water = Substance.liquid('H2O', 18.0153, 1)
failures = []


def check(label, build, want_U, want_mL):
    try:
        result = build()
    except ValueError as e:
        failures.append(f"{label}: refused with ValueError({e}) - expected {want_U} U of amylase in {want_mL} mL")
        return
    got_U = result.contents.get(enz, 0)
    got_mL = result.get_volume('mL')
    if abs(got_U - want_U) > 1e-6 * want_U or abs(got_mL - want_mL) > 1e-6 * want_mL:
        failures.append(f"{label}: got {got_U} U in {got_mL} mL, expected {want_U} U in {want_mL} mL")


def eager_total_in_U():
    # 0.1 U/mL, 10 U in all -> 10 U of enzyme made up to 100 mL with water: plainly feasible
    check("create_solution(enz, water, '0.1 U/mL', total '10 U')",
          lambda: Container.create_solution(enz, water, concentration='0.1 U/mL', total_quantity='10 U'), 10, 100)
    check("create_solution([enz, NaCl], water, ['0.05 U/mL','1 M'], total '100 U')",
          lambda: Container.create_solution([enz, salt], water, concentration=['0.05 U/mL', '1 M'],
                                            total_quantity='100 U'), 100, 2000)


def solvent_container_total_in_U():
    stock = Container('water stock', initial_contents=[(water, '1 L')])
    check("create_solution(enz, <container of water>, '0.1 U/mL', total '10 U')",
          lambda: Container.create_solution(enz, stock, concentration='0.1 U/mL', total_quantity='10 U')[1], 10, 100)


def recipe_total_in_U():
    def build():
        recipe = Recipe()
        c = recipe.create_solution(enz, water, concentration='0.1 U/mL', total_quantity='10 U', name='mix')
        return recipe.bake()['mix']
    check("Recipe.create_solution(enz, water, '0.1 U/mL', total '10 U') + bake", build, 10, 100)


eager_total_in_U()
solvent_container_total_in_U()
recipe_total_in_U()
if failures:
    print("FAIL")
    for f in failures:
        print("  " + f)
    sys.exit(1)
print("PASS")
