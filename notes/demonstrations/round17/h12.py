"""C12: create_solution_from returns pure solvent (or refuses) when the stock portion is ~1e-16 of the total.

The repair 5ff7e86 / 4a6d09d recomputes a tiny stock portion by hand, but only `if 0 < x`: when the solver's
cancellation error (total - solvent portion) makes x exactly 0 or slightly negative, the old defect of e3047e0 is back:
the 'solution' is pure water, or a feasible request is refused with ValueError.
"""
import sys
from pyplate import Substance, Container

water = Substance.liquid('water', 18.0153, 1.0)
salt = Substance.solid('NaCl', 58.4428)


def solute_umol(container, substance):
    return container.contents.get(substance, 0.0)   # default storage unit: umol


def litres(container):
    # first principles: water only counts (NaCl in here is < 1e-9 L)
    return container.contents.get(water, 0.0) * 1e-6 * 18.0153 / 1.0 / 1000.


def check(conc_pM, quantity):
    stock = Container.create_solution(salt, water, concentration='1 M', total_quantity='1 L')
    target = conc_pM * 1e-12  # mol/L
    try:
        residual, new = Container.create_solution_from(stock, salt, f'{conc_pM} pM', water, quantity)
    except ValueError as e:
        return f"'{conc_pM} pM' in '{quantity}' from 1 L of 1 M NaCl: refused with ValueError({e}) although it needs " \
               f"only ~1e-10 mL of the 1 L stock"
    got = solute_umol(new, salt)
    expected = target * litres(new) * 1e6
    # allow two stored digits (1e-10 umol each) of rounding
    if abs(got - expected) > 2e-10 + 1e-6 * expected:
        return f"'{conc_pM} pM' in '{quantity}': solution holds {got} umol NaCl in {litres(new):.6g} L, " \
               f"expected {expected:.6g} umol ({expected / 1e-10:.0f} stored digits); stock gave up " \
               f"{10 ** 6 - solute_umol(residual, salt)} umol"
    return None


def main():
    failures = []
    # control: the same dilution stated by volume works
    control = check(0.0001, '1 kL')
    for conc, quantity in [(0.0001, '1000 kg'), (0.0001, '12345 kg'), (0.0001, '1e6 kg'), (0.0001, '55 kmol')]:
        problem = check(conc, quantity)
        if problem:
            failures.append(problem)
    if control:
        failures.append('control: ' + control)
    if failures:
        print('FAIL')
        for f in failures:
            print(' -', f)
        sys.exit(1)
    print('PASS')


if __name__ == '__main__':
    main()
