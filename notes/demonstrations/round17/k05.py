"""
C05 counterexamples (public API only, default configuration).

1. regression of cadbe76: a consistent concentration+quantity request whose FIRST solute is a trace (10 pg/L of a peptide in
   saline, 1 L) is refused with "The stated values do not determine the amounts"; the same request with the two solutes
   listed in the other order is accepted and exact. The values determine the mixture completely.
2. same family, just under the 1e12 threshold: the request is accepted but a stated quantity (0.15 mol NaCl) and the implied
   volume (1 L) are missed by ~5e-6 relative (7e-7 mol = 7e9 storage quanta), although the stated values are exactly
   consistent; listed in the other order the answer is exact.
3. concentration + total (a determined, feasible system): refused by the absolute 1e-6 residual test after the dilute-solute
   correction overwrote an enzyme whose total is stated in kU.
"""
import sys
from pyplate import Substance, Container

water = Substance.liquid('water', 18.0153, 1.0)
nacl = Substance.solid('nacl', 58.44)
peptide = Substance.solid('peptide', 1000.0)
igg = Substance.solid('igg', 150000)

failures = []


def attempt(solutes, solvent, **kwargs):
    try:
        return Container.create_solution(solutes, solvent, **kwargs), None
    except ValueError as exc:
        return None, str(exc)


def trace_first_refused():
    # 10 pg/L peptide (1e-14 M) + 9 g/L NaCl, 10 pg + 9 g  ->  exactly one litre; every value is met by
    # 1e-14 mol peptide, 9 g NaCl and water up to 1 L
    a, err_a = attempt([nacl, peptide], water, concentration=['9 g/L', '10 pg/L'], quantity=['9 g', '10 pg'])
    b, err_b = attempt([peptide, nacl], water, concentration=['10 pg/L', '9 g/L'], quantity=['10 pg', '9 g'])
    print("1a [nacl, peptide]:", err_a or (a.contents, a.get_volume('L')))
    print("1b [peptide, nacl]:", err_b or (b.contents, b.get_volume('L')))
    if (err_a is None) != (err_b is None):
        failures.append("1: the same consistent request is accepted or refused depending on the order of the solutes: "
                        + str(err_a or err_b))
    elif err_a is not None:
        failures.append("1: consistent request refused: " + err_a)


def trace_first_inaccurate():
    # 0.1 pM IgG + 0.15 M NaCl, 0.1 pmol + 0.15 mol -> exactly one litre
    res, err = attempt([igg, nacl], water, concentration=['0.1 pM', '0.15 M'], quantity=['0.1 pmol', '0.15 mol'])
    print("2  [igg, nacl]:", err or (res.contents, res.get_volume('L')))
    if err is not None:
        failures.append("2: consistent request refused: " + err)
        return
    got = res.contents[nacl] * 1e-6  # umol -> mol (default storage)
    if abs(got - 0.15) > 1e-12:  # storage noise is 1e-16 mol
        failures.append(f"2: accepted, but holds {got!r} mol NaCl for the stated 0.15 mol "
                        f"(missed by {abs(got - 0.15):.3g} mol; volume {res.get_volume('L')!r} L instead of 1 L)")


def enzyme_total_refused():
    lipase = Substance.enzyme('lipase', '3 U/g')
    ligase = Substance.enzyme('ligase', '1 mg/7 U')
    glycerol = Substance.liquid('glycerol', 92.09, 1.261)
    hexane = Substance.liquid('hexane', 86.18, 0.6548)
    # exact solution (rational arithmetic): nacl 5.686e-5 mol, lipase 0.14095 U, glycerol 2.0766 mol, ligase 38999.859 U,
    # hexane 1.0025e-4 mol - all positive, all far above the storage resolution
    res, err = attempt([nacl, lipase, glycerol, ligase], hexane,
                       concentration=['0.0016 pg/pmol', '0.0000036 mU/uL', '97.14 %w/w', '2.68273e-12 g/pmol'],
                       total_quantity='39.0 kU')
    print("3  enzymes, total 39.0 kU:", err or res.contents)
    if err is not None:
        failures.append("3: determined and feasible concentration+total request refused: " + err)


trace_first_refused()
trace_first_inaccurate()
enzyme_total_refused()
if failures:
    print("FAIL")
    for f in failures:
        print("  -", f)
    sys.exit(1)
print("PASS")
