"""
C09: 'a net decrease raises ValueError'.  Two cases where a real net decrease of the destinations is answered with 0.

1. default configuration: the noise allowance of get_substance_used grows with what objects *outside* the destination set
   hold (1e-15 * holdings of both objects of every transfer step of the timeframe).  A 1 kL carboy that is not a destination
   and is merely used in the same stage swallows a real loss of 0.6 nL (33 nmol) of water from the destination plate.
   Control: the same recipe with a 1 L carboy raises ValueError as the property demands.
2. documented non-default configuration (moles in mol, volumes in L, internal_precision 6): a create_solution_from step
   that adds one stored digit of solvent from outside (1 umol = 18 nL of water) is booked as 'noise', although it does not
   touch the destination plate at all; the plate's real loss of 1 umol of water to a waste container is answered with 0.
"""
import os
import subprocess
import sys
import tempfile


def case_default():
    from pyplate import Substance, Container, Plate, Recipe
    water = Substance.liquid('water', 18.0153, 1.0)

    def run(carboy_volume):
        r = Recipe()
        carboy = Container('carboy', 'inf L', [(water, carboy_volume)])
        tank = Container('tank', 'inf L')
        waste = Container('waste', '1 L')
        p = Plate('p', '500 uL')
        r.uses(carboy, tank, waste, p)
        r.transfer(carboy, p, '100 uL')              # before the stage: every well holds 100 uL
        r.start_stage('x')
        for _ in range(400):
            r.transfer(carboy, tank, '1 mL')         # nothing to do with the plate
        r.transfer(p['A:1'], waste, '0.6 nL')        # the plate really loses 0.6 nL = 33.3 nmol of water
        r.end_stage('x')
        res = r.bake()
        well = res['p'].wells[0, 0].contents[water]
        full = res['p'].wells[0, 1].contents[water]
        try:
            return full - well, r.get_substance_used(water, 'x', 'nmol', destinations=[p])
        except ValueError as e:
            return full - well, 'ValueError'

    lost, big = run('1000 L')
    _, small = run('1 L')
    print(f"  plate p lost {lost * 1000:.3f} nmol of water in stage x and gained nothing")
    print(f"  carboy 1000 L: get_substance_used(water, 'x', 'nmol', [p]) -> {big}")
    print(f"  carboy    1 L: get_substance_used(water, 'x', 'nmol', [p]) -> {small}")
    return big == 'ValueError' and small == 'ValueError'


CHILD = r'''
from pyplate import Substance, Container, Plate, Recipe
water = Substance.liquid('water', 18.0153, 1.0)
salt = Substance.solid('NaCl', 58.44)
r = Recipe()
stock = Container('stock', '1 L', [(water, '100 mL'), (salt, '5.844 g')])   # 0.9447866672 M
wat = Container('wat', '1 L', [(water, '100 mL')])
waste = Container('waste', '1 L')
p = Plate('p', '500 uL')
r.uses(stock, wat, waste, p)
r.transfer(wat, p, '100 uL')
r.start_stage('x')
a = r.create_solution_from(stock, salt, '0.9447677714 M', water, '1 mL', name='aliquot')   # 2e-5 below the stock's
r.transfer(p['A:1'], waste, '1 umol')
r.end_stage('x')
res = r.bake()
added = res['aliquot'].contents[water] + res['stock'].contents[water] - stock.contents[water]
lost = res['p'].wells[0, 1].contents[water] - res['p'].wells[0, 0].contents[water]
print(f"  solvent added from outside by create_solution_from: {added * 1e6:.3f} umol; plate p lost {lost * 1e6:.3f} umol")
try:
    print("  get_substance_used(water, 'x', 'umol', [p]) ->", r.get_substance_used(water, 'x', 'umol', destinations=[p]))
    print("RESULT BAD")
except ValueError as e:
    print("  ValueError", e)
    print("RESULT GOOD")
'''


def case_config():
    import pyplate
    here = os.path.dirname(os.path.abspath(pyplate.__file__))
    text = open(os.path.join(here, 'pyplate.yaml')).read()
    text = text.replace('internal_precision: 10', 'internal_precision: 6')
    text = text.replace('volume_storage_unit: uL', 'volume_storage_unit: L')
    text = text.replace('moles_storage_unit: umol', 'moles_storage_unit: mol')
    with tempfile.TemporaryDirectory() as d:
        open(os.path.join(d, 'pyplate.yaml'), 'w').write(text)
        env = dict(os.environ, PYPLATE_CONFIG=d, PYTHONDONTWRITEBYTECODE='1')
        out = subprocess.run([sys.executable, '-c', CHILD], env=env, capture_output=True, text=True)
    print(out.stdout.rstrip().replace('RESULT BAD', '').replace('RESULT GOOD', '').rstrip())
    if out.returncode:
        print(out.stderr)
    return 'RESULT GOOD' in out.stdout


if __name__ == '__main__':
    print("case 1 (default configuration, large container outside the destination set):")
    ok1 = case_default()
    print("case 2 (storage mol / L, internal_precision 6: one stored digit of solvent added by create_solution_from):")
    ok2 = case_config()
    if ok1 and ok2:
        print("PASS")
        sys.exit(0)
    print("FAIL: a real net decrease of the destination plate was answered with 0 instead of ValueError",
          [name for name, ok in (('case 1', ok1), ('case 2', ok2)) if not ok])
    sys.exit(1)
